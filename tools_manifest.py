#!/usr/bin/env python3
"""Regenerates MANIFEST.json from the table below (keeps it valid and in sync with checks/)."""
import json
import os

HERE = os.path.dirname(os.path.abspath(__file__))

A = "simnet"
B = "unit"
CHECKS = {
    "C01": (A, "4.1", "offline event-log monitor (conservation of tun frames) over whole-program simulated runs under ASan/UBSan, plus a reassembly-conservation monitor on hooked state (users[].inpacket.len never exceeds what the client's own transfer state says it has handed out, at every select())",
            "held on every executed scenario: real client(s) and server on the simulated OS through a seeded fault relay; each tun_write compared byte-for-byte with earlier tun_reads",
            "trusts the shim's fidelity to Linux, gcc sanitizers; zlib's checksum hides most mis-reassembly (C02 catches the resulting loss)"),
    "C02": (A, "4.2", "offline sequence monitor in virtual time (exactly-once/in-order on a clean path incl. packets sized for exactly 2/15/16 fragments with the programs' own zlib, bounded recovery after a fault prefix); a third of the runs with scheduling latency (one select() reports several inputs); fault classes incl. 25-38 s of total silence from the start of the tunnel and resolvers that change the letter case of some names; a second session exchanging client-to-client packets",
            "held on every executed scenario; liveness restated as bounded progress B = 30 virtual s; fault prefixes are seeded samples of up to 40 s",
            "B chosen from the code's timer chains; 'accepted' = frame whose transmission the reader started (the client's documented congestion drop is not acceptance)"),
    "C03": (A, "4.3", "online shadow-authentication monitor (independent MD5) over adversarial multi-session histories against the real iodined; privileged effects identified at the process boundary and by unique packet ids, plus users[] snapshot diffs at every select()",
            "held on every executed history: login accepts, I/S/O/N acknowledgements, raw-login replies, server tun writes, client-to-client forwards, settings changes and authenticated flags all preceded by a correct response to the slot's current challenge",
            "histories are seeded samples; the oracle only demands 'login before effect' and never predicts replies; fragment-size probes and ping/data acknowledgements are not treated as privileged"),
    "C04": (A, "4.4", "differential monitor (same seeded time-scripted scenario with and without spoofed requests; victim-visible observables compared) + offline history monitors for routing by tunnel address, slot takeover and expiry over adversarial multi-session histories (incl. histories in which the server's wall clock is set back)",
            "held on every executed pair and history: every request naming the victim's userid from a foreign address refused and without effect on the packets delivered to the victim, its session row, its transfer state and the server's tun writes; packets for address A delivered only to the logged-in holder of A; no VACK for a slot with an accepted message < 60 s earlier; no service after > 60 s of silence",
            "observables are compared at a granularity insensitive to when a datagram wakes the server inside its 20 ms send-real-soon window; behaviour at exactly 60 s is not asserted; a correct raw login from another address legitimately rebinds"),
    "C05": (A, "4.5", "ASan/UBSan inside the real iodined + structural invariants of the users[] table evaluated by the shim at every select() + watchdog + health probe under structure-aware hostile datagram generators, never-ending fragment streams, exhausted slot pool and failing tun reads, plus ordinary multi-session/tunnel traffic and heap-watch runs (allocated bytes at every select()); a share of the scenarios is repeated with a non-sanitized build under valgrind memcheck (uninitialised values); a fifth of the servers run with -D / -DD; thorough tier: the forwarded-query table under the same sanitizers through one history of 2^32+2^16 queries",
            "no sanitizer report, exit or stall on any executed hostile input sequence (8 generator classes x 11 pre-attack session states x server options), and a session established before the attack still moved a frame each way afterwards",
            "a clean sanitizer run is not memory safety (intra-object / non-adjacent overflows invisible); only executed paths are judged; GCC-defined signed '<<' (shift-base) is not counted as UB"),
    "C08": (B, "4.8", "real client name builders -> strict name checker -> real server dispatcher in one process (statics reached by #include), over the full (L, domain length, codec) grid; Engine A: every name the real client emits with -M L, incl. on paths that answer no fragment-size probe",
            "held on every generated name: thorough tier covers every (L 100..255, domain length, codec) triple; legality/length/suffix checked by an independent label walker, extraction compared with payload[:reported]",
            "domains, payload contents and user slots are seeded samples per triple; login needs 31 Base32 chars and is judged as prefix-only when the name budget is smaller"),
    "C09": (B, "4.9", "real server reply writer -> real client reply reader in one process (also in the form a CNAME-chasing resolver hands answers on), every payload length, prefix/monotonicity/floor oracle plus a committed table of lengths known to fit each answer format; Engine A: the real client's own autoprobe on a direct path must end where that table says its search ends; ASan on exact-size buffers",
            "held on every executed (query type, codec, name, buffer size, length, content) case: every length 2..4096 in the thorough tier",
            "payload contents are 5 styles; exact set judged per content style"),
    "C06": (A, "4.6", "ASan/UBSan inside the real iodine client + watchdog + tun-silence monitor, against a model server that turns hostile at a chosen handshake step, hostile tunnel-phase answers, and an on-path spoofer (incl. runs in which it never matches a query, ended by a delivery probe judged against a silent twin); Engine B driver over a whole cycle of the client's 16-bit query id (unmatched answers at every step) next to the real server (DNS and raw mode), plus ordinary tunnel traffic; a share of the scenarios is repeated with a non-sanitized build under valgrind memcheck (uninitialised values)",
            "no sanitizer report, signal or reproduced stall on any executed reply sequence (11 handshake steps x 17 hostile classes x query types x downstream codecs x once/repeated/sticky); packets planted in answers with a non-recent id or foreign first character never reached the client's tun",
            "a clean sanitizer run is not memory safety; an ordinary client exit is correct; GCC-defined signed '<<' (shift-base) is not counted as UB"),
    "C07": (B, "4.7", "sanitizer-instrumented unit driver with round-trip / alphabet / capacity oracle over enumerated inputs",
            "held on every executed (codec, input, capacity) case: exhaustive for inputs of 0..2 bytes x all capacities, adjacent byte pairs in every block position, every length up to 4096 with capacity sweeps; ASan guards exact-size buffers",
            "alphabet membership from doc/proto_00000502.txt; symbol order within an alphabet not asserted"),
    "C10": (A, "4.10", "online strict RFC 1035 parser + echo/aux oracle on every datagram emitted at the process boundary, incl. a reply-size sweep (one fragment-size probe per size 2..1400, thorough 2..2400, for every record type x downstream codec)",
            "held on every DNS-mode datagram the real programs emitted in the executed scenarios (model-client sessions over all query types/codecs/fragment sizes and real-client tunnel runs)",
            "strict parser written from RFC 1035 (simnet/dnsstrict.py); queries with '.'/NUL inside labels or malformed queries are outside the echo rule"),
    "C11": (A, "4.11", "end-to-end monitor: real client through a transforming relay (member of the property's product family) to the real server; handshake completion within a virtual-time bound, then C02's exactly-once/in-order sequence monitor on packets sent through the same relay, incl. a downstream length sweep (one-fragment packets of every compressed length up to the negotiated fragment size)",
            "held on every executed family member (all single-axis corners + seeded members of the full product, autodetected and with one forced -T/-O the path can carry): autodetection completed, and after every completed handshake 12 packets each way were delivered exactly once in order - except the recorded known finding",
            "liveness restated as bounded progress (300 virtual s handshake, 120 s delivery); forced options the path cannot carry are recorded but not judged; NULL/PRIVATE RDATA is relayed opaque (the family transforms names and text)"),
    "C12": (B, "4.12", "differential monitor over receive-buffer residues: (B) same datagram + 6 different stale-buffer contents through the tree's dns_decode(); (A) whole-program runs of the real server and client under 6 residue policies of the simulated recv(), complete output traces compared",
            "held on every generated datagram (valid queries/answers of all 7 record types cut at every byte, pointers and label lengths reaching the datagram end, inflated RDLENGTH / TXT lengths) x 6 residues",
            "sanitizers cannot see this class (the 64 KB buffer is addressable); a read past the end that cannot change any output is not reported"),
    "C13": (A, "4.13", "system() boundary monitor: every command the real client passes to system() is matched against a strict grammar while a model server feeds hostile login replies; plus the tree's tun.c compiled for LINUX/FREEBSD/OPENBSD/NETBSD with system() replaced by a recorder and fed the same hostile corpus; hosts with and without ifconfig (access() simulated); commands of an unforeseen shape are judged word by word (tool words, interface names, strict dotted quads, numbers in range)",
            "held on every executed login reply: four fields replaced individually and jointly by metacharacter strings, inet_addr-accepted non-dotted-quad forms, out-of-range numbers, fillers, random bytes; 7 query types x 5 downstream encodings",
            "Linux ifconfig command grammar of tun.c; the interface name is local, not peer-derived"),
    "C14": (A, "4.14", "boundary multiset monitor (answers consume received queries; replies of the local DNS server handed on under -b go to somebody who asked with that id) + quiescent-point held-query bound (two in lazy mode; none for longer than 0.5 virtual s in immediate mode; queries held from a lazy phase go out); datagrams with the QR bit set are owed nothing; a relayed reply must not be a second answer to a query iodined answered itself; a third of the runs with scheduling latency",
            "held on every executed history: each server answer matched one-to-one with a received query datagram; at every select() at most two distinct never-answered ping/data queries per session",
            "histories are seeded samples; session attribution uses the userid encoded in the query"),
    "C15": (A, "4.15", "independent downstream decoder over every data answer (size bound, fragment numbering, last flag vs offered frames)",
            "held on every executed history for F in {2..65535}; numbering/last-flag judged for packets of <=16 fragments, cache replays excluded",
            "trusts simnet/proto.py decoders (cross-validated by interoperating with the real server) and Python zlib"),
    "C16": (A, "4.16", "differential monitor (same time-scripted session with and without re-delivered queries) + per-select() invariant on the users[] snapshot + answer-cache same-payload rule, also under injected sendto() failures, on slow paths with several queries under way, and with relays repeating a query up to 9 times; if the instrumented server dies of a sanitizer report in more than a fifth of the pairs they are judged on a build without sanitizers",
            "held on every executed pair: server tun writes, packets delivered to the client and final transfer counters identical with and without re-deliveries; transfer counters unchanged across every iteration that handled only a re-delivered copy; identical repeats of the three most recently answered queries got the original payload",
            "re-deliveries are drawn from inside the documented windows; a case-changed copy of a query that is still held is a new query to the server by design and is judged by the invariant oracle only (DESIGN 9)"),
    "C17": (B, "4.17", "exhaustive small-alphabet enumeration against a label-splitting reference matcher, ASan on exact-size strings; plus a dispatch monitor on the real server (inside names answered by the tunnel server and never forwarded, outside names never answered, forwarded with -b)",
            "exhaustive for validation strings of length 0..7 and query names of length 0..8 over {a,A,b,-,.,*,0} against 16 domains; seeded random long names/domains; boundary lengths",
            "reference written from the property text; wildcard-matched label must be non-empty"),
    "C18": (B, "4.18", "enumeration of (netmask, server position) with pool invariants, a reference lookup under a wrapped clock (also stepped backwards), and a session history (slots handed out, logged in, expired, recycled) through find_available_user(); plus a boundary monitor on the real iodined: the addresses its login replies tell the clients vs its table vs where packets for those addresses go, again after more than a minute of DNS pings / upstream data / raw data only / raw pings / silence, and at the 60 s boundary after the server has been idle (users[] snapshot)",
            "exhaustive over all host positions for /20../30 (quick) and /16../30 (thorough), boundary + sampled positions for /8../15; lookup compared with the reference 'live logged-in owner'",
            "behaviour at exactly 60 s of silence is not asserted"),
    "C19": (B, "4.19", "differential test against an independent MD5 (Python hashlib) incl. bit-flip sensitivity; plus wire-level monitors of the real client (password from -P / environment / standard input; login and every raw-login datagram, which raw-login reply it accepts) against a model server and of the real server (sessions succeeding each other on a slot, repeated raw logins, logins arriving 6-50 s after the version handshake with bystanders in between, repeats of an accepted login with a wrong response); the real client's every login datagram - also after BADIP / LNAK / lost answers and a second version handshake - judged against the challenge it was given last",
            "held on all generated (password, challenge) cases: every length 0..40 x boundary challenges, random cases, single-bit sensitivity, insensitivity to bytes beyond 32 and to output-buffer contents",
            "hashlib MD5 is the oracle; wire-level use of challenge+1/-1 is observed in Engine A runs"),
    "C20": (A, "4.20", "socket-boundary monitor on iodined -b (forward rule, reply-routing rule against a reference window of the 16 most recent forwarded queries) + exhaustive put/get enumeration of the table in a unit driver that #includes fw_query.c, which also runs one history of 2^28 (thorough: 2^32+2^16) forwarded queries; outages of the local DNS server (connect()/ICMP semantics of the simulated OS) with bursts waiting at a busy iodined",
            "held on every executed history (requesters at many address:port pairs incl. IPv6, ids from domains of 3-20 values incl. 0, replies in any order, duplicated, unsolicited, header-less) and on every table history up to the stated depth at every ring phase",
            "forwarded copies are compared by strict parse (id, labels, type), relayed replies byte-for-byte; a header-less reply may reach nobody or the asker of id 0"),
}

NOT_YET = "no check registered for this property"


def main():
    props = [json.loads(l)["id"] for l in open(os.path.join(HERE, "properties.jsonl"))]
    checks = []
    for pid in props:
        if pid not in CHECKS or not os.path.exists(os.path.join(HERE, "checks", pid.lower() + ".py")):
            continue
        eng, ref, tech, text, note = CHECKS[pid]
        checks.append({
            "property_id": pid,
            "quick_cmd": "./vf check %s --tier quick" % pid,
            "thorough_cmd": "./vf check %s --tier thorough" % pid,
            "evidence_file": "evidence/%s.json" % pid,
            "replay_cmd_template": "./vf replay {path}",
            "engine": eng,
            "technique": tech,
            "level_claimed": {"category": "exploration", "text": text, "design_ref": ref},
            "level_note": note,
        })
    claimed = {c["property_id"] for c in checks}
    m = {
        "version": 1,
        "setup_cmd": "./vf setup",
        "hooks": {
            "guard": "IODINE_VERIF",
            "enable": "every check copies /repo/src to a scratch directory and compiles it with -DIODINE_VERIF -fsanitize=address,undefined -fno-sanitize-recover=all. One guarded hook exists: iodine_verif_client_state() at the end of src/client.c (read-only copy of inpkt/outpkt/query ids/connection type), called by the simulated-OS shim at every select() of the client. Everything else is observed without source changes: link-time --wrap of libc calls, the global users[] table and #include of the .c files",
            "baseline_off_cmd": "./vf baseline-off",
            "source_commits": ["8286883"],
            "add_only": True,
        },
        "engines": [
            {"name": "simnet", "path": "simnet/", "serves_properties": sorted(p for p in claimed if CHECKS[p][0] == A),
             "kind_free_text": "whole-program deterministic simulation: the real iodine/iodined binaries (ASan+UBSan) run on a simulated OS (link-time wrapped libc calls -> RPC to a Python discrete-event controller owning virtual time, network, tun devices and the event log); monitors are functions over the boundary event log"},
            {"name": "unit", "path": "unit/", "serves_properties": sorted(p for p in claimed if CHECKS[p][0] == B),
             "kind_free_text": "C drivers linked against the sanitizer-built objects of the current tree; generated / exhaustively enumerated inputs; independent reference oracles"},
        ],
        "checks": checks,
        "not_applicable": [{"property_id": p, "reason": NOT_YET} for p in props if p not in claimed],
        "notes": "All checks rebuild from /repo's working tree into a scratch directory under /var/tmp (removed on exit). VERIF_SEED seeds every generator. Exit 0 held / 1 violation / 2 harness failure or too little observed.",
    }
    with open(os.path.join(HERE, "MANIFEST.json"), "w") as f:
        json.dump(m, f, indent=1)
        f.write("\n")
    print("claimed:", sorted(claimed))


if __name__ == "__main__":
    main()
