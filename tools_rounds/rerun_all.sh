#!/bin/sh
# re-run every stored seed against a snapshot of /verif; results in /var/tmp/rerun/<seed>.log
rm -rf /var/tmp/verif-snap; rsync -a --exclude .git /verif/ /var/tmp/verif-snap/
mkdir -p /var/tmp/rerun; rm -f /var/tmp/rerun/*.log
cd /var/tmp/verif-snap
ls seeded | xargs -P 5 -I{} sh -c 'VERIF_JOBS=4 python3 tools_seed.py run {} > /var/tmp/rerun/{}.log 2>&1'
echo done > /var/tmp/rerun/DONE
