#!/bin/sh
# usage: allquick.sh <seed>
cd /verif
for c in C01 C02 C03 C04 C05 C06 C07 C08 C09 C10 C11 C12 C13 C14 C15 C16 C17 C18 C19 C20; do
  ./vf check $c --seed ${1:-1} 2>&1 | grep -E "^(HELD|VIOLATION|INCONCLUSIVE|HARNESS|KNOWN|  key=)" | cut -c1-220
done
