#!/usr/bin/env python3
"""Replaces the detection table of DESIGN.md section 11 by the output of `tools_seed.py table`."""
import io
import os
import sys
import contextlib

HERE = os.path.dirname(os.path.abspath(__file__))
sys.path.insert(0, HERE)
import tools_seed  # noqa: E402


def main():
    buf = io.StringIO()
    with contextlib.redirect_stdout(buf):
        tools_seed.cmd_table()
    table = buf.getvalue().rstrip("\n").split("\n")
    p = os.path.join(HERE, "DESIGN.md")
    lines = open(p).read().split("\n")
    start = next(i for i, l in enumerate(lines) if l.startswith("| seed | property | change |"))
    end = start
    while end < len(lines) and lines[end].startswith("|"):
        end += 1
    lines[start:end] = table
    open(p, "w").write("\n".join(lines))
    print("table rows:", len(table) - 2)


if __name__ == "__main__":
    main()
