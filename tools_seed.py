#!/usr/bin/env python3
"""Validate a seeded property-breaking change and run checks against it.

  tools_seed.py import <src-dir> <name> [--checks C01,C02] [--tier quick]
        <src-dir> holds patch.diff, demo.sh (+ helper files), meta.json written by an independent
        sub-agent.  Confirms on a scratch copy of /repo (never /repo itself): the patch applies, the tree
        builds, the repository's test suite passes, the demo fails with the patch and passes without it.
        Then runs the named checks (default: the property the change targets) against the patched copy
        and stores everything as /verif/seeded/<name>/ (patch.diff, demo files, meta.json).
  tools_seed.py run <name> [--checks ...] [--tier quick|thorough]
        Re-runs checks against an already stored seed and updates meta.json "detection".
  tools_seed.py table
        Prints the detection table (markdown) from all stored seeds.
"""
import json
import os
import re
import shutil
import subprocess
import sys
import tempfile
import time

HERE = os.path.dirname(os.path.abspath(__file__))
SEEDED = os.path.join(HERE, "seeded")
REPO = "/repo"


def sh(cmd, cwd=None, env=None, timeout=1800):
    try:
        r = subprocess.run(cmd, shell=isinstance(cmd, str), cwd=cwd, env=env, capture_output=True, text=True,
                           timeout=timeout, errors="replace")
        return r.returncode, r.stdout + r.stderr
    except subprocess.TimeoutExpired as e:
        return 124, "TIMEOUT " + str(e)


def scratch_copy():
    d = tempfile.mkdtemp(prefix="vf-seed-", dir="/var/tmp")
    dst = os.path.join(d, "repo")
    sh(["rsync", "-a", "--exclude", ".git", "--exclude", "*.o", "--exclude", "/bin", "--exclude", "tests/test",
        "--exclude", "src/base64u.c", "--exclude", "src/base64u.h", REPO + "/", dst + "/"])
    return d, dst


def ensure_generated(tree):
    """Some demonstrations compile src/base64u.c, which the repository generates during its build."""
    sh("make -s -C src base64u.c base64u.h", cwd=tree)


def suite_ok(tree):
    rc, out = sh("make -s 2>&1 && make -s test 2>&1", cwd=tree)
    m = re.search(r"100%: Checks: (\d+), Failures: 0, Errors: 0", out)
    sh("make -s clean", cwd=tree)
    sh("rm -f src/base64u.c src/base64u.h", cwd=tree)
    return rc == 0 and m is not None, out[-600:]


def run_checks(tree, checks, tier, tmp):
    res = {}
    env = dict(os.environ)
    env.update({"VERIF_REPO": tree, "VERIF_EVIDENCE_DIR": os.path.join(tmp, "ev"), "VERIF_REPLAY_DIR": os.path.join(tmp, "rp")})
    for c in checks:
        t0 = time.time()
        rc, out = sh([os.path.join(HERE, "vf"), "check", c, "--tier", tier], cwd=HERE, env=env, timeout=1500 if tier == "quick" else 7200)
        lines = [l for l in out.split("\n") if l.startswith(("VIOLATION", "  key=", "HELD", "INCONCLUSIVE", "HARNESS-ERROR", "KNOWN-FINDING"))]
        res[c] = {"rc": rc, "tier": tier, "wall_s": round(time.time() - t0, 1), "verdict_lines": [l[:300] for l in lines[:6]]}
        print("   check %s (%s): rc=%d  %s" % (c, tier, rc, (lines[1] if len(lines) > 1 else (lines[0] if lines else ""))[:160]), flush=True)
    return res


def cmd_import(src, name, checks, tier):
    meta = {}
    mp = os.path.join(src, "meta.json")
    if os.path.exists(mp):
        try:
            meta = json.load(open(mp))
        except Exception:
            meta = {"raw_meta": open(mp, errors="replace").read()[:2000]}
    prop = meta.get("property") or name.split("-")[0]
    checks = checks or [prop]
    d, tree = scratch_copy()
    val = {}
    try:
        demo = os.path.join(src, "demo.sh")
        os.chmod(demo, 0o755)
        ensure_generated(tree)
        rc, out = sh([demo, tree], cwd=src, timeout=600)
        val["demo_clean_rc"] = rc
        val["demo_clean_tail"] = out[-300:]
        sh("make -s clean; rm -f src/base64u.c src/base64u.h", cwd=tree)
        rc, out = sh(["patch", "-s", "-p1", "-i", os.path.join(os.path.abspath(src), "patch.diff")], cwd=tree)
        val["patch_applies"] = rc == 0
        if rc != 0:
            val["patch_error"] = out[-400:]
        ok, tail = suite_ok(tree)
        val["suite_passes_with_patch"] = ok
        if not ok:
            val["suite_tail"] = tail
        ensure_generated(tree)
        rc, out = sh([demo, tree], cwd=src, timeout=600)
        val["demo_patched_rc"] = rc
        val["demo_patched_tail"] = out[-400:]
        sh("make -s clean; rm -f src/base64u.c src/base64u.h", cwd=tree)
        val["confirmed"] = bool(val["patch_applies"] and ok and val["demo_clean_rc"] == 0 and val["demo_patched_rc"] not in (0, 124))
        print("%s: applies=%s suite=%s demo clean rc=%s patched rc=%s => confirmed=%s" %
              (name, val["patch_applies"], ok, val["demo_clean_rc"], val["demo_patched_rc"], val["confirmed"]), flush=True)
        det = {}
        if val["confirmed"]:
            det = run_checks(tree, checks, tier, d)
        dst = os.path.join(SEEDED, name)
        if val["confirmed"]:
            shutil.rmtree(dst, ignore_errors=True)
            os.makedirs(dst)
            for fn in os.listdir(src):
                p = os.path.join(src, fn)
                if os.path.isfile(p) and os.path.getsize(p) < 300000 and fn != "meta.json":
                    shutil.copy2(p, os.path.join(dst, fn))
            out_meta = {
                "property": prop, "name": name,
                "breaks": meta.get("breaks") or meta.get("summary"), "needs_to_manifest": meta.get("needs_to_manifest"),
                "why_tests_pass": meta.get("why_tests_pass"), "files": meta.get("files"),
                "author": "independent sub-agent given only the property text and a scratch worktree",
                "validation": val,
                "what_was_run": ["rsync /repo -> scratch copy; demo.sh <scratch> (expect 0)", "patch -p1 < patch.diff; make && make test (expect all pass)",
                                 "demo.sh <patched scratch> (expect non-zero)", "VERIF_REPO=<patched scratch> ./vf check <ids> --tier " + tier],
                "detection": det,
            }
            with open(os.path.join(dst, "meta.json"), "w") as f:
                json.dump(out_meta, f, indent=1)
                f.write("\n")
        return 0 if val["confirmed"] else 1
    finally:
        shutil.rmtree(d, ignore_errors=True)


def cmd_run(name, checks, tier):
    dst = os.path.join(SEEDED, name)
    meta = json.load(open(os.path.join(dst, "meta.json")))
    checks = checks or meta.get("checks_to_run") or [meta["property"]]
    d, tree = scratch_copy()
    try:
        rc, out = sh(["patch", "-s", "-p1", "-i", os.path.join(dst, "patch.diff")], cwd=tree)
        if rc != 0:
            print("patch no longer applies:", out[-300:])
            return 2
        det = run_checks(tree, checks, tier, d)
        meta.setdefault("detection", {}).update(det)
        with open(os.path.join(dst, "meta.json"), "w") as f:
            json.dump(meta, f, indent=1)
            f.write("\n")
        return 0
    finally:
        shutil.rmtree(d, ignore_errors=True)


def cmd_table():
    rows = []
    for name in sorted(os.listdir(SEEDED)):
        mp = os.path.join(SEEDED, name, "meta.json")
        if not os.path.exists(mp):
            continue
        m = json.load(open(mp))
        det = m.get("detection", {})
        caught = [c for c, r in det.items() if r["rc"] == 1]
        missed = [c for c, r in det.items() if r["rc"] != 1]
        what = (m.get("breaks") or "")[:110].replace("|", "/").replace("\n", " ")
        rows.append("| %s | %s | %s | %s | %s | %s |" % (name, m["property"], what, ", ".join("%s (%s)" % (c, det[c]["tier"]) for c in caught) or "-",
                                                        ", ".join(missed) or "-", (m.get("first_run") or "")[:160]))
    print("| seed | property | change | caught by (now) | run but silent (now) | first run |")
    print("|---|---|---|---|---|---|")
    print("\n".join(rows))


def main(a):
    if len(a) < 2:
        print(__doc__)
        return 2
    checks, tier = None, "quick"
    rest = []
    i = 1
    while i < len(a):
        if a[i] == "--checks":
            checks = a[i + 1].split(",")
            i += 2
        elif a[i] == "--tier":
            tier = a[i + 1]
            i += 2
        else:
            rest.append(a[i])
            i += 1
    if rest[0] == "import":
        return cmd_import(rest[1], rest[2], checks, tier)
    if rest[0] == "run":
        return cmd_run(rest[1], checks, tier)
    if rest[0] == "table":
        return cmd_table()
    print(__doc__)
    return 2


if __name__ == "__main__":
    sys.exit(main(sys.argv))
