"""Core of the verification framework: scratch builds of /repo with sanitizers,
verdict bookkeeping, known-findings matching, evidence and replay files.

Python stdlib only.
"""
import atexit
import glob
import hashlib
import json
import os
import shutil
import signal
import subprocess
import sys
import tempfile
import time
from concurrent.futures import ThreadPoolExecutor

VERIF = os.path.dirname(os.path.dirname(os.path.abspath(__file__)))
REPO = os.environ.get("VERIF_REPO", "/repo")
SCRATCH_ROOT = os.environ.get("VERIF_SCRATCH", "/var/tmp")
# the mutation self-test points these somewhere else so that it never touches committed evidence
EVIDENCE_DIR = os.environ.get("VERIF_EVIDENCE_DIR", os.path.join(VERIF, "evidence"))
REPLAY_DIR = os.environ.get("VERIF_REPLAY_DIR", os.path.join(VERIF, "replays"))
GUARD = "IODINE_VERIF"

# shift-base is excluded: GCC documents signed "<<" into/over the sign bit as defined behaviour
# ("GCC does not use the latitude given in C99 and C11 only to treat certain aspects of signed
# '<<' as undefined"); iodine does this at every start-up (tun.c netmask computation).  Shift
# *exponents* out of range, signed overflow, bounds, alignment, null ... stay fatal.
SAN_FLAGS = ["-fsanitize=address,undefined", "-fno-sanitize=shift-base", "-fno-sanitize-recover=all"]
BASE_CFLAGS = ["-O1", "-g", "-fno-omit-frame-pointer", "-DLINUX", "-D_GNU_SOURCE",
               "-D" + GUARD, '-DGITREVISION="verif"', "-w"]
COMMON_OBJS = ["tun", "dns", "read", "encoding", "login", "base32", "base64", "base64u",
               "base128", "md5", "common"]
CLIENT_OBJS = ["iodine", "client", "util"]
SERVER_OBJS = ["iodined", "user", "fw_query"]

# libc entry points redirected to the simulated OS (simnet/shim.c)
WRAPS = ["time", "select", "sleep", "socket", "bind", "setsockopt", "sendto", "recvfrom",
         "recv", "recvmsg", "open", "ioctl", "read", "write", "close", "system", "syslog",
         "openlog", "geteuid", "getaddrinfo", "daemon", "chroot", "connect", "access"]


def asan_env(logdir=None, extra=None):
    env = dict(os.environ)
    opts = "abort_on_error=0:exitcode=86:detect_leaks=0:detect_stack_use_after_return=0:allow_user_poisoning=1:handle_abort=1:quarantine_size_mb=16"
    if logdir:
        opts += ":log_path=%s/asan" % logdir
    env["ASAN_OPTIONS"] = opts
    ub = "print_stacktrace=1:halt_on_error=1:exitcode=87"
    if logdir:
        ub += ":log_path=%s/ubsan" % logdir
    env["UBSAN_OPTIONS"] = ub
    if extra:
        env.update(extra)
    return env


class HarnessError(Exception):
    pass


_live_scratch = []


def _cleanup_all():
    for d in list(_live_scratch):
        shutil.rmtree(d, ignore_errors=True)


atexit.register(_cleanup_all)


def _sig_cleanup(signum, frame):
    _cleanup_all()
    os._exit(2)


def sweep_stale(max_age_s=6 * 3600):
    """Remove scratch dirs left behind by killed runs."""
    now = time.time()
    for d in glob.glob(os.path.join(SCRATCH_ROOT, "vf-*")):
        try:
            if now - os.path.getmtime(d) > max_age_s:
                shutil.rmtree(d, ignore_errors=True)
        except OSError:
            pass


class Build:
    """A scratch copy of <repo>/src compiled with ASan+UBSan (guard define on)."""

    # documented compile-time knobs of the tree ("Undefine to disable" in src/user.h): a build variant switches one off
    VARIANTS = {"nodnscache": ("user.h", "#define DNSCACHE_LEN"), "nooutq": ("user.h", "#define OUTPACKETQ_LEN")}

    def __init__(self, repo=None, jobs=16, sanitize=True, keep=False, variant=None):
        self.repo = repo or REPO
        self.variant = variant
        self.variant_applied = variant is None
        self.jobs = jobs
        self.sanitize = sanitize
        self.dir = tempfile.mkdtemp(prefix="vf-", dir=SCRATCH_ROOT)
        if not keep:
            _live_scratch.append(self.dir)
        self.src = os.path.join(self.dir, "src")
        self.bin = os.path.join(self.dir, "bin")
        self.run = os.path.join(self.dir, "run")
        os.makedirs(self.src)
        os.makedirs(self.bin)
        os.makedirs(self.run)
        self._copy_sources()
        if variant is not None:
            fn, needle = self.VARIANTS[variant]
            path = os.path.join(self.src, fn)
            text = open(path).read()
            if needle in text:
                open(path, "w").write(text.replace(needle, "/* verif build variant: undefined */ //" + needle, 1))
                self.variant_applied = True
        self._objs_done = False

    def close(self):
        shutil.rmtree(self.dir, ignore_errors=True)
        if self.dir in _live_scratch:
            _live_scratch.remove(self.dir)

    def __enter__(self):
        return self

    def __exit__(self, *a):
        self.close()

    def cflags(self, std="c99"):
        f = ["-std=" + std] + BASE_CFLAGS
        if self.sanitize:
            f += SAN_FLAGS
        return f

    def _copy_sources(self):
        rs = os.path.join(self.repo, "src")
        for fn in os.listdir(rs):
            if fn.endswith((".c", ".h")) or fn in ("Makefile", "osflags"):
                if fn == "base64u.c":
                    continue  # always regenerated by the tree's own Makefile rule
                shutil.copy2(os.path.join(rs, fn), os.path.join(self.src, fn))
        r = subprocess.run(["make", "-s", "-C", self.src, "base64u.c"], capture_output=True, text=True)
        if r.returncode != 0 or not os.path.exists(os.path.join(self.src, "base64u.c")):
            raise HarnessError("make base64u.c failed: " + r.stdout + r.stderr)

    def _cc(self, args):
        r = subprocess.run(["gcc"] + args, capture_output=True, text=True)
        if r.returncode != 0:
            raise HarnessError("gcc failed: gcc %s\n%s" % (" ".join(args), r.stderr[-4000:]))

    def objects(self):
        """Compile every repo .c to an object (parallel)."""
        if self._objs_done:
            return
        names = COMMON_OBJS + CLIENT_OBJS + SERVER_OBJS
        jobs = []
        for n in names:
            jobs.append(self.cflags() + ["-c", os.path.join(self.src, n + ".c"), "-o",
                                         os.path.join(self.src, n + ".o")])
        with ThreadPoolExecutor(self.jobs) as ex:
            list(ex.map(self._cc, jobs))
        self._objs_done = True

    def obj(self, *names):
        self.objects()
        return [os.path.join(self.src, n + ".o") for n in names]

    def compile(self, src, out=None, defines=(), std="gnu11", extra=()):
        out = out or os.path.join(self.bin, os.path.basename(src)[:-2] + ".o")
        self._cc(self.cflags(std) + ["-I", self.src, "-I", os.path.join(VERIF, "unit"),
                                     "-I", os.path.join(VERIF, "simnet")] +
                 ["-D" + d for d in defines] + list(extra) + ["-c", src, "-o", out])
        return out

    def link(self, out, objs, wraps=(), libs=("-lz",)):
        out = os.path.join(self.bin, out)
        args = (SAN_FLAGS if self.sanitize else []) + ["-g", "-o", out] + list(objs)
        if wraps:
            args.append("-Wl," + ",".join("--wrap=" + w for w in wraps))
        args += list(libs)
        self._cc(args)
        return out

    def unit(self, name, sources, objs=(), wraps=(), defines=(), libs=("-lz",)):
        """Build a unit driver from /verif/unit/<sources> + repo objects."""
        compiled = []
        for s in sources:
            p = s if os.path.isabs(s) else os.path.join(VERIF, "unit", s)
            compiled.append(self.compile(p, out=os.path.join(self.bin, name + "_" + os.path.basename(p)[:-2] + ".o"),
                                         defines=defines))
        return self.link(name, compiled + self.obj(*objs), wraps=wraps, libs=libs)

    def sim_binaries(self):
        """iodined.sim and iodine.sim: the real programs on the simulated OS."""
        self.objects()
        shim = os.path.join(VERIF, "simnet", "shim.c")
        s_srv = self.compile(shim, out=os.path.join(self.bin, "shim_srv.o"), defines=["SHIM_SERVER"])
        s_cli = self.compile(shim, out=os.path.join(self.bin, "shim_cli.o"), defines=["SHIM_CLIENT"])
        srv = self.link("iodined.sim", self.obj(*(COMMON_OBJS + SERVER_OBJS)) + [s_srv], wraps=WRAPS)
        cli = self.link("iodine.sim", self.obj(*(COMMON_OBJS + CLIENT_OBJS)) + [s_cli], wraps=WRAPS)
        return srv, cli


# ---------------------------------------------------------------------------
# verdicts, known findings, evidence

class Violation:
    def __init__(self, key, what, witness):
        self.key = key          # stable fingerprint class, e.g. "C13:system-arg:addr-trailing-text"
        self.what = what        # one line
        self.witness = witness  # json-able


def load_known():
    p = os.path.join(VERIF, "known_findings.json")
    if not os.path.exists(p):
        return []
    with open(p) as f:
        return json.load(f).get("findings", [])


def write_replay(prop, v):
    d = REPLAY_DIR
    os.makedirs(d, exist_ok=True)
    blob = json.dumps({"property": prop, "key": v.key, "what": v.what, "witness": v.witness},
                      indent=1, sort_keys=True, default=_jd)
    fp = hashlib.sha1((v.key + blob).encode()).hexdigest()[:10]
    path = os.path.join(d, "%s-%s.json" % (prop, fp))
    with open(path, "w") as f:
        f.write(blob)
    return path


def _jd(o):
    if isinstance(o, (bytes, bytearray)):
        return o.hex()
    if isinstance(o, set):
        return sorted(o)
    return repr(o)


class Result:
    """Filled in by a check's run()."""

    def __init__(self):
        self.evaluations = 0
        self.nontrivial = set()     # distinct non-trivial case signatures
        self.rule = ""
        self.samples = []
        self.extra = {}             # extra coverage keys
        self.violations = []        # list[Violation]
        self.inconclusive = 0
        self.inconclusive_why = {}
        self.assumptions = []
        self.min_evaluations = 1
        self.min_nontrivial = 2
        self.exhaustive = None
        self.harness_errors = []

    def nt(self, sig):
        self.nontrivial.add(sig)

    def sample(self, s, limit=6):
        if len(self.samples) < limit:
            self.samples.append(s)

    def violate(self, key, what, witness):
        # keep at most a handful of witnesses per key
        n = sum(1 for v in self.violations if v.key == key)
        if n < 3:
            self.violations.append(Violation(key, what, witness))

    def inconc(self, why):
        self.inconclusive += 1
        self.inconclusive_why[why] = self.inconclusive_why.get(why, 0) + 1


def finish(prop, tier, seed, res, t0):
    """Route violations through known findings, write evidence, print verdict lines, return exit code."""
    known = [k for k in load_known() if k.get("property") == prop and k.get("status") == "known"]
    new, kn = [], {}
    for v in res.violations:
        m = [k for k in known if k.get("fingerprint") == v.key]
        if m:
            kn.setdefault(v.key, (m[0], v))
        else:
            new.append(v)
    for key, (k, v) in sorted(kn.items()):
        print("KNOWN-FINDING: property=%s %s [%s]" % (prop, k.get("what", v.what), key))
    replay_paths = []
    seen = set()
    for v in new:
        if v.key in seen:
            continue
        seen.add(v.key)
        p = write_replay(prop, v)
        replay_paths.append(p)
        print("VIOLATION property=%s replay=%s" % (prop, p))
        print("  key=%s: %s" % (v.key, v.what))
    cov = {
        "evaluations": int(res.evaluations),
        "distinct_nontrivial": len(res.nontrivial),
        "rule": res.rule,
        "samples": res.samples[:8] or ["(none)"],
        "inconclusive": res.inconclusive,
        "inconclusive_reasons": res.inconclusive_why,
        "known_findings_hit": sorted(kn.keys()),
    }
    if res.exhaustive is not None:
        cov["exhaustive"] = bool(res.exhaustive)
    cov.update(res.extra)
    ev = {
        "property_id": prop, "tier": tier, "seed": int(seed), "level": "exploration",
        "coverage": cov, "assumptions": res.assumptions,
        "wall_s": round(time.time() - t0, 2), "violations": len(seen),
    }
    os.makedirs(EVIDENCE_DIR, exist_ok=True)
    with open(os.path.join(EVIDENCE_DIR, prop + ".json"), "w") as f:
        json.dump(ev, f, indent=1, sort_keys=True, default=_jd)
        f.write("\n")
    if new:
        return 1
    if res.harness_errors:
        print("HARNESS-ERROR property=%s %s" % (prop, res.harness_errors[0]))
        return 2
    if res.evaluations < res.min_evaluations or len(res.nontrivial) < res.min_nontrivial:
        print("INCONCLUSIVE property=%s observed too little: evaluations=%d (min %d) distinct_nontrivial=%d (min %d) inconclusive=%d %s"
              % (prop, res.evaluations, res.min_evaluations, len(res.nontrivial), res.min_nontrivial,
                 res.inconclusive, res.inconclusive_why))
        return 2
    nsc = getattr(res, "scenarios", 0)
    if nsc >= 10 and res.inconclusive * 5 > nsc:
        # three-valued verdict: when more than a fifth of the scenarios could not be judged (a program died, the setup
        # failed, a watchdog fired) the rest does not carry a "held"
        print("INCONCLUSIVE property=%s %d of %d scenarios could not be judged: %s" % (prop, res.inconclusive, nsc, res.inconclusive_why))
        return 2
    print("HELD property=%s tier=%s seed=%d evaluations=%d distinct_nontrivial=%d inconclusive=%d wall=%.1fs"
          % (prop, tier, seed, res.evaluations, len(res.nontrivial), res.inconclusive, time.time() - t0))
    return 0


def run_proc(args, env=None, input=None, timeout=600, cwd=None):
    """Run a unit driver; returns (rc, stdout bytes, stderr text). Timeout => rc None."""
    try:
        r = subprocess.run(args, env=env, input=input, capture_output=True, timeout=timeout, cwd=cwd)
        return r.returncode, r.stdout, r.stderr.decode("utf-8", "replace")
    except subprocess.TimeoutExpired as e:
        return None, e.stdout or b"", (e.stderr or b"").decode("utf-8", "replace")


def sanitizer_key(stderr_text, logdir=None):
    """Fingerprint of a sanitizer report: kind + top repo frame function + file."""
    import re
    text = stderr_text or ""
    if logdir:
        for p in sorted(glob.glob(os.path.join(logdir, "asan*")) + glob.glob(os.path.join(logdir, "ubsan*"))):
            try:
                text += "\n" + open(p, errors="replace").read()
            except OSError:
                pass
    kind = None
    m = re.search(r"ERROR: AddressSanitizer: ([\w-]+)", text)
    if m:
        kind = "asan:" + m.group(1)
    else:
        m = re.search(r"([\w./-]+\.[ch]):(\d+):(\d+): runtime error: ([^\n]+)", text)
        if m:
            msg = m.group(4)
            msg = re.sub(r"-?\d+", "N", msg)
            msg = re.sub(r"0x[0-9a-f]+", "P", msg)
            kind = "ubsan:" + msg[:60].strip().replace(" ", "_")
    if not kind:
        # valgrind memcheck (the memcheck pass of C05/C06 runs non-sanitized binaries under it)
        m = re.search(r"==\d+== (Conditional jump or move depends on uninitialised value|Use of uninitialised value|Syscall param [^\n]*uninitialised|Invalid read of size \d+|Invalid write of size \d+|Source and destination overlap|Invalid free|Mismatched free|Jump to the invalid address|Process terminating with default action of signal \d+)", text)
        if not m:
            return None, text
        kind = "memcheck:" + re.sub(r"\s+", "_", re.sub(r"\d+", "N", m.group(1)))[:50]
        frame = "?"
        for fm in re.finditer(r"==\d+==\s+(?:at|by) 0x[0-9A-F]+: (\w+) \(([\w.-]+\.c):\d+\)", text[m.start():]):
            if not fm.group(2).startswith("shim"):
                frame = "%s@%s" % (fm.group(1), fm.group(2))
                break
        return "%s:%s" % (kind, frame), text
    frame = "?"
    for fm in re.finditer(r"#\d+ 0x[0-9a-f]+ in (\w+) ([^\s:]+):(\d+)", text):
        fn, path = fm.group(1), fm.group(2)
        base = os.path.basename(path)
        if ("/vf-" in path and "/src/" in path) and not base.startswith("shim"):
            frame = "%s@%s" % (fn, base)
            break
    if frame == "?":
        m = re.search(r"([\w./-]+\.[ch]):(\d+):(\d+): runtime error", text)
        if m:
            frame = "@" + os.path.basename(m.group(1))
    return "%s:%s" % (kind, frame), text
