"""Engine A helpers: build the simulated binaries once per check and run scenarios in parallel
worker processes.  A scenario function is a top-level function f(params) -> dict with keys:
  violations: [(key, what, witness)], nontrivial: [sig...], sample: obj|None, stats: {k: int},
  inconclusive: str|None, evaluations: int
"""
import multiprocessing as mp
import os
import shutil
import traceback

from . import core

_G = {}


def _init(srv, cli, rundir):
    _G["srv"] = srv
    _G["cli"] = cli
    _G["rundir"] = rundir


def binaries():
    return _G["srv"], _G["cli"]


def workdir(tag):
    d = os.path.join(_G["rundir"], "s-%s-%d" % (tag, os.getpid()))
    shutil.rmtree(d, ignore_errors=True)
    os.makedirs(d)
    return d


def _call(args):
    fn, params = args
    try:
        r = fn(params)
    except Exception:
        r = {"harness_error": traceback.format_exc()[-2000:]}
    return params, r


def run_scenarios(res, build, fn, params_list, jobs=16, chunksize=1):
    """Runs fn over params_list in a process pool and folds results into res."""
    srv, cli = build.sim_binaries()
    ctx = mp.get_context("fork")
    out = []
    with ctx.Pool(jobs, initializer=_init, initargs=(srv, cli, build.run)) as pool:
        for params, r in pool.imap_unordered(_call, [(fn, p) for p in params_list], chunksize):
            out.append((params, r))
            fold(res, params, r)
    return out


def fold(res, params, r):
    if "harness_error" in r:
        res.harness_errors.append(r["harness_error"])
        return
    res.evaluations += r.get("evaluations", 1)
    for sig in r.get("nontrivial", ()):
        res.nt(sig if isinstance(sig, str) else repr(sig))
    if r.get("sample") is not None:
        res.sample(r["sample"])
    for k, v in r.get("stats", {}).items():
        if isinstance(v, (int, float)):
            res.extra[k] = res.extra.get(k, 0) + v
    if r.get("inconclusive"):
        res.inconc(r["inconclusive"])
    for (key, what, wit) in r.get("violations", ()):
        w = {"params": params}
        w.update(wit if isinstance(wit, dict) else {"detail": wit})
        res.violate(key, what, w)
    for s in r.get("sets", {}).items():
        name, vals = s
        cur = res.extra.setdefault("_set_" + name, set())
        cur.update(vals)


def finalize_sets(res):
    for k in list(res.extra):
        if k.startswith("_set_"):
            vals = res.extra.pop(k)
            res.extra["distinct_" + k[5:]] = len(vals)
