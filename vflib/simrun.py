"""Engine A helpers: build the simulated binaries once per check and run scenarios in parallel
worker processes.  A scenario function is a top-level function f(params) -> dict with keys:
  violations: [(key, what, witness)], nontrivial: [sig...], sample: obj|None, stats: {k: int},
  inconclusive: str|None, evaluations: int
"""
import os
import shutil
import traceback

from . import core

_G = {}


def _init(srv, cli, rundir, memcheck_=False):
    _G["srv"] = srv
    _G["cli"] = cli
    _G["rundir"] = rundir
    _G["memcheck"] = bool(memcheck_)


def memcheck():
    return bool(_G.get("memcheck"))


def binaries():
    return _G["srv"], _G["cli"]


def workdir(tag):
    d = os.path.join(_G["rundir"], "s-%s-%d" % (tag, os.getpid()))
    shutil.rmtree(d, ignore_errors=True)
    os.makedirs(d)
    return d


def _call(args):
    fn, params = args
    try:
        r = fn(params)
    except Exception:
        r = {"harness_error": traceback.format_exc()[-2000:]}
    return params, r


def run_scenarios(res, build, fn, params_list, jobs=16, chunksize=None, chunk_timeout=1500, memcheck_=False):
    """Runs fn over params_list in forked worker processes (one per chunk, at most `jobs` at a time)
    and folds the results into res.  Plain fork + result files: no shared locks, a dying or hanging
    worker costs only its chunk (reported, never silently dropped)."""
    import pickle
    import signal
    import time
    srv, cli = build.sim_binaries()
    _init(srv, cli, build.run, memcheck_)
    n = len(params_list)
    if chunksize is None:
        chunksize = max(1, min(8, n // (jobs * 3) or 1))
    chunks = [params_list[i:i + chunksize] for i in range(0, n, chunksize)]
    outdir = os.path.join(build.run, "results")
    os.makedirs(outdir, exist_ok=True)
    pending = list(enumerate(chunks))
    running = {}     # pid -> (index, start time)
    out = []

    def collect(idx, status, timed_out=False):
        path = os.path.join(outdir, "%d.pkl" % idx)
        got = None
        if os.path.exists(path):
            try:
                with open(path, "rb") as f:
                    got = pickle.load(f)
            except Exception:
                got = None
        if got is None:
            why = "worker-timeout" if timed_out else "worker-died(status=%s)" % status
            for p in chunks[idx]:
                if timed_out:
                    res.inconc(why)
                else:
                    res.harness_errors.append("%s on params %r" % (why, p)[:500])
            return
        for params, r in got:
            out.append((params, r))
            fold(res, params, r)

    while pending or running:
        while pending and len(running) < jobs:
            idx, chunk = pending.pop(0)
            pid = os.fork()
            if pid == 0:
                code = 0
                try:
                    signal.signal(signal.SIGTERM, signal.SIG_DFL)
                    results = [_call((fn, p)) for p in chunk]
                    tmp = os.path.join(outdir, "%d.tmp" % idx)
                    with open(tmp, "wb") as f:
                        pickle.dump(results, f)
                    os.rename(tmp, os.path.join(outdir, "%d.pkl" % idx))
                except BaseException:
                    code = 3
                finally:
                    os._exit(code)
            running[pid] = (idx, time.time())
        # (only this function's own workers are waited for: a child some other thread of the check started - a long unit-driver
        # run beside the scenarios - must keep its exit status for whoever started it)
        pid, status = 0, 0
        for p_ in list(running):
            try:
                rp, st_ = os.waitpid(p_, os.WNOHANG)
            except ChildProcessError:
                rp, st_ = p_, "lost"
            if rp:
                pid, status = rp, st_
                break
        if pid and pid in running:
            idx, _t = running.pop(pid)
            collect(idx, status)
            continue
        now = time.time()
        for p_, (idx, t0) in list(running.items()):
            if now - t0 > chunk_timeout:
                try:
                    os.kill(p_, signal.SIGKILL)
                    os.waitpid(p_, 0)
                except OSError:
                    pass
                running.pop(p_)
                collect(idx, "killed", timed_out=True)
        if not pid:
            time.sleep(0.01)
    return out


def fold(res, params, r):
    if "harness_error" in r:
        res.harness_errors.append(r["harness_error"])
        return
    res.evaluations += r.get("evaluations", 1)
    res.scenarios = getattr(res, "scenarios", 0) + 1
    for sig in r.get("nontrivial", ()):
        res.nt(sig if isinstance(sig, str) else repr(sig))
    if r.get("sample") is not None:
        res.sample(r["sample"])
    for k, v in r.get("stats", {}).items():
        if isinstance(v, (int, float)):
            res.extra[k] = res.extra.get(k, 0) + v
    if r.get("inconclusive"):
        res.inconc(r["inconclusive"])
    for (key, what, wit) in r.get("violations", ()):
        w = {"params": params}
        w.update(wit if isinstance(wit, dict) else {"detail": wit})
        res.violate(key, what, w)
    for s in r.get("sets", {}).items():
        name, vals = s
        cur = res.extra.setdefault("_set_" + name, set())
        cur.update(vals)


def finalize_sets(res):
    for k in list(res.extra):
        if k.startswith("_set_"):
            vals = res.extra.pop(k)
            res.extra["distinct_" + k[5:]] = len(vals)
