"""Run Engine B unit drivers (sharded over cores) and fold their line protocol into a Result."""
import os
from concurrent.futures import ThreadPoolExecutor

from . import core


def parse_into(res, out_bytes, nt_prefix=""):
    for raw in out_bytes.split(b"\n"):
        if len(raw) < 2 or raw[1:2] != b" ":
            continue
        tag = raw[:1]
        body = raw[2:].decode("utf-8", "replace")
        if tag == b"E":
            try:
                res.evaluations += int(body)
            except ValueError:
                pass
        elif tag == b"N":
            res.nt(nt_prefix + body)
        elif tag == b"S":
            res.sample(body, limit=8)
        elif tag == b"X":
            k, _, v = body.partition(" ")
            try:
                res.extra[k] = res.extra.get(k, 0) + int(v)
            except ValueError:
                res.extra[k] = v
        elif tag == b"V":
            parts = body.split("\t")
            key = parts[0]
            what = parts[1] if len(parts) > 1 else ""
            wit = parts[2] if len(parts) > 2 else ""
            res.violate(key, what, {"driver_output": wit})


def run_sharded(res, prop, binary, shards, args_for, env=None, timeout=900, san_is_violation=True,
                input_for=None, jobs=16, san_prefix=None):
    """Run `binary` once per shard. A sanitizer abort is a violation of `prop` (if san_is_violation),
    a timeout is inconclusive, any other failure a harness error."""
    logroot = os.path.dirname(os.path.dirname(binary))

    def one(i):
        logdir = os.path.join(logroot, "run", "%s-%d" % (os.path.basename(binary), i))
        os.makedirs(logdir, exist_ok=True)
        e = core.asan_env(logdir, env)
        inp = input_for(i) if input_for else None
        rc, out, err = core.run_proc([binary] + [str(a) for a in args_for(i)], env=e, input=inp, timeout=timeout)
        return i, rc, out, err, logdir

    with ThreadPoolExecutor(jobs) as ex:
        results = list(ex.map(one, range(shards)))
    for i, rc, out, err, logdir in results:
        parse_into(res, out)
        if rc == 0:
            continue
        if rc is None:
            res.inconc("driver-timeout")
            continue
        key, text = core.sanitizer_key(err, logdir)
        if key:
            if san_is_violation:
                tail = out[-600:].decode("utf-8", "replace")
                res.violate("%s:%s" % (san_prefix or prop, key), "sanitizer report in %s shard %d" % (os.path.basename(binary), i),
                            {"args": [str(a) for a in args_for(i)], "report": text[-3000:], "last_output": tail})
            else:
                res.inconc("sanitizer-abort")
                res.extra["sanitizer_aborts"] = res.extra.get("sanitizer_aborts", 0) + 1
        else:
            res.harness_errors.append("driver %s shard %d rc=%s stderr=%s" % (os.path.basename(binary), i, rc, err[-800:]))
    return results
