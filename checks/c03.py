"""C03 - no privileged effect without answering the current password challenge (Engine A).

Online shadow-authentication monitor (simnet/authmon.py mon_c03) over adversarial multi-session
histories (simnet/advhist.py) against the real iodined under ASan/UBSan."""
import random

from vflib import core, simrun
from simnet import advhist, authmon


def scn(params):
    seed = params["seed"]
    cfg = params["cfg"]
    out = {"violations": [], "nontrivial": [], "stats": {}, "evaluations": 0, "sets": {}}
    H = advhist.run_history("c03-%d" % params["idx"], cfg, seed)
    try:
        if not H.ok:
            out["inconclusive"] = H.why
            return out
        k = H.k
        h = H.sim.health(H.srv)
        if h != "running":
            out["stats"]["server_died"] = 1
            out["sets"]["deaths"] = {h}
            out["inconclusive"] = "server-" + h.split(":")[0]     # C05 judges crashes
        v, st, kinds = authmon.mon_c03(k, H.domain, H.password, H.up_frames, check_ip=not cfg["check_ip_off"])
        out["stats"].update(st)
        out["evaluations"] = sum(1 for ev in k.log if ev[1] == "recv" and ev[2] == "srv")
        for (key, what, wit) in v[:3]:
            out["violations"].append((key, what, dict(wit, seed=seed)))
        out["sets"]["effect_kinds"] = {repr(x) for x in kinds}
        att = {repr(a) for a in H.attacks}
        out["sets"]["attack_kinds"] = att
        out["sets"]["build_variants"] = {str(params.get("variant"))}
        refused = st["c03_priv_refused"] + st["c03_unauth_effect_attempts"]
        if st["c03_logins_ok"] >= 1 and refused >= 5 and len(H.attacks) >= 3:
            for a in H.attacks:
                out["nontrivial"].append(repr(a + (bool(cfg["check_ip_off"]),)))
        if params["idx"] < 3:
            out["sample"] = {"tun": cfg["tun"], "check_ip_off": cfg["check_ip_off"], "ops": H.ops,
                             "parties": [(p.name, p.stage, p.slot) for p in H.parties][:12],
                             "attacks": sorted(att)[:12], "monitor": dict(st)}
        return out
    finally:
        H.sim.close()


def scn_restart(params):
    """The server is restarted (same options, a later moment): the challenges it hands out in the new run are not the ones it
    handed out before, so a login recorded in the earlier run (the datagram travels through third-party resolvers) is worth
    nothing afterwards."""
    from simnet import mclient, proto, scen
    from simnet.scen import US
    seed = params["seed"]
    rng = random.Random(params["rseed"])
    out = {"violations": [], "nontrivial": [], "stats": {"restart_runs": 1}, "evaluations": 0, "sets": {}}
    sim = scen.Sim("c03r-%d" % params["idx"], seed)
    try:
        k = sim.k
        runs = []
        recorded = None
        for r in range(2):
            srv = sim.server(name="srv%d" % r)
            if not srv.alive():
                out["inconclusive"] = "server-died-at-start"
                return out
            chs = []
            for j in range(params["nsess"]):
                mc = mclient.ModelClient("10.53.%d.%d" % (8 + r, j + 1), (scen.SERVER_IP, 53), sim.domain, sim.password, random.Random(rng.getrandbits(32)),
                                         qtype=rng.choice(list(proto.QTYPES.values())))
                k.add_actor(mc.ip, mc)
                p = mc.version()
                if not p or p[:4] != b"VACK":
                    break
                chs.append((mc.userid, mc.challenge))
                out["evaluations"] += 1
                if r == 0 and j == 0:
                    mc.login()
                    recorded = (mc.userid, mc.dgrams[-1], mc.ip, mc.sport)
                elif r == 1 and j == 0 and recorded is not None:
                    # the recorded login datagram of the first run, byte for byte, from the address it came from then
                    n0 = sum(1 for ev in k.log if ev[1] == "send" and ev[2] == "srv1")
                    k.transmit((recorded[2], recorded[3]), (scen.SERVER_IP, 53), recorded[1])
                    k.run(k.now + 50000)
                    rows = srv.snapshot
                    if recorded[0] < len(rows) and rows[recorded[0]]["authenticated"]:
                        out["violations"].append(("C03:login-recorded-before-a-restart-accepted", "a login datagram recorded in the server's previous run was accepted after the restart (slot %d is authenticated)" % recorded[0],
                                                  {"seed": seed, "challenges_first_run": runs[0][:3] if runs else None, "challenges_second_run": chs[:3]}))
            runs.append(chs)
            if r == 0:
                k.run(k.now + rng.choice([1, 2, 5, 90, 4000]) * US + rng.randrange(1000000))
                k.kill("srv0")
                k.run(k.now + rng.choice([1, 3, 30]) * US)
        if len(runs) == 2 and runs[0] and runs[1]:
            out["stats"]["restart_challenge_sequences_compared"] = 1
            if [c for _u, c in runs[0]] == [c for _u, c in runs[1]] and len(runs[0]) >= 2 and not out["violations"]:
                out["violations"].append(("C03:challenges-repeat-after-restart", "the %d challenges handed out after the restart are exactly those of the previous run (%s)"
                                          % (len(runs[1]), ", ".join("0x%08x" % c for _u, c in runs[1][:3])), {"seed": seed}))
            out["nontrivial"].append("restart nsess=%d" % params["nsess"])
        return out
    finally:
        sim.close()


def run(ctx):
    res = core.Result()
    res.rule = ("history = 35-90 seeded operations against the real iodined by model-client parties: sessions at every "
                "stage (version only, failed login, logged in, raw mode), and every privileged command (I,S,O,N,R,P,data, raw "
                "login/data/ping) naming slots in every state (version-only, logged-in, expired, lost to a newcomer, never "
                "used, out of range) from the owner's and from foreign addresses (IPv4/IPv6), login responses for "
                "earlier/other/off-by-one challenges, flipped bits, wrong password, truncated, time advances across "
                "60 s, slot reuse; -c on/off, random passwords, subnets /8../30; one third of the histories against builds with "
                "DNSCACHE_LEN or OUTPACKETQ_LEN undefined (the knobs src/user.h documents). Oracle: shadow model from hashlib MD5 - "
                "login accept, I/S/O/N acknowledgements, raw login reply, server tun writes and client-to-client forwards "
                "(identified by unique packet ids), settings changes between consecutive users[] snapshots, and the "
                "table's authenticated flags all require a correct response to the slot's current challenge. "
                "evaluations = datagrams the server received; non-trivial history = >=1 accepted login, >=5 refused "
                "privileged attempts, >=3 attack kinds; distinct over (command, target slot state, source, -c).")
    res.assumptions = ["the oracle only demands that a login happened before an effect; it never predicts the server's replies",
                       "fragment-size probe (R) and ping/data acknowledgements are not counted as privileged effects"]
    n = ctx.pick(480, 40000)
    rng = random.Random(ctx.seed * 9029 + 3)
    plist = [{"idx": i, "seed": ctx.seed * 100000 + i, "cfg": advhist.gen_cfg(rng, i + ctx.seed)} for i in range(n)]
    if ctx.replay:
        plist = [ctx.replay["witness"]["params"]]
    res.min_evaluations = 0 if ctx.replay else 2000
    res.min_nontrivial = 0 if ctx.replay else ctx.pick(60, 150)
    # a share of the histories runs against builds with one of the documented compile-time knobs of src/user.h
    # switched off (no DNS cache / no outgoing packet queue): the authentication guards must not depend on them
    if not ctx.replay:
        for i, p in enumerate(plist):
            p["variant"] = [None, None, None, None, "nodnscache", "nooutq"][i % 6]
    for variant in (None, "nodnscache", "nooutq"):
        sub = [p for p in plist if p.get("variant") == variant]
        if not sub:
            continue
        with core.Build(variant=variant) as b:
            if not b.variant_applied:
                res.notes = getattr(res, "notes", []) + ["build variant %s: knob not found in src/user.h, histories run on the default build" % variant]
            simrun.run_scenarios(res, b, scn, sub, jobs=ctx.jobs)
    if not ctx.replay:
        rlist = [{"idx": 900000 + i, "seed": ctx.seed * 100000 + 90000 + i, "rseed": rng.getrandbits(32), "nsess": rng.choice([2, 3, 5])} for i in range(ctx.pick(12, 300))]
        with core.Build() as b:
            simrun.run_scenarios(res, b, scn_restart, rlist, jobs=ctx.jobs)
    simrun.finalize_sets(res)
    return res
