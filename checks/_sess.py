"""Shared scenario runner for the boundary-history checks C10, C14, C15: model-client sessions and
real-client tunnel runs, judged by the monitor of the property being checked."""
import random

from vflib import core, simrun
from simnet import monitors, proto, scen, sessions, tunnelscn
from simnet.scen import US


def _apply(prop, k, domain, wildcard, ns_ip, out, procs=None, bind_port=None):
    if prop == "C10":
        v, st, shapes = monitors.mon_c10(k, domain, (scen.SERVER_IP, scen.SERVER_IP6), ns_ip=ns_ip, wildcard=wildcard, procs=procs, bind_port=bind_port)
        out["sets"]["shapes"] = {repr(x) for x in shapes}
    elif prop == "C14":
        v, st, trig = monitors.mon_c14(k, domain, wildcard=wildcard, bind_port=bind_port)
        out["sets"]["answer_triggers"] = set(trig)
    else:
        v, st, fs = monitors.mon_c15(k, domain, wildcard=wildcard)
        out["sets"]["fragsizes"] = {str(x) for x in fs}
    for kk, vv in st.items():
        out["stats"][kk] = vv
    out["stats"]["selects_reporting_several_inputs_at_once"] = k.multi_ready
    return v, st


def scn(params):
    prop = params["prop"]
    seed = params["seed"]
    out = {"violations": [], "nontrivial": [], "stats": {}, "evaluations": 1, "sets": {}}
    if params["kind"] == "sweep":
        # one session per (record type, downstream codec); a fragment-size probe for EVERY reply size in a range: the server's
        # answer writer sees every payload length once (TXT string boundaries at 255-byte strings, host-name chunking, MX/SRV
        # record counts, the 512-byte mark), each answer judged by the property's monitor
        cfg = params["cfg"]
        s = sessions.run_session("%s-w%d" % (prop, params["idx"]), cfg, seed, setup_only=True)
        try:
            if not s.ok:
                out["inconclusive"] = s.why
                return out
            mc = s.mcs[0]
            rng = random.Random(params["seed"])
            filler = proto.BASE32.encode(bytes(rng.getrandbits(8) for _ in range(20)))
            n = 0
            for size in range(params["lo"], params["hi"]):
                mc.ask(proto.msg_fragprobe(mc.domain, mc.userid, size, filler + proto.BASE32.encode(bytes([size & 255, size >> 8, n & 255]))), timeout_us=50000)
                n += 1
                if n % 64 == 0:
                    mc.drain()
                    mc.replies.clear()
            v, st = _apply(prop, s.sim.k, s.server_domain, False, None, out)
            for (key, what, wit) in v[:3]:
                out["violations"].append((key, what, dict(wit, seed=seed, cfg=_jcfg(cfg), sweep=[params["lo"], params["hi"]])))
            out["stats"]["sweep_probes"] = n
            if s.sim.health(s.srv) != "running":
                out["inconclusive"] = "server-" + s.sim.health(s.srv).split(":")[0]
            elif n:
                out["nontrivial"].append(repr(("sweep", cfg["clients"][0]["qtype"], cfg["clients"][0]["down"], params["lo"] // 512)))
            return out
        finally:
            s.sim.close()
    if params["kind"] == "session":
        cfg = params["cfg"]
        s = sessions.run_session("%s-%d" % (prop, params["idx"]), cfg, seed)
        try:
            if not s.ok:
                if s.why == "model-login-failed" and getattr(s, "srv", None) is not None:
                    # the model client could not make sense of the server's answers: what the server emitted is still there to judge
                    v, _st = _apply(prop, s.sim.k, s.server_domain, bool(cfg.get("wild")), cfg.get("ns_ip"), out, bind_port=sessions.BIND_PORT if cfg.get("bind") else None)
                    for (key, what, wit) in v[:3]:
                        out["violations"].append((key, what, dict(wit, seed=seed, cfg=_jcfg(cfg), note="the model client's handshake did not complete")))
                    if out["violations"]:
                        return out
                out["inconclusive"] = s.why
                return out
            k = s.sim.k
            h = s.sim.health(s.srv)
            if h != "running":
                out["stats"]["server_died"] = 1
                out["inconclusive"] = "server-" + h.split(":")[0]
            v, st = _apply(prop, k, s.server_domain, bool(cfg.get("wild")), cfg.get("ns_ip"), out, bind_port=sessions.BIND_PORT if cfg.get("bind") else None)
            for (key, what, wit) in v[:3]:
                out["violations"].append((key, what, dict(wit, seed=seed, cfg=_jcfg(cfg))))
            for mc in s.mcs:
                cc = mc.cc
                sig = None
                if prop == "C10" and st["c10_answers"] > 20:
                    sig = ("session", cc["qtype"], cc["down"], cc["frag"] > 250, cfg.get("wild"), bool(cfg.get("ns_ip")))
                elif prop == "C14" and st["c14_answers"] > 20 and st["c14_triggers"] >= 2:
                    sig = ("session", cc["qtype"], cc["lazy"], st["c14_max_held"], len(s.mcs))
                elif prop == "C15" and st["c15_fragments"] >= 5 and st["c15_packets_completed"] >= 1:
                    f = cc["frag"]
                    sig = ("session", cc["qtype"], cc["down"], "F<=7" if f <= 7 else "F<=200" if f <= 200 else "F<=1200" if f <= 1200 else "F>1200")
                if sig:
                    out["nontrivial"].append(repr(sig))
            if params["idx"] < 3:
                out["sample"] = {"kind": "session", "clients": [_jcfg(mc.cc) for mc in s.mcs], "ops": s.ops_done,
                                 "stats": dict(st)}
            return out
        finally:
            s.sim.close()
    # real client through a (mildly faulty) relay
    cfg = params["cfg"]
    D = 25 * US

    def plan(t, sim, rng):
        k = sim.k
        prof = tunnelscn.fault_profile(cfg, rng, k.now + US, D)
        t.relay.p.update(prof)
        tt = k.now + US
        ident = 1
        while tt < t.t0 + D:
            side = rng.choice(["srv", "cli"])
            fr = tunnelscn.pick_frame(t, rng, side, (params["idx"] << 20) | ident, 0)
            k.at(tt, k.offer_tun, "srv" if side == "srv" else t.clients[0].name, fr, ident)
            ident += 1
            tt += rng.choice([20000, 200000, 600000, 1200000])
        return t.t0 + D + 10 * US

    t = tunnelscn.run_tunnel("%s-r%d" % (prop, params["idx"]), cfg, seed, plan)
    try:
        if not t.ok:
            out["inconclusive"] = t.why.split(":")[0]
            return out
        k = t.sim.k
        v, st = _apply(prop, k, t.sim.domain, False, None, out)
        for (key, what, wit) in v[:3]:
            out["violations"].append((key, what, dict(wit, seed=seed, cfg=cfg, negotiated=t.neg)))
        n = t.neg[0] if t.neg else {}
        if prop == "C10" and st["c10_answers"] > 20:
            out["nontrivial"].append(repr(("real",) + tunnelscn.negotiated_sig(t)))
        elif prop == "C14" and st["c14_answers"] > 20:
            out["nontrivial"].append(repr(("real", cfg["qtype"], n.get("lazy"), cfg["fault"], st["c14_max_held"])))
        elif prop == "C15" and st["c15_fragments"] >= 5 and st["c15_packets_completed"] >= 1:
            out["nontrivial"].append(repr(("real",) + tunnelscn.negotiated_sig(t)))
        return out
    finally:
        t.sim.close()


def scn_survive(params):
    """Memory safety / termination under *ordinary* traffic (the workloads of C10/C14/C15 and of the tunnel checks): the
    process named by params["who"] must neither be killed by a sanitizer / memcheck report nor stall.  Used by C05 (server)
    and C06 (client), under ASan+UBSan and in their memcheck passes."""
    prop, who, seed, cfg = params["prop"], params["who"], params["seed"], params["cfg"]
    out = {"violations": [], "nontrivial": [], "stats": {"ordinary_traffic_runs": 1}, "evaluations": 0, "sets": {}}

    def judge(sim, p, label):
        sim.judge_table_invariants = True
        h = sim.health(p)
        out["evaluations"] = sum(1 for ev in sim.k.log if ev[1] == "recv" and ev[2] == p.name)
        if h.startswith("sanitizer:") or h.startswith("signal:"):
            key = h.split(":", 1)[1] if h.startswith("sanitizer:") else h
            out["violations"].append(("%s:%s" % (prop, key), "%s died while handling ordinary %s traffic (%s)" % (p.name, label, h),
                                      {"seed": seed, "cfg": _jcfg(cfg), "report": sim.k.sanitizer_report(p)[-2500:]}))
        elif h == "stalled":
            out["inconclusive"] = "stalled"
        else:
            out["nontrivial"].append(repr(("ordinary", label, who, bool(params.get("memcheck")))))

    if params["kind"] == "session":
        s = sessions.run_session("%s-o%d" % (prop, params["idx"]), cfg, seed)
        try:
            if not s.ok and s.why != "model-login-failed":
                out["inconclusive"] = s.why
                return out
            judge(s.sim, s.srv, "multi-session")
            return out
        finally:
            s.sim.close()
    D = 20 * US

    def plan(t, sim, rng):
        k = sim.k
        t.relay.p.update(tunnelscn.fault_profile(cfg, rng, k.now + US, D))
        tt = k.now + US
        ident = 1
        while tt < t.t0 + D:
            side = rng.choice(["srv", "cli"])
            fr = tunnelscn.pick_frame(t, rng, side, (params["idx"] << 20) | ident, 0)
            k.at(tt, k.offer_tun, "srv" if side == "srv" else t.clients[0].name, fr, ident)
            ident += 1
            tt += rng.choice([20000, 200000, 600000, 1200000])
        return t.t0 + D + 5 * US

    t = tunnelscn.run_tunnel("%s-or%d" % (prop, params["idx"]), cfg, seed, plan)
    try:
        if not t.ok and not (t.why or "").startswith("handshake-failed"):
            out["inconclusive"] = (t.why or "?").split(":")[0]
            return out
        p = t.srv if who == "server" else (t.clients[0] if getattr(t, "clients", None) else None)
        if p is None:
            out["inconclusive"] = "no-client"
            return out
        judge(t.sim, p, "tunnel")
        return out
    finally:
        t.sim.close()


def survive_params(ctx, prop, who, n, base):
    rng = random.Random(ctx.seed * 6151 + sum(map(ord, prop)) + 77)
    plist = []
    for i in range(n):
        if who == "client" or rng.random() < 0.35:
            cfg = tunnelscn.gen_config(rng, i + ctx.seed, faults=True, nclients_max=1, allow_raw=True)
            plist.append({"prop": prop, "who": who, "kind": "real", "idx": base + i, "seed": ctx.seed * 100000 + base + i, "cfg": cfg})
        else:
            cfg = sessions.gen_session_cfg(rng, i + ctx.seed)
            cfg["nops"] = min(cfg["nops"], 80)
            plist.append({"prop": prop, "who": who, "kind": "session", "idx": base + i, "seed": ctx.seed * 100000 + base + i, "cfg": cfg})
    return plist


def _jcfg(c):
    return {k: (v.decode() if isinstance(v, bytes) else v) for k, v in c.items()} if isinstance(c, dict) else c


def run_generic(ctx, prop, rule, n_quick, n_thorough, min_nt_quick, min_nt_thorough, real_share=0.3, real_faults=True):
    res = core.Result()
    res.rule = rule
    res.assumptions = ["shim fidelity (DESIGN 3.2)", "independent protocol library simnet/proto.py (cross-validated against the C code by C07-C09 and by every model-client session interoperating with the real server)"]
    n = ctx.pick(n_quick, n_thorough)
    rng = random.Random(ctx.seed * 4409 + sum(map(ord, prop)))
    plist = []
    for i in range(n):
        if rng.random() < real_share:
            cfg = tunnelscn.gen_config(rng, i + ctx.seed, faults=real_faults, nclients_max=1, allow_raw=False)
            if cfg["fault"] in ("heavy",):
                cfg["fault"] = "mixed"
            plist.append({"prop": prop, "kind": "real", "idx": i, "seed": ctx.seed * 100000 + i, "cfg": cfg})
        else:
            plist.append({"prop": prop, "kind": "session", "idx": i, "seed": ctx.seed * 100000 + i,
                          "cfg": sessions.gen_session_cfg(rng, i + ctx.seed)})
    if prop == "C10":
        # reply-size sweeps: every size 2..1400 (quick) / 2..2400 (thorough; the largest the probe command can ask for is 2047)
        # for every record type x downstream codec
        hi_all = ctx.pick(1400, 2400)
        j = 0
        for qt in sessions.QT:
            if qt in (proto.T_NULL, proto.T_PRIVATE):
                downs = [None, "r"]
            elif qt == proto.T_TXT:
                downs = [None, "s", "u", "v", "r"]
            else:
                downs = [None, "s", "u", "v"]
            for dn in downs:
                for lo in range(2, hi_all, 350):
                    cc = {"qtype": qt, "down": dn, "up": "Base32", "lazy": False, "frag": 100, "edns0": True, "raw": False, "v6": False, "nofrag": True}
                    plist.append({"prop": prop, "kind": "sweep", "idx": 900000 + j, "seed": ctx.seed * 100000 + 90000 + j, "lo": lo, "hi": min(lo + 350, hi_all),
                                  "cfg": {"clients": [cc], "nops": 0, "check_ip_off": False, "ns_ip": None, "wild": False, "rseed": 77 + j, "bind": False}})
                    j += 1
    if ctx.replay:
        plist = [ctx.replay["witness"]["params"]]
    res.min_evaluations = max(1, len(plist) // 2)
    res.min_nontrivial = 0 if ctx.replay else ctx.pick(min_nt_quick, min_nt_thorough)
    with core.Build() as b:
        simrun.run_scenarios(res, b, scn, plist, jobs=ctx.jobs)
    simrun.finalize_sets(res)
    if ctx.replay:
        res.min_evaluations = 0
    return res
