"""C14 - the server never sends unsolicited or surplus DNS answers (Engine A)."""
from checks import _sess


def run(ctx):
    return _sess.run_generic(
        ctx, "C14",
        "boundary multiset monitor: every DNS answer the server sends must consume one unanswered query datagram "
        "received from that address with that id, name and type (a remembered duplicate is its own element); at every "
        "quiescent point (select) each session has at most 2 distinct unanswered well-formed ping/data queries. "
        "Workload: model-client sessions (lazy and immediate, all query types; pings, multi-fragment data, bursts of "
        "3-6 queries, exact duplicates with same/new id from same/other address, tun arrivals at odd instants, idle "
        "gaps, id 0) and real-client runs through a faulty relay (duplicates, impatient re-sends). non-trivial = "
        "scenario with >20 answers and >=2 distinct answer triggers (query / tun arrival / timer sweep).",
        300, 20000, 60, 150)
