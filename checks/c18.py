"""C18 - tunnel address pool and lookup by tunnel address (Engine B, unit/pool.c)."""
import re

from vflib import core, unitrun

# (exh_lo, nrand_mid, nrand_big, nbases, rounds)
#   bits exh_lo..30 exhaustive over server positions; bits 16..exh_lo-1 boundary + nrand_mid random
#   positions per netmask; bits 8..15 boundary + nrand_big random positions per netmask;
#   every (bits, position) on nbases base networks, each followed by `rounds` lookup rounds.
QUICK = (20, 1000, 200, 3, 3)
THOROUGH = (16, 0, 2000, 5, 3)


NETS = ["10.9.0.1/24", "192.168.100.129/27", "192.168.123.201/29", "100.100.100.250/28", "172.16.0.1/16", "10.0.0.3/27",
        "10.9.0.2/30", "223.255.255.129/25", "192.168.255.254/24", "10.250.250.100/28", "111.111.111.111/28", "10.9.0.14/28",
        "198.51.100.200/29", "203.0.113.222/27", "172.31.255.253/30", "10.9.0.5/29",
        # the width as an init script that pads its numbers writes it (read as a decimal number)
        "10.0.0.5/030", "10.0.5.1/024", "10.44.0.9/08", "192.168.77.20/029", "10.9.8.7/0028"]


def scn_assign(params):
    """Engine A: what the real server *tells* its clients.  Model clients log in until the pool is exhausted; every login
    reply 'server-client-mtu-netmask' must name the configured server address and width and a client address that is distinct,
    inside the subnet, not the server / network / broadcast address and equal to the address the server's table holds for
    that slot; one more version request gets VFUL; a packet offered for each told address reaches exactly its session."""
    import ipaddress
    import random
    from simnet import mclient, proto, scen
    seed = params["seed"]
    rng = random.Random(params["rseed"])
    out = {"violations": [], "nontrivial": [], "stats": {"assign_logins": 0, "assign_deliveries_checked": 0}, "evaluations": 0, "sets": {}}
    sim = scen.Sim("c18a-%d" % params["idx"], seed)
    try:
        k = sim.k
        srv = sim.server(tun=params["tun"])
        if not srv.alive():
            h0 = sim.health(srv)
            if h0.startswith("exit:") and 8 <= int(params["tun"].split("/")[1]) <= 30:
                # a server that refuses to start with a documented address/netmask creates no session at all
                out["evaluations"] = 1
                out["violations"].append(("C18:told:server-refuses-netmask-%s" % params["tun"].split("/")[1],
                                          "iodined started with the tunnel address %s exits at once (%s) instead of serving min(16, subnet size - 3) sessions" % (params["tun"], h0),
                                          {"seed": seed, "params": params, "stderr": k.stderr_text(srv, 600)}))
                return out
            out["inconclusive"] = "server-died-at-start"
            return out
        sip, bits = params["tun"].split("/")
        net = ipaddress.ip_network("%s/%d" % (sip, int(bits)), strict=False)
        want = min(16, net.num_addresses - 3)
        wit = {"seed": seed, "params": params}
        import socket
        import struct
        from simnet.advhist import PortRouter
        told = {}
        mcs = []
        shared = params.get("shared_ip")          # every client behind one address (a NAT / a shared resolver), told apart by port
        router = [None]

        def mk(j):
            ip = "10.53.6.1" if shared else "10.53.%d.%d" % (6 + j // 200, j % 200 + 1)
            mc = mclient.ModelClient(ip, (scen.SERVER_IP, 53), sim.domain, sim.password,
                                     random.Random(rng.getrandbits(32)), qtype=rng.choice(list(proto.QTYPES.values())))
            if shared:
                mc.sport = 20000 + j
                mc.kernel = k
                if router[0] is None:
                    router[0] = PortRouter(ip, mc)
                    k.add_actor(ip, router[0])
                else:
                    router[0].children.append(mc)
            else:
                k.add_actor(mc.ip, mc)
            return mc

        def one_login(j, mc):
            r = mc.login()
            if mc.login_reply is None:
                out["violations"].append(("C18:told:login-refused", "login of session %d on %s answered %r" % (j, params["tun"], r), wit))
                return False
            out["stats"]["assign_logins"] += 1
            out["evaluations"] += 1
            f = r.split(b"-")
            try:
                t_srv, t_cli, t_mtu, t_bits = f[0].decode(), f[1].decode(), int(f[2]), int(f[3])
                a = ipaddress.ip_address(t_cli)
            except (ValueError, IndexError, UnicodeDecodeError):
                out["violations"].append(("C18:told:malformed", "login reply %r on %s" % (r[:60], params["tun"]), wit))
                return False
            row = srv.snapshot[mc.userid] if mc.userid < len(srv.snapshot) else None
            table_ip = socket.inet_ntoa(struct.pack("<I", row["tun_ip"])) if row else None
            bad = None
            if t_srv != sip or t_bits != int(bits):
                bad = "names server %s/%d, configured %s" % (t_srv, t_bits, params["tun"])
            elif a not in net or a in (net.network_address, net.broadcast_address) or t_cli == sip:
                bad = "client address %s is not a usable host address of %s other than the server's" % (t_cli, net)
            elif t_cli in told:
                bad = "client address %s was already told to session %d" % (t_cli, told[t_cli])
            elif table_ip != t_cli:
                bad = "client address %s differs from the address the server routes to that slot (%s)" % (t_cli, table_ip)
            if bad:
                out["violations"].append(("C18:told:" + bad.split(" ")[0] + "-" + bad.split(" ")[1], "login reply %r of session %d on %s: %s" % (r[:50], j, params["tun"], bad), wit))
                return False
            told[t_cli] = j
            mc.tun_ip = t_cli
            mcs.append(mc)
            return True

        def foreign_hellos(n):
            # hosts speaking another protocol version say hello (an outdated client retries 5 times; scanners): answered VNAK,
            # and the pool is what it was
            for h_ in range(n):
                fc = mclient.ModelClient("10.53.9.%d" % (1 + h_ % 200), (scen.SERVER_IP, 53), sim.domain, sim.password, random.Random(rng.getrandbits(32)),
                                         qtype=rng.choice(list(proto.QTYPES.values())))
                k.add_actor(fc.ip, fc)
                pl = fc.version(version=rng.choice([0x00000501, 0x00000500, 0x00000503, 0, 0xFFFFFFFF, 0x02050000]))
                out["stats"]["assign_foreign_hellos"] = out["stats"].get("assign_foreign_hellos", 0) + 1
                if pl and pl[:4] == b"VACK":
                    out["violations"].append(("C18:told:foreign-version-accepted", "a hello with another protocol version was answered %r on %s" % (pl[:9], params["tun"]), wit))
        if params.get("foreign"):
            foreign_hellos(params["foreign"])
        j = 0
        go = True
        while go and j < want + 2:
            # one to three clients start up at about the same time: all version handshakes first, then the logins
            group = rng.choice([1, 2, 2, 3]) if params.get("interleave") else 1
            vs = []
            for g in range(group):
                mc = mk(j + g)
                vs.append((j + g, mc, mc.version()))
            if params.get("foreign") and rng.random() < 0.3:
                foreign_hellos(rng.randint(1, 3))
            for (jj, mc, pl) in vs:
                if not pl or pl[:4] != b"VACK":
                    if jj < want:
                        out["violations"].append(("C18:told:pool-smaller", "only %d of %d sessions could be created on %s (answer %r)" % (jj, want, params["tun"], (pl or b"")[:8]), wit))
                    go = False
                    break
                if jj >= want:
                    out["violations"].append(("C18:told:pool-larger", "a %d-th session was created on %s (pool size %d)" % (jj + 1, params["tun"], want), wit))
                    go = False
                    break
                if not one_login(jj, mc):
                    go = False
                    break
            j += group
        if not out["violations"] and mcs and params.get("bad_login"):
            # somebody at a client's own address sends a login with a wrong response naming that live session (a second
            # program behind the same NAT with a mistyped password): refused, and the session keeps its slot and address
            victim = rng.choice(mcs)
            keep = (victim.login_reply, victim.tun_ip)
            r = victim.login(digest=bytes(rng.getrandbits(8) for _ in range(16)))
            victim.login_reply, victim.tun_ip = keep
            out["stats"]["assign_bad_logins"] = out["stats"].get("assign_bad_logins", 0) + 1
            if r is not None and r[:4] != b"LNAK" and r[:5] != b"BADIP":
                out["violations"].append(("C18:told:wrong-login-answered", "a login with a wrong response for live session %d was answered %r" % (victim.userid, r[:20]), wit))
            row = srv.snapshot[victim.userid]
            if not (row["active"] and row["authenticated"]) and not out["violations"]:
                out["violations"].append(("C18:lookup:live-session-deactivated", "after a login with a wrong response naming it, live session %d (address %s) is no longer active/authenticated in the server's table"
                                          % (victim.userid, victim.tun_ip), wit))
        if not out["violations"]:
            # routing by the told addresses
            for j, mc in enumerate(mcs):
                if rng.random() < 0.6 or j < 2:
                    fr = proto.make_frame(sip, mc.tun_ip, (0xC18 << 20) | (params["idx"] << 8) | j, 60, "random", rng)
                    k.offer_tun("srv", fr, None)
                    k.run(k.now + 2000)
                    got = []
                    for m2 in mcs:
                        m2.pump(60000, 20000)
                        if any(x == fr for _t, x in m2.delivered):
                            got.append(m2.userid)
                    out["stats"]["assign_deliveries_checked"] += 1
                    out["evaluations"] += 1
                    if got != [mc.userid]:
                        out["violations"].append(("C18:told:packet-for-told-address-misrouted",
                                                  "a packet for %s (told to session %d) on %s was delivered to sessions %r" % (mc.tun_ip, mc.userid, params["tun"], got), wit))
                        break
            # ... and so does a packet one session sends to another session's address, whatever operating system the sender's
            # tun device is of (the 4 framing bytes in front of the packet are the sender's: Linux 00 00 08 00, the BSDs / macOS /
            # Windows 00 00 00 00 or 00 00 00 02)
            if len(mcs) >= 2 and not out["violations"]:
                for _p in range(min(3, len(mcs))):
                    a_, b_ = rng.sample(mcs, 2)
                    fr = proto.make_frame(a_.tun_ip, b_.tun_ip, (0xC18F << 20) | (params["idx"] << 8) | _p, 60, "random", rng)
                    fr = rng.choice([b"\x00\x00\x08\x00", b"\x00\x00\x00\x00", b"\x00\x00\x00\x02"]) + fr[4:]
                    a_.send_frame(fr, wait_us=30000)
                    k.run(k.now + 2000)
                    got = []
                    for m2 in mcs:
                        m2.pump(60000, 20000)
                        if any(x is not None and x[4:] == fr[4:] for _t, x in m2.delivered):
                            got.append(m2.userid)
                    wrote = any(ev[1] == "tun_write" and ev[2] == "srv" and bytes(ev[3]["data"])[4:] == fr[4:] for ev in k.log[-400:])
                    out["stats"]["assign_client_to_client_checked"] = out["stats"].get("assign_client_to_client_checked", 0) + 1
                    out["evaluations"] += 1
                    if got != [b_.userid] or wrote:
                        out["violations"].append(("C18:told:client-to-client-packet-misrouted",
                                                  "a packet session %d sent to %s (told to session %d; framing bytes %s) on %s was delivered to sessions %r%s"
                                                  % (a_.userid, b_.tun_ip, b_.userid, fr[:4].hex(), params["tun"], got, " and written to the server's tun" if wrote else ""), wit))
                        break
            out["nontrivial"].append(repr(("told", params["tun"], len(mcs))))
        if not out["violations"] and mcs and params.get("busy"):
            # Lookup by tunnel address over time: for more than a minute every session either stays in use - by DNS pings, by
            # upstream data only, in raw mode by data only, by raw pings - or falls silent.  Afterwards a packet for a told address
            # finds exactly the session that is still alive and owns it (whatever kind of traffic kept it alive), and a session
            # that has been silent for more than 60 s receives nothing.
            import zlib
            modes = {}
            for mc in mcs:
                modes[mc.userid] = rng.choice(["dnsping", "dnsdata", "rawdata", "rawdata", "rawping", "silent"])
                if modes[mc.userid].startswith("raw"):
                    mc.raw_login()
                    k.run(k.now + 20000)
                    if not any(c == proto.RAW_LOGIN for (_t, _s, c, _u, _p) in mc.raw_frames_received()):
                        modes[mc.userid] = "dnsping"          # (raw mode not granted: stays an ordinary session)
            t_end = k.now + rng.choice([70, 95, 130]) * 1000000
            n_act = 0
            while k.now < t_end and srv.alive():
                for mc in mcs:
                    md = modes[mc.userid]
                    n_act += 1
                    if md == "dnsping":
                        mc.ping(wait_us=2000)
                    elif md == "dnsdata":
                        mc.send_frame(proto.make_frame(mc.tun_ip, sip, (0xC18B << 20) | n_act, 40, "random", rng), wait_us=20000)
                    elif md == "rawdata":
                        mc.raw_data(proto.make_frame(mc.tun_ip, sip, (0xC18B << 20) | n_act, rng.choice([40, 200]), "random", rng))
                    elif md == "rawping":
                        mc.raw_ping()
                k.run(k.now + rng.choice([3, 7, 12, 19]) * 1000000)
            for mc in mcs:
                mc.drain()
                mc.delivered[:] = []
                del mc.raw_in[:]
            for j, mc in enumerate(mcs):
                fr = proto.make_frame(sip, mc.tun_ip, (0xC18C << 20) | (params["idx"] << 8) | j, 60, "random", rng)
                k.offer_tun("srv", fr, None)
                k.run(k.now + 2000)
                got = []
                for m2 in mcs:
                    if modes[m2.userid].startswith("raw"):
                        k.run(k.now + 20000)
                        for (_t, _s, c, _u, pl) in m2.raw_frames_received():
                            try:
                                if c == proto.RAW_DATA and zlib.decompress(pl) == fr:
                                    got.append(m2.userid)
                            except zlib.error:
                                pass
                    elif modes[m2.userid] != "silent" or m2 is mc:
                        m2.pump(60000, 20000)
                        if any(x == fr for _t, x in m2.delivered):
                            got.append(m2.userid)
                want_ = [] if modes[mc.userid] == "silent" else [mc.userid]
                out["stats"]["assign_lookups_after_a_minute"] = out["stats"].get("assign_lookups_after_a_minute", 0) + 1
                out["evaluations"] += 1
                if sorted(set(got)) != want_:
                    out["violations"].append(("C18:lookup:after-a-minute:%s" % modes[mc.userid],
                                              "after more than a minute in which session %d (address %s) was kept in use by '%s' traffic, a packet for its address on %s was delivered to sessions %r (expected %r)"
                                              % (mc.userid, mc.tun_ip, modes[mc.userid], params["tun"], sorted(set(got)), want_), dict(wit, modes=modes)))
                    break
                out["nontrivial"].append(repr(("lookup-after-a-minute", modes[mc.userid], int(bits) >= 28)))
            # The boundary itself: one DNS-mode session X speaks for the last time at t0; the others keep the server busy until
            # t0+55 s, then everybody is quiet (iodined sleeps in select()).  A packet for X's address arriving at t0+58 s finds
            # X (it is queued for it); one arriving at t0+62..69 s finds nobody (nothing is queued) - whatever iodined was doing
            # when it last looked at the clock.
            cand = [m2 for m2 in mcs if modes[m2.userid] in ("dnsping", "dnsdata")]
            if cand and not out["violations"] and srv.alive():
                X = rng.choice(cand)
                others = [m2 for m2 in mcs if m2 is not X and not modes[m2.userid].startswith("raw") and modes[m2.userid] != "silent"]
                late = rng.choice([58, 62, 62, 64, 67, 69])
                X.ping(wait_us=20000)
                X.drain()
                t0 = k.now
                while k.now < t0 + 55 * 1000000:
                    k.run(min(t0 + 55 * 1000000, k.now + rng.choice([4, 5, 6]) * 1000000))
                    for m2 in others[:3]:
                        m2.ping(wait_us=2000)
                k.run(t0 + late * 1000000 + rng.choice([0, 300000, 700000]))
                fr = proto.make_frame(sip, X.tun_ip, (0xC18D << 20) | params["idx"], 60, "random", rng)
                k.offer_tun("srv", fr, None)
                k.run(k.now + 100000)
                row = srv.snapshot[X.userid] if X.userid < len(srv.snapshot) else None
                if row is not None:
                    queued = row["out_len"] > 0 or row["outpacketq_filled"] > 0
                    out["stats"]["assign_lookups_at_the_60s_boundary"] = out["stats"].get("assign_lookups_at_the_60s_boundary", 0) + 1
                    out["evaluations"] += 1
                    if late >= 62 and queued:
                        out["violations"].append(("C18:lookup:silent-session-found", "a packet for %s arriving %d s after its session last spoke (the server had been idle for %d s) was queued for that session"
                                                  % (X.tun_ip, late, late - 55), dict(wit, late=late)))
                    elif late <= 58 and not queued:
                        out["violations"].append(("C18:lookup:live-session-not-found", "a packet for %s arriving %d s after its session last spoke was not queued for it" % (X.tun_ip, late), dict(wit, late=late)))
                    else:
                        out["nontrivial"].append(repr(("lookup-at-boundary", late)))
        if not out["violations"] and params.get("busy") and srv.alive():
            # A session whose login got through late: version handshake at t, login answered at t+35..50 s (lost and repeated login
            # queries), then the rest of the client's start-up, which involves no ping.  At t+62..75 s - the login is less than
            # 40 s old - a packet for the address it was told finds that session.
            k.run(k.now + 61 * 1000000)          # (whoever was there before has expired: a slot is free)
            Y = mk(900 + params["idx"] % 50)
            pl = Y.version()
            if pl and pl[:4] == b"VACK":
                tv = k.now
                k.run(tv + rng.choice([35, 42, 50]) * 1000000)
                r = Y.login()
                if Y.login_reply is not None:
                    try:
                        Y.tun_ip = r.split(b"-")[1].decode()
                    except (IndexError, UnicodeDecodeError):
                        Y.tun_ip = None
                if Y.login_reply is not None and Y.tun_ip:
                    k.run(tv + rng.choice([62, 66, 75]) * 1000000)
                    fr = proto.make_frame(sip, Y.tun_ip, (0xC18E << 20) | params["idx"], 60, "random", rng)
                    k.offer_tun("srv", fr, None)
                    k.run(k.now + 2000)
                    Y.pump(200000, 20000)
                    out["stats"]["assign_lookups_after_a_late_login"] = out["stats"].get("assign_lookups_after_a_late_login", 0) + 1
                    out["evaluations"] += 1
                    if not any(x == fr for _t, x in Y.delivered):
                        out["violations"].append(("C18:lookup:session-with-late-login-not-found",
                                                  "a packet for %s, told to a session %d s ago in its login reply (version handshake %d s ago), did not reach that session"
                                                  % (Y.tun_ip, (k.now - tv) // 1000000 - 40, (k.now - tv) // 1000000), dict(wit)))
                    else:
                        out["nontrivial"].append(repr(("lookup-after-late-login",)))
        if params["idx"] < 2:
            out["sample"] = {"engine": "A", "tun": params["tun"], "sessions": len(mcs), "told": sorted(told)[:4]}
        return out
    finally:
        sim.close()


def run(ctx):
    res = core.Result()
    exh_lo, nrand_mid, nrand_big, nbases, rounds = THOROUGH if ctx.thorough else QUICK
    res.rule = ("init_users(server, bits) from the sanitizer-built user.o for netmasks /8../30 on 12 base networks "
                "(10.x, 172.16.x, 192.168.x, 100.64.x, 128.0.0.0, 223.255.255.x, ...): returned count and usercount == "
                "min(16, 2^(32-bits)-3); users[i].tun_ip pairwise distinct, (ip & mask) == (server & mask), != server, "
                "!= network, != broadcast. Then, with time() wrapped to a driver-owned clock, random subsets of slots are "
                "made active/authenticated/disabled with last_pkt in now-{120,61,59,1,0} and find_user_by_ip(a) is compared "
                "for every pool address, its neighbours a+1/a-1, the server, network and broadcast address, an address "
                "outside the subnet, 0.0.0.0 and 255.255.255.255 against the reference 'the slot owning a that is active && "
                "authenticated && !disabled && now-last_pkt < 60, else -1'. Server positions: every position for "
                "/%d../30%s; boundary positions + seeded random for the wider subnets. "
                "distinct_nontrivial = distinct (bits, count, server inside/after the assigned range) pool classes that "
                "passed plus distinct lookup outcome classes observed and confirmed. Engine A: real iodined on 16 fixed + seeded tunnel "
                "networks (incl. addresses of 15 characters, server not the first host, /30): model clients log in until VFUL; every "
                "login reply must name the configured server address and width and a distinct usable in-subnet client address equal "
                "to the one in the server's table for that slot, and a packet offered for a told address reaches exactly that session."
                % (exh_lo, "" if exh_lo == 16 else " (the quick tier samples /16../%d)" % (exh_lo - 1)))
    res.assumptions = [
        "reference written from the property text; which in-subnet addresses are chosen is not prescribed",
        "session age of exactly 60 s is never generated (comparison at the boundary left unspecified)",
        "time() as seen by user.o is the driver's clock (-Wl,--wrap=time); the driver reports how often it was read",
        "netmasks outside 8..30 are rejected by iodined's option parsing and are not part of this property",
    ]
    res.min_nontrivial = 46
    res.min_evaluations = 10000
    with core.Build() as b:
        drv = b.unit("pool", ["pool.c"], objs=["user"], wraps=["time"], libs=())
        sh = ctx.jobs
        if ctx.replay:
            wit = str((ctx.replay.get("witness") or {}).get("driver_output", ""))
            m = re.search(r"server=(\d+\.\d+\.\d+\.\d+) bits=(\d+)", wit)
            if not m:
                raise core.HarnessError("C18 replay: witness has no 'server=<ip> bits=<n>'")
            res.min_nontrivial = 0
            res.min_evaluations = 1
            unitrun.run_sharded(res, "C18", drv, sh, lambda i: ["one", m.group(1), m.group(2), ctx.seed * 16 + i, 400],
                                jobs=sh)
            return res
        unitrun.run_sharded(res, "C18", drv, sh,
                            lambda i: ["run", i, sh, ctx.seed, exh_lo, nrand_mid, nrand_big, nbases, rounds],
                            jobs=sh, timeout=1200)
        # Engine A: the addresses as told to the clients
        import random
        from vflib import simrun
        rng = random.Random(ctx.seed * 1801 + 18)
        nets = list(NETS)
        for _ in range(ctx.pick(16, 600)):
            bits = rng.choice([24, 25, 26, 27, 27, 28, 28, 29, 29, 30, 16, 8])
            base = rng.choice([(10, rng.randint(0, 255), rng.randint(0, 255)), (192, 168, rng.randint(100, 255)), (172, rng.randint(16, 31), rng.randint(100, 255)),
                               (100, rng.randint(100, 127), rng.randint(100, 255)), (203, 0, 113), (rng.randint(100, 223), rng.randint(100, 255), rng.randint(100, 255))])
            size = 1 << (32 - min(max(bits, 24), 30))
            lo = rng.randrange(0, 256, size)
            host = lo + rng.randint(1, size - 2)
            nets.append("%d.%d.%d.%d/%d" % (base[0], base[1], base[2], host, bits))
        plist = [{"idx": i, "seed": ctx.seed * 100000 + i, "rseed": rng.getrandbits(32), "tun": t, "shared_ip": i % 3 == 1,
                  "interleave": i % 2 == 1, "bad_login": i % 4 < 2, "busy": i % 3 != 1, "foreign": [0, 1, 5, 17][i % 4] if (i // 4) % 2 == 0 else 0} for i, t in enumerate(nets)]
        sysres = core.Result()
        simrun.run_scenarios(sysres, b, scn_assign, plist, jobs=ctx.jobs)
        simrun.finalize_sets(sysres)
        res.violations += sysres.violations
        res.harness_errors += sysres.harness_errors
        res.evaluations += sysres.evaluations
        res.inconclusive += sysres.inconclusive
        for kk, vv in sysres.inconclusive_why.items():
            res.inconclusive_why[kk] = res.inconclusive_why.get(kk, 0) + vv
        for sig in sysres.nontrivial:
            res.nt(sig)
        for kk, vv in sysres.extra.items():
            res.extra["engine_a_" + kk] = vv
        res.samples += sysres.samples[:2]
    for v in res.violations:
        if isinstance(v.witness, dict):
            v.witness.setdefault("seed", ctx.seed)
    if not res.extra.get("clock_reads_by_code_under_test"):
        res.harness_errors.append("the wrapped time() was never called: lookup liveness was not exercised")
    res.exhaustive = False
    res.extra["exhaustive_subspace"] = (
        "every server host position 1..2^(32-bits)-2 for every netmask /%d../30 (%d (bits, position) pairs), each on %d of "
        "12 base networks" % (exh_lo, sum((1 << (32 - bb)) - 2 for bb in range(exh_lo, 31)), nbases))
    return res
