"""C18 - tunnel address pool and lookup by tunnel address (Engine B, unit/pool.c)."""
import re

from vflib import core, unitrun

# (exh_lo, nrand_mid, nrand_big, nbases, rounds)
#   bits exh_lo..30 exhaustive over server positions; bits 16..exh_lo-1 boundary + nrand_mid random
#   positions per netmask; bits 8..15 boundary + nrand_big random positions per netmask;
#   every (bits, position) on nbases base networks, each followed by `rounds` lookup rounds.
QUICK = (20, 1000, 200, 3, 3)
THOROUGH = (16, 0, 2000, 5, 3)


def run(ctx):
    res = core.Result()
    exh_lo, nrand_mid, nrand_big, nbases, rounds = THOROUGH if ctx.thorough else QUICK
    res.rule = ("init_users(server, bits) from the sanitizer-built user.o for netmasks /8../30 on 12 base networks "
                "(10.x, 172.16.x, 192.168.x, 100.64.x, 128.0.0.0, 223.255.255.x, ...): returned count and usercount == "
                "min(16, 2^(32-bits)-3); users[i].tun_ip pairwise distinct, (ip & mask) == (server & mask), != server, "
                "!= network, != broadcast. Then, with time() wrapped to a driver-owned clock, random subsets of slots are "
                "made active/authenticated/disabled with last_pkt in now-{120,61,59,1,0} and find_user_by_ip(a) is compared "
                "for every pool address, its neighbours a+1/a-1, the server, network and broadcast address, an address "
                "outside the subnet, 0.0.0.0 and 255.255.255.255 against the reference 'the slot owning a that is active && "
                "authenticated && !disabled && now-last_pkt < 60, else -1'. Server positions: every position for "
                "/%d../30%s; boundary positions + seeded random for the wider subnets. "
                "distinct_nontrivial = distinct (bits, count, server inside/after the assigned range) pool classes that "
                "passed plus distinct lookup outcome classes observed and confirmed."
                % (exh_lo, "" if exh_lo == 16 else " (the quick tier samples /16../%d)" % (exh_lo - 1)))
    res.assumptions = [
        "reference written from the property text; which in-subnet addresses are chosen is not prescribed",
        "session age of exactly 60 s is never generated (comparison at the boundary left unspecified)",
        "time() as seen by user.o is the driver's clock (-Wl,--wrap=time); the driver reports how often it was read",
        "netmasks outside 8..30 are rejected by iodined's option parsing and are not part of this property",
    ]
    res.min_nontrivial = 46
    res.min_evaluations = 10000
    with core.Build() as b:
        drv = b.unit("pool", ["pool.c"], objs=["user"], wraps=["time"], libs=())
        sh = ctx.jobs
        if ctx.replay:
            wit = str((ctx.replay.get("witness") or {}).get("driver_output", ""))
            m = re.search(r"server=(\d+\.\d+\.\d+\.\d+) bits=(\d+)", wit)
            if not m:
                raise core.HarnessError("C18 replay: witness has no 'server=<ip> bits=<n>'")
            res.min_nontrivial = 0
            res.min_evaluations = 1
            unitrun.run_sharded(res, "C18", drv, sh, lambda i: ["one", m.group(1), m.group(2), ctx.seed * 16 + i, 400],
                                jobs=sh)
            return res
        unitrun.run_sharded(res, "C18", drv, sh,
                            lambda i: ["run", i, sh, ctx.seed, exh_lo, nrand_mid, nrand_big, nbases, rounds],
                            jobs=sh, timeout=1200)
    for v in res.violations:
        if isinstance(v.witness, dict):
            v.witness.setdefault("seed", ctx.seed)
    if not res.extra.get("clock_reads_by_code_under_test"):
        res.harness_errors.append("the wrapped time() was never called: lookup liveness was not exercised")
    res.exhaustive = False
    res.extra["exhaustive_subspace"] = (
        "every server host position 1..2^(32-bits)-2 for every netmask /%d../30 (%d (bits, position) pairs), each on %d of "
        "12 base networks" % (exh_lo, sum((1 << (32 - bb)) - 2 for bb in range(exh_lo, 31)), nbases))
    return res
