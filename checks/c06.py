"""C06 - the client survives arbitrary replies (Engine A).

The real iodine client (ASan+UBSan) on the simulated OS against
  handshake  a model server that plays the handshake correctly up to a chosen step (occurrence n of V, L, I, raw login,
             Z, Y, S, O, R, N, or the qtype probes) and answers that step - once, or from then on - from a hostile class;
  tunnel     the same model server after a correct handshake, answering pings/data queries with hostile data answers,
             plus a spoofer injecting matched and unmatched answers and raw frames;
  real       the real iodined plus an on-path spoofer that sees the client's queries and races hostile answers.
Oracles: no sanitizer report, no signal, no stall (watchdog, re-run once); an ordinary exit (failed handshake, 60 s
without downstream) is fine.  Tun silence: packets planted in answers that match none of the client's recent queries
(wrong id / wrong first character) never appear in a client tun_write.
"""
import random
import struct
import zlib

from vflib import core, simrun
from checks import _sess
from simnet import hostile_cli, kernel, mserver, proto, scen
from simnet.scen import US

STEPS = ["Y", "V", "L", "I", "RAW", "Z", "S", "O", "R", "N", "P", "D"]
QTS = [None, "NULL", "PRIVATE", "TXT", "SRV", "MX", "CNAME", "A"]


def client_opts(params):
    o = []
    if params["qtype"]:
        o += ["-T", params["qtype"]]
    if params.get("downenc"):
        o += ["-O", params["downenc"]]
    if params.get("noraw", True):
        o += ["-r"]
    if params.get("lazy0"):
        o += ["-L", "0"]
    if params.get("m"):
        o += ["-m", str(params["m"])]
    if params.get("M"):
        o += ["-M", str(params["M"])]
    return o


class Spoofer(kernel.Actor):
    pass


def planted_frame(rng, idx, n):
    return proto.make_frame("10.250.9.9", "10.9.0.2", (0xC06 << 36) | (idx << 16) | n, rng.choice([40, 100, 300]), "random", rng)


def one_run(params):
    seed = params["seed"]
    rng = random.Random(params["rseed"])
    out = {"violations": [], "nontrivial": [], "stats": {"hostile_answers": 0, "planted_unmatched": 0, "client_exits": 0, "reached_tunnel": 0, "runs_with_hostile_lazyoff_answer": 0},
           "evaluations": 0, "sets": {}}
    sim = scen.Sim("c06-%d" % params["idx"], seed)
    try:
        k = sim.k
        kind = params["kind"]
        planted = {}
        unmatched_dgrams = {}
        k.keep_snaps = True
        state = {"count": {}, "triggered": False, "nplant": 0, "hostile": 0, "classes": set(), "steps": set()}
        ctx = {"downenc": "T", "password": sim.password, "userid": 3}

        def mk_frame():
            state["nplant"] += 1
            return planted_frame(rng, params["idx"], state["nplant"])
        ctx["frame"] = mk_frame

        hs = None
        if kind in ("handshake", "tunnel"):
            def hook(step, q, default, src):
                ctx["downenc"] = hs.downenc
                c = state["count"]
                c[step] = c.get(step, 0) + 1
                hostile = False
                if kind == "handshake":
                    if state["triggered"] and params["persist"] == "sticky":
                        hostile = rng.random() < 0.8
                    elif step == params["step"] and (c[step] == params["occurrence"] or (params["persist"] == "same-step" and c[step] >= params["occurrence"])):
                        hostile = True
                else:
                    if step in ("P", "D"):
                        state["tunnel_q"] = state.get("tunnel_q", 0) + 1
                    lazyoff = step == "O" and state.get("tunnel_q", 0) > 0     # the client switching lazy mode off in mid-tunnel
                    if params.get("starve") and step in ("P", "D") and state["tunnel_q"] > 3 and not state.get("lazyoff_seen"):
                        if rng.random() < 0.93:
                            return None           # a relay that swallows queries: the client will try to leave lazy mode
                    if lazyoff:
                        state["lazyoff_seen"] = True
                        step = "LAZYOFF"
                    hostile = (step in ("P", "D") and rng.random() < params["p_hostile"]) or (lazyoff and rng.random() < 0.9)
                if not hostile:
                    return default
                state["triggered"] = True
                if kind == "handshake" and c[step] == params["occurrence"] and step == params["step"]:
                    cls = params["cls"]
                elif kind == "tunnel" and rng.random() < 0.7:
                    cls = params["focus"]        # runs of the same class (e.g. a coherent flood of fragments)
                else:
                    cls = rng.choice(params["classes"])
                if q is None:      # raw login step
                    d = hostile_cli.gen(rng, hs.queries[-1] if hs.queries else _dummy_q(), "raw", step, ctx)
                else:
                    d = hostile_cli.gen(rng, q, cls, "O" if step == "LAZYOFF" else step, ctx)
                state["hostile"] += 1
                state["classes"].add(cls)
                state["steps"].add(step)
                if d is None:
                    return default
                if rng.random() < 0.15 and default is not None:
                    return [d, default] if rng.random() < 0.5 else [default, d]
                return d

            hs = mserver.HandshakeServer(scen.SERVER_IP, sim.domain, sim.password, hook=hook,
                                         challenge=rng.choice([0x12345678, 0, 0x7FFFFFFF, 0x80000000, 0xFFFFFFFF]), userid=rng.choice([0, 3, 15]))
            ctx["userid"] = hs.userid
            k.add_actor(hs.ip, hs)
            srv = None
        else:
            srv = sim.server()
            if not srv.alive():
                out["inconclusive"] = "server-died-at-start"
                return out
        c = sim.client("cli0", "10.53.1.1", scen.SERVER_IP, client_opts(params))
        spo = Spoofer("10.66.6.6")
        k.add_actor(spo.ip, spo)

        def client_queries():
            return [ev for ev in k.log if ev[1] == "send" and ev[2] == "cli0"]

        def inject(matched, focus=False):
            """The spoofer answers the client's most recent query (matched) or an invented one (unmatched, with a planted packet)."""
            qs = client_queries()
            if not qs:
                return
            last = qs[-1][3]
            if last["data"][:3] == proto.RAW_MAGIC:
                # the client talks raw UDP: it takes frames from any source, so only hostile frames are sent (no planted ones)
                ctx["userid"] = last["data"][3] & 15 if len(last["data"]) > 3 else ctx.get("userid", 0)
                d = hostile_cli.gen(rng, _dummy_q(), "raw", "D", ctx)
                state["classes"].add("raw")
                state["steps"].add("rawmode")
                state["hostile"] += 1
                src_ip = scen.SERVER_IP if rng.random() < 0.7 else spo.ip
                k.transmit((src_ip, 53), ("10.53.1.1", last["src"][1]), d, delay_us=rng.choice([1, 500, 1500, 5000]))
                return
            try:
                q = proto.parse_msg(last["data"])
            except proto.ParseError:
                return
            if not q.qd:
                return
            cport = last["src"][1]
            src_ip = scen.SERVER_IP if rng.random() < 0.7 else spo.ip
            if matched:
                cls = rng.choice(params["classes"])
                d = hostile_cli.gen(rng, q, cls, "D", ctx)
                state["classes"].add(cls)
                state["hostile"] += 1
            elif params.get("unmatched_only") and (focus or rng.random() < 0.6):
                # a hostile answer (any class) to a query the client never sent: same question name, an id it has not used
                recent = {struct.unpack_from(">H", ev[3]["data"], 0)[0] for ev in qs[-12:] if len(ev[3]["data"]) >= 2}
                bad_id = rng.randrange(65536)
                while bad_id in recent:
                    bad_id = rng.randrange(65536)
                cls = params["focus"] if (focus or rng.random() < 0.5) else rng.choice(params["classes"])
                labels, qt, _cl = q.qd[0]
                d = hostile_cli.gen(rng, proto.parse_msg(proto.build_query(bad_id, list(labels), qt)), cls, "D", ctx)
                if not isinstance(d, (bytes, bytearray)) or len(d) < 2 or struct.unpack_from(">H", d, 0)[0] != bad_id:
                    return
                unmatched_dgrams[bytes(d)] = (0, bad_id)
                state["classes"].add(cls)
                state["steps"].add("unmatched")
                state["hostile"] += 1
                out["stats"]["hostile_unmatched"] = out["stats"].get("hostile_unmatched", 0) + 1
            else:
                recent = set()
                for ev in qs[-12:]:
                    if len(ev[3]["data"]) >= 2:
                        recent.add(struct.unpack_from(">H", ev[3]["data"], 0)[0])
                f = mk_frame()
                body = bytes([0x80, (rng.randrange(8) << 5) | 1]) + zlib.compress(f)
                if rng.random() < 0.35:
                    # a bare data header announcing some other downstream sequence number / fragment (what a stale answer of
                    # an idle moment looks like), or the first fragment of a packet that is never completed
                    body = bytes([0x80 | (rng.randrange(8) << 4) | rng.randrange(16), (rng.randrange(8) << 5) | (rng.randrange(16) << 1)])
                    if rng.random() < 0.4:
                        body += zlib.compress(f)[:rng.randint(1, 20)]
                how = rng.randrange(2)
                labels, qt, _cl = q.qd[0]
                enc = ctx["downenc"] if qt not in (proto.T_NULL, proto.T_PRIVATE) else "T"
                if how == 0:
                    bad_id = rng.randrange(65536)
                    while bad_id in recent:
                        bad_id = rng.randrange(65536)
                    try:
                        d = mserver.build_answer(q, body, enc, qid=bad_id)
                    except ValueError:
                        return
                else:
                    # right id, but the question's first character is none of P / p / the userid digit
                    q2 = proto.parse_msg(proto.build_query(q.id, [b"z" + labels[0][1:]] + list(labels[1:]), qt))
                    try:
                        d = mserver.build_answer(q2, body, enc)
                    except ValueError:
                        return
                planted[f] = (how, bad_id if how == 0 else None)
                unmatched_dgrams[bytes(d)] = (how, bad_id if how == 0 else None)
                out["stats"]["planted_unmatched"] += 1
            if d is None:
                return
            for dd in (d if isinstance(d, list) else [d]):
                k.transmit((src_ip, 53), ("10.53.1.1", cport), dd, delay_us=rng.choice([1, 500, 1500, 5000]))

        limit = 150 * US
        t_end = k.now + limit
        in_tunnel_t = None
        ident = 0
        while k.now < t_end and c.alive() and k.stalled is None:
            k.run(min(k.now + rng.choice([20000, 100000, 400000]), t_end))
            if in_tunnel_t is None and sim.client_in_tunnel(c):
                in_tunnel_t = k.now
                out["stats"]["reached_tunnel"] = 1
                t_end = min(t_end, k.now + params["tunnel_s"] * US)
            if kind in ("tunnel", "real") or (kind == "handshake" and params.get("spoof")):
                if rng.random() < params.get("p_inject", 0.3):
                    inject(matched=rng.random() < 0.5 and not params.get("unmatched_only"))
            if in_tunnel_t is not None and rng.random() < 0.5:
                ident += 1
                k.offer_tun("cli0", proto.make_frame("10.9.0.2", "10.9.0.1", ident, rng.choice([40, 200, 1000]), "random", rng), ident)
                if srv is not None and rng.random() < 0.5:
                    k.offer_tun("srv", proto.make_frame("10.9.0.1", "10.9.0.2", 1000 + ident, rng.choice([40, 200, 1000]), "random", rng), ident)
        probes = None
        if params.get("unmatched_only") and srv is not None and in_tunnel_t is not None and c.alive() and srv.alive() and k.stalled is None \
                and not any(ev[1] == "send" and ev[2] == "cli0" and ev[3]["data"][:3] == proto.RAW_MAGIC for ev in k.log):
            # nothing but replies that match none of its queries came from the spoofer: once they stop, the session is what it
            # would have been without them, so packets offered at the server still reach the client's tun
            for _j in range(4 if params.get("p_inject") else 0):
                inject(False, focus=True)          # (the last things the spoofer sends are of the run's focus class)
                k.run(k.now + 300000)
            k.run(k.now + 3 * US)
            probes = []
            fs = [r["fragsize"] for r in (srv.snapshot or []) if r["active"] and r["fragsize"] >= 50]
            fs = min(fs) if fs else 100
            for j in range(3):
                # one-fragment, about 4-fragment and about 7-fragment packets at the session's fragment size (16 is the limit)
                f = bytes(proto.make_frame("10.9.0.1", "10.9.0.2", 50000 + j, [40, min(3 * fs, 1500), min(6 * fs, 3000)][j], "random", rng))
                probes.append(f)
                k.offer_tun("srv", f, 50000 + j)
                k.run(k.now + 2 * US)
            k.run(k.now + 10 * US)
        out["evaluations"] = state["hostile"] + out["stats"]["planted_unmatched"]
        out["stats"]["hostile_answers"] = state["hostile"]
        out["stats"]["runs_with_hostile_lazyoff_answer"] = int("LAZYOFF" in state["steps"])
        h = sim.health(c)
        wit = {"seed": seed, "client_options": client_opts(params), "steps_seen": [s for s, _t in (hs.steps if hs else [])][-12:]}
        if h == "stalled":
            out["stalled"] = True
            return out
        if h.startswith("shimfail"):
            out["inconclusive"] = "shim-failure"
            return out
        if h.startswith("sanitizer:") or h.startswith("signal:"):
            rep = k.sanitizer_report(c)
            key = h.split(":", 1)[1] if h.startswith("sanitizer:") else h
            last = [ev[3]["data"].hex()[:400] for ev in k.log if ev[1] == "recv" and ev[2] == "cli0"][-2:]
            out["violations"].append(("C06:%s" % key, "the client died while processing replies (%s)" % h,
                                      dict(wit, report=rep[-2500:], stderr=k.stderr_text(c, 500), last_datagrams=last)))
            return out
        if h.startswith("exit:"):
            out["stats"]["client_exits"] = 1
        # Replies that match none of the client's recent queries are ignored: across every select() iteration in which the
        # client received nothing but such replies (and read nothing from its tun), its reassembly state and its upstream
        # cursor - as shown by the guarded hook in client.c - are what they were before.
        prev_state = None
        got = []
        sent_ids = []
        became_matched = 0
        for ev in k.log:
            if ev[2] != "cli0":
                continue
            if ev[1] == "send" and len(ev[3]["data"]) >= 2 and ev[3]["data"][:3] != proto.RAW_MAGIC:
                sent_ids.append(struct.unpack_from(">H", ev[3]["data"], 0)[0])
            elif ev[1] == "recv":
                d = bytes(ev[3]["data"])
                um = unmatched_dgrams.get(d)
                ok_um = um is not None and not (um[0] == 0 and um[1] in sent_ids[-12:])
                got.append("unmatched" if ok_um else "other")
                if um is not None and not ok_um:
                    became_matched += 1
            elif ev[1] == "tun_read":
                got.append("other")
            elif ev[1] == "wait" and "cstate" in ev[3]:
                cur = tuple(ev[3]["cstate"][:7])
                if prev_state is not None and got and all(g == "unmatched" for g in got) and ev[3]["cstate"][11] == 1:
                    out["stats"]["unmatched_only_iterations_judged"] = out["stats"].get("unmatched_only_iterations_judged", 0) + 1
                    if cur != prev_state and not out["violations"]:
                        out["violations"].append(("C06:unmatched-reply-changed-transfer-state",
                                                  "handling only replies that match none of its recent queries changed the client's state (in seq/frag/len, out seq/frag/len/offset) from %r to %r"
                                                  % (prev_state, cur), dict(wit, time_us=ev[0])))
                prev_state = cur
                got = []
        if probes is not None and c.alive() and srv.alive() and not became_matched:
            out["stats"]["unmatched_only_runs_probed"] = 1
            wrote = {bytes(ev[3]["data"]) for ev in k.log if ev[1] == "tun_write" and ev[2] == "cli0"}
            out["probe_missing"] = [j for j, f in enumerate(probes) if f not in wrote]
            if out["probe_missing"] and params.get("p_inject"):
                # (judged in scn(): only what the same session delivers when the spoofer stays silent is demanded)
                out["probe_violation"] = ("C06:unmatched-replies-left-the-tunnel-dead",
                                          "after %d datagrams that match none of the client's queries (and nothing else from the spoofer) not all 3 packets (of about 1, 4 and 7 fragments) offered at the server over 16 s reached the client's tun, although they do when the spoofer stays silent"
                                          % len(unmatched_dgrams), dict(wit, classes=sorted(state["classes"])))
        # a raw-mode frame is self-contained: whatever the client writes to its tun because of a raw datagram must be
        # exactly what that datagram's own bytes inflate to (runts, foreign commands and cut-off streams deliver nothing)
        rcvd = {}
        for ev in k.log:
            if ev[2] != "cli0":
                continue
            if ev[1] == "recv":
                rcvd[ev[3]["id"]] = bytes(ev[3]["data"])
            elif ev[1] == "tun_write":
                d = rcvd.get(ev[3].get("cause")) if not isinstance(ev[3].get("cause"), tuple) else None
                if d is not None and (d[:3] == proto.RAW_MAGIC or len(d) < 12):
                    out["stats"]["raw_deliveries_checked"] = out["stats"].get("raw_deliveries_checked", 0) + 1
                    try:
                        want = zlib.decompress(d[4:]) if (len(d) > 4 and (d[3] & 0xF0) == 0x20) else None
                    except zlib.error:
                        want = None
                    if want is None or want != bytes(ev[3]["data"]):
                        out["violations"].append(("C06:raw-datagram-delivered-what-it-does-not-carry",
                                                  "a %d-byte raw-mode datagram (%s) made the client write a %d-byte packet to its tun that the datagram's own bytes do not inflate to"
                                                  % (len(d), d[:8].hex(), len(ev[3]["data"])), dict(wit, time_us=ev[0], datagram=d.hex()[:200])))
                        break
        # tun silence
        for ev in k.log:
            if ev[1] == "tun_write" and ev[2] == "cli0" and bytes(ev[3]["data"]) in planted:
                how, bad_id = planted[bytes(ev[3]["data"])]
                if how == 0:
                    # the invented id was unused when the answer was built; the client may have used it for a query it
                    # sent while the answer was in flight (ids advance by a fixed step: 1 in 65536) - then the answer matches
                    later = [struct.unpack_from(">H", e[3]["data"], 0)[0] for e in k.log
                             if e[1] == "send" and e[2] == "cli0" and e[0] <= ev[0] and len(e[3]["data"]) >= 2][-12:]
                    if bad_id in later:
                        out["stats"]["planted_id_became_current"] = out["stats"].get("planted_id_became_current", 0) + 1
                        continue
                out["violations"].append(("C06:unmatched-reply-delivered",
                                          "a packet planted in an answer that matches none of the client's recent queries (%s) was written to the client's tun"
                                          % ("wrong id" if how == 0 else "wrong first character"), dict(wit, time_us=ev[0])))
                break
        if state["hostile"] or planted:
            for st in (state["steps"] or {"inject"}):
                for cl in (state["classes"] or {"planted"}):
                    out["nontrivial"].append(repr((kind, st, cl, params["qtype"], params.get("downenc"))))
        out["sets"]["client_outcomes"] = {h.split(":")[0] + (":tunnel" if in_tunnel_t else ":handshake")}
        if params["idx"] < 4:
            out["sample"] = {"kind": kind, "options": client_opts(params), "target_step": params.get("step"), "class": params.get("cls"),
                             "hostile_answers": state["hostile"], "planted": len(planted), "client": h, "lazyoff_answered": "LAZYOFF" in state["steps"], "reached_tunnel": bool(in_tunnel_t),
                             "virtual_s": round(k.now / 1e6, 1)}
        return out
    finally:
        sim.close()


def scn_staleshake(params):
    """Handshake against the model server on a path that delivers stale datagrams: every answer arrives a second time while the
    client is already waiting for the answer to its next query, and answers under the id 0 or under the previous query's id -
    saying something else (VNAK, LNAK, BADIP, a wrong codec name) - arrive just before the real ones.  None of them answers the
    outstanding query, so the handshake ends exactly as it does on the same path without them (twin run)."""
    seed = params["seed"]
    out = {"violations": [], "nontrivial": [], "stats": {"staleshake_runs": 1}, "evaluations": 0, "sets": {}}

    def run(stale):
        rng = random.Random(params["rseed"])
        sim = scen.Sim("c06s-%d-%d" % (params["idx"], int(stale)), seed)
        try:
            k = sim.k
            st = {"prev": None, "n": 0, "sent": 0}

            def hook(step, q, default, src):
                if q is None or default is None or isinstance(default, list):
                    return default
                st["n"] += 1
                if stale:
                    L = k.latency_us
                    if st["prev"] is not None and rng.random() < 0.8:
                        # the previous answer once more, arriving after this query left and before its answer does
                        k.transmit((hs.ip, 53), src, st["prev"], delay_us=rng.choice([L // 2, L - 1]))
                        st["sent"] += 1
                    if rng.random() < 0.7:
                        # something else under an id that is not the outstanding one (0; the previous query's)
                        wrong = rng.choice([b"VNAK\x00\x00\x05\x02\x00", b"LNAK", b"BADIP", b"Base128", b"Raw", b"Immediate", b"\x00\x02", b"BADCODEC", b"VFUL\x00\x00\x00\x10\x00"])
                        bad_id = 0 if (st["n"] == 1 or rng.random() < 0.4) else st.get("prev_id", 0)
                        if bad_id != q.id:
                            try:
                                enc = hs.downenc if q.qd[0][1] not in (proto.T_NULL, proto.T_PRIVATE) else "T"
                                k.transmit((hs.ip, 53), src, mserver.build_answer(q, wrong, enc, qid=bad_id), delay_us=rng.choice([L // 2, L - 1]))
                                st["sent"] += 1
                            except ValueError:
                                pass
                st["prev"] = default if isinstance(default, (bytes, bytearray)) else None
                st["prev_id"] = q.id
                return default

            hs = mserver.HandshakeServer(scen.SERVER_IP, sim.domain, sim.password, hook=hook, userid=params["userid"])
            k.add_actor(hs.ip, hs)
            c = sim.client("cli0", "10.53.1.1", scen.SERVER_IP, client_opts(params))
            sim.run_until(lambda: sim.client_in_tunnel(c) or not c.alive(), 200 * US)
            h = sim.health(c)
            return {"health": h.split(":")[0] + (":" + h.split(":")[1] if h.startswith("exit") else ""), "tunnel": bool(sim.client_in_tunnel(c)),
                    "downenc": hs.downenc, "up": hs.upcodec.name, "frag": hs.fragsize, "lazy": hs.lazy,
                    "qtype": hs.steps[-1][1] if hs.steps else None, "stale_sent": st["sent"], "full_health": h,
                    "stderr": k.stderr_text(c, 800)}
        finally:
            sim.close()

    a = run(False)
    b = run(True)
    out["evaluations"] = b["stale_sent"]
    out["stats"]["stale_datagrams_sent"] = b["stale_sent"]
    for r_ in (a, b):
        if r_["full_health"].startswith("sanitizer") or r_["full_health"].startswith("signal") or r_["full_health"] == "stalled":
            out["violations"].append(("C06:%s" % r_["full_health"].split(":", 1)[-1], "the client died during a handshake with stale datagrams (%s)" % r_["full_health"], {"seed": seed, "params": params}))
            return out
    keys = ("health", "tunnel", "downenc", "up", "frag", "lazy", "qtype")
    if not a["tunnel"]:
        out["inconclusive"] = "twin-handshake-failed"
        return out
    diff = [kk for kk in keys if a[kk] != b[kk]]
    if diff:
        out["violations"].append(("C06:stale-handshake-datagram-taken:" + diff[0],
                                  "with %d stale datagrams (second copies of earlier answers, answers under id 0 or the previous id) the handshake ended differently: %s"
                                  % (b["stale_sent"], ", ".join("%s %r -> %r" % (kk, a[kk], b[kk]) for kk in diff)),
                                  {"seed": seed, "params": params, "stderr_with_stale": b["stderr"]}))
    elif b["stale_sent"] >= 5:
        out["nontrivial"].append(repr(("staleshake", params["qtype"], params.get("downenc"), a["up"])))
    return out


def _dummy_q():
    return proto.parse_msg(proto.build_query(1, [b"paaaa", b"t", b"example", b"com"], proto.T_NULL))


def scn(params):
    out = one_run(params)
    pv = out.pop("probe_violation", None)
    missing = out.pop("probe_missing", None)
    if pv is not None and not out["violations"]:
        # the same session with a silent spoofer: a configuration that cannot carry a probe packet anyway (a forced -m beyond what
        # the record type holds, ...) is not held against the client
        twin = one_run(dict(params, p_inject=0))
        tm = twin.pop("probe_missing", None)
        out["stats"]["unmatched_only_twin_runs"] = 1
        if tm is None or twin.get("violations") or twin.get("stalled"):
            out["inconclusive"] = out.get("inconclusive") or "probe-twin-not-judgeable"
        elif set(missing) - set(tm):
            key, what, wit = pv
            out["violations"].append((key, what + " (probe packets %r missing; with a silent spoofer only %r)" % (missing, tm), wit))
    if out.pop("stalled", False):
        out2 = one_run(params)
        if out2.pop("stalled", False):
            out2["violations"].append(("C06:stall", "the client made no system call for the watchdog period while processing replies (reproduced)",
                                       {"seed": params["seed"], "params": params}))
            return out2
        out2["inconclusive"] = out2.get("inconclusive") or "watchdog-not-reproduced"
        return out2
    return out


def gen_params(rng, i, seed):
    kind = ["handshake", "handshake", "handshake", "tunnel", "real"][i % 5]
    qt = QTS[(i // 5) % len(QTS)]
    p = {"idx": i, "seed": seed * 100000 + i, "rseed": rng.getrandbits(32), "kind": kind, "qtype": qt,
         "downenc": rng.choice([None, None, "base32", "base64", "base64u", "base128"] + (["raw"] if qt in ("NULL", "PRIVATE", "TXT") else [])),
         "noraw": rng.random() < 0.75, "lazy0": rng.random() < 0.2, "m": rng.choice([None, None, 100, 1200]),
         "M": rng.choice([None, None, 100, 200]), "classes": hostile_cli.CLASSES if rng.random() < 0.6 else rng.sample(hostile_cli.CLASSES, 4),
         "tunnel_s": rng.choice([5, 15, 40]), "p_inject": rng.choice([0.1, 0.3, 0.6])}
    if kind == "handshake":
        p["step"] = STEPS[(i // 3) % 10]         # every handshake step in turn
        if i % 15 == 1:
            p["step"] = "V"                      # (the version answer carries three peer-chosen binary fields)
        p["occurrence"] = rng.choice([1, 1, 1, 2, 3, 5])
        p["cls"] = hostile_cli.CLASSES[(i // 7) % len(hostile_cli.CLASSES)] if rng.random() < 0.7 else "step_payload"
        p["persist"] = rng.choice(["once", "same-step", "sticky"])
        p["spoof"] = rng.random() < 0.2
        if p["step"] in ("I", "RAW"):
            p["noraw"] = False
        if p["step"] == "Y" and rng.random() < 0.5:
            p["qtype"] = None               # the query-type autodetection probes
    else:
        p["p_hostile"] = rng.choice([0.1, 0.4, 0.9, 1.0])
        p["focus"] = hostile_cli.CLASSES[(i // 5) % len(hostile_cli.CLASSES)]
        if p["focus"] in ("frag_flood", "compressed_many", "huge_rdata") and kind == "tunnel":
            # the classes that need volume get it: every ping/data answer hostile, the large-answer record types, a long run
            p.update(p_hostile=1.0, qtype=["MX", "SRV", "MX", "TXT"][(i // 95) % 4], tunnel_s=40, lazy0=False, m=None)
        if kind == "real" and (i // 5) % 2 == 0:
            p["unmatched_only"] = True         # the spoofer never matches a query: the session must come out unharmed
            p["noraw"] = True
            if (i // 10) % 3 == 0:
                p["focus"] = ["cut_after_records", "names_fill_exactly", "many_records", "truncate"][(i // 30) % 4]
                p["qtype"] = ["MX", "SRV"][(i // 120) % 2]
                p["p_inject"] = 0.6
        if kind == "tunnel" and rng.random() < 0.4:
            p["starve"] = True                 # answers dry up: the client falls back to -I1, then leaves lazy mode in mid-tunnel
            p["tunnel_s"] = 58
            p["lazy0"] = False
            p["p_inject"] = 0                  # (spoofed answers would count as answers received)
    return p


def run(ctx):
    res = core.Result()
    res.rule = ("scenario = real iodine client (all -T incl. autodetect, -O, raw on/off, -L, -m, -M) against (a) a model server "
                "answering one handshake step (each of qtype probe, V, L, I, raw login, Z, Y, S, O, R, N in turn; 1st..5th "
                "occurrence; once / every time / everything afterwards; and the lazy-mode-off exchange a starved client starts in mid-tunnel) from one of 19 hostile classes (arbitrary bytes, truncation "
                "at every byte, RDLENGTH lies, 4-64 KB RDATA, 250+ MX/SRV records, odd preferences, bad TXT chunking, name loops and "
                "pointers to the end, all codec prefix letters, empty answers, payload sizes at every parser buffer boundary, "
                "step-specific hostile payloads (challenge 0/0x7FFFFFFF/0x80000000/0xFFFFFFFF, huge numeric fields, 4096-byte names "
                "without terminator, wrong probe sizes), lying counts, wrong types, error rcodes, zlib bombs/garbage, raw frames of all "
                "lengths), (b) the same server after a correct handshake with hostile ping/data answers plus a spoofer, (c) the real "
                "iodined plus an on-path spoofer racing hostile answers. Oracle: no sanitizer report / signal / reproduced stall; "
                "packets planted in answers with a non-recent id or a foreign first character never reach the client's tun. "
                "evaluations = hostile answers + planted answers delivered; distinct non-trivial = (kind, step answered, class, -T, -O).")
    res.assumptions = ["an ordinary exit of the client (handshake failure, 60 s without downstream) is correct behaviour",
                       "shift-base UB excluded (GCC defines it)"]
    n = ctx.pick(800, 60000)
    rng = random.Random(ctx.seed * 6007 + 6)
    plist = [gen_params(rng, i, ctx.seed) for i in range(n)]
    if ctx.replay:
        plist = [ctx.replay["witness"]["params"]]
    res.min_evaluations = 0 if ctx.replay else 1000
    res.min_nontrivial = 0 if ctx.replay else ctx.pick(150, 600)
    with core.Build() as b:
        simrun.run_scenarios(res, b, scn, plist, jobs=ctx.jobs)
        if not ctx.replay:
            srng = random.Random(ctx.seed * 7001 + 17)
            slist = [{"idx": 700000 + i, "seed": ctx.seed * 100000 + 70000 + i, "rseed": srng.getrandbits(32), "qtype": QTS[i % len(QTS)],
                      "downenc": srng.choice([None, None, "base32", "base64", "base128"]), "noraw": True, "lazy0": srng.random() < 0.3,
                      "m": srng.choice([None, None, 100]), "M": None, "userid": srng.choice([0, 3, 15])} for i in range(ctx.pick(28, 1500))]
            simrun.run_scenarios(res, b, scn_staleshake, slist, jobs=ctx.jobs)
        if not ctx.replay:
            # a whole cycle of the client's 16-bit query id counter (Engine B, unit/idring.c: client.c as text): the ids the
            # client remembers are the ids that left; answers under any other id (0, four queries back, neighbours, the next
            # one, random) deliver nothing and leave the reassembly state alone; answers under the current id are delivered
            from vflib import unitrun
            drv = b.unit("idring", ["idring.c"], objs=core.COMMON_OBJS + ["util"], wraps=["sendto", "write"])
            unitrun.run_sharded(res, "C06", drv, ctx.pick(4, 16), lambda i: [i, ctx.pick(4, 16), ctx.seed, ctx.pick(70000, 200000)])
        if not ctx.replay:
            # ordinary traffic too (the workloads of the behavioural checks): a death there is the same violation
            simrun.run_scenarios(res, b, _sess.scn_survive, _sess.survive_params(ctx, "C06", "client", ctx.pick(32, 2000), 600000), jobs=ctx.jobs)
        # memcheck pass: the same scenarios, fewer of them, with non-sanitized programs under valgrind memcheck (uninitialised
        # values and the invalid accesses ASan's red zones cannot see); the first error ends the program
        if not ctx.replay or (ctx.replay.get("witness") or {}).get("params", {}).get("memcheck"):
            mlist = [dict(p, idx=500000 + j, memcheck=True, tunnel_s=min(p["tunnel_s"], 15)) for j, p in enumerate(plist[::max(1, len(plist) // ctx.pick(16, 400))][:ctx.pick(16, 400)])]
            olist_m = [dict(p, memcheck=True) for p in _sess.survive_params(ctx, "C06", "client", ctx.pick(12, 300), 700000)]
            if ctx.replay:
                mlist = [ctx.replay["witness"]["params"]]
                olist_m = []
            if mlist:
                with core.Build(sanitize=False) as b2:
                    mres = core.Result()
                    simrun.run_scenarios(mres, b2, scn, mlist, jobs=ctx.jobs, memcheck_=True)
                    simrun.run_scenarios(mres, b2, _sess.scn_survive, olist_m, jobs=ctx.jobs, memcheck_=True)
                    simrun.finalize_sets(mres)
                res.violations += mres.violations
                res.harness_errors += mres.harness_errors
                res.evaluations += mres.evaluations
                res.inconclusive += mres.inconclusive
                res.scenarios = getattr(res, "scenarios", 0) + getattr(mres, "scenarios", 0)
                for kk, vv in mres.inconclusive_why.items():
                    res.inconclusive_why[kk] = res.inconclusive_why.get(kk, 0) + vv
                res.extra["memcheck_scenarios"] = len(mlist) + len(olist_m)
                res.extra["memcheck_evaluations"] = mres.evaluations
                for sig in mres.nontrivial:
                    res.nt("memcheck " + sig)
    simrun.finalize_sets(res)
    return res
