"""C20 - forwarded non-tunnel queries get their reply routed back to the asker (Engine A + Engine B).

Engine A: real iodined with -b P on the simulated OS; requesters (many address:port pairs) ask for names
outside the tunnel domain with ids from a small domain, a scripted local resolver at 127.0.0.1:P answers
in any order, twice, late, never, or unsolicited; a model-client tunnel session runs alongside.
  forward rule  every such query produces exactly one datagram to 127.0.0.1:P that strict-parses and carries
                the same id, question labels and type;
  reply rule    a resolver reply with id X is relayed byte-identical to the requester if X occurs exactly once
                among the 16 most recent forwarded queries, to one of its askers if several times, to nobody
                if not at all.
Engine B: unit/fwq.c enumerates put/get histories of the table against a reference ring.
"""
import random
import struct

from vflib import core, simrun, unitrun
from simnet import dnsstrict, kernel, mclient, proto, scen
from simnet.scen import US

BIND_PORT = 5353
NAMES = [[b"www", b"example", b"org"], [b"a"], [b"mail", b"t", b"example", b"net"], [b"x" * 63, b"y" * 10, b"com"],
         [b"t", b"example", b"com", b"evil", b"org"], [b"example", b"com"], [b"com"], [b"Tt", b"Example", b"COM", b"x"],
         [b"q-1", b"q_2", b"q+3", b"\xe4\xf6", b"org"]]
TYPES = [1, 2, 5, 15, 16, 28, 33, 255, 10, 65399]


def rand_name(rng):
    """Names outside the tunnel domain of every length up to the 253-character maximum."""
    total = rng.choice([1, 5, 40, 100, 200, 230, 240, 243, 244, 245, 250, 252, 253]) if rng.random() < 0.7 else rng.randint(1, 253)
    labels = []
    left = total
    while left > 0:
        n = min(left, rng.choice([1, 3, 10, 40, 63]))
        if left - n == 1:        # a label needs at least one character after the separating dot
            n = left
            if n > 63:
                n = left - 2
        labels.append(bytes(rng.choice(b"abcdefghijklmnopqrstuvwxyz0123456789-") for _ in range(n)))
        left -= n + 1
    return labels


class Resolver(kernel.Actor):
    def __init__(self, ip):
        kernel.Actor.__init__(self, ip)
        self.got = []      # (time, src, data)
        self.down = False  # the daemon is being restarted: nothing listens on its port (the host answers ICMP port unreachable)

    def port_closed(self, port):
        return self.down and port == BIND_PORT

    def on_datagram(self, src, dst, data):
        self.got.append((self.kernel.now, src, dst, data))


class Requester(kernel.Actor):
    def __init__(self, ip):
        kernel.Actor.__init__(self, ip)
        self.got = []

    def on_datagram(self, src, dst, data):
        self.got.append((self.kernel.now, src, dst, data))


def scn(params):
    seed = params["seed"]
    rng = random.Random(params["rseed"])
    out = {"violations": [], "nontrivial": [], "stats": {"fwd_queries": 0, "fwd_checked": 0, "replies": 0, "replies_unique_id": 0,
                                                        "replies_ambiguous_id": 0, "replies_unknown_id": 0, "replies_relayed": 0,
                                                        "v6_requests": 0}, "evaluations": 0, "sets": {}}
    sim = scen.Sim("c20-%d" % params["idx"], seed)
    try:
        k = sim.k
        J = 0
        if params.get("jitter"):
            k.sched_jitter = tuple(params["jitter"])     # iodined is resumed late now and then: queries and replies wait together
            J = params["jitter"][1] + 3000               # (every step of the history waits that much longer for its effect)
        srv = sim.server(extra=["-b", str(BIND_PORT)] + (["-c"] if params["opt_c"] else []), stdin_closed=bool(params.get("stdin_closed")))
        if not srv.alive():
            out["inconclusive"] = "server-died-at-start"
            return out
        res = Resolver("127.0.0.1")
        k.add_actor("127.0.0.1", res)
        reqs = []
        for i in range(params["nreq"]):
            ip = "10.77.0.%d" % (i + 1) if not (params["v6"] and i % 4 == 3) else "fd77::%x" % (i + 1)
            r = Requester(ip)
            k.add_actor(ip, r)
            reqs.append(r)
        mc = mclient.ModelClient("10.53.2.1", (scen.SERVER_IP, 53), sim.domain, sim.password, random.Random(rng.getrandbits(32)),
                                 qtype=rng.choice(list(proto.QTYPES.values())))
        k.add_actor(mc.ip, mc)
        tunnel_ok = mc.connect()
        ids = [rng.randrange(65536) for _ in range(params["idspace"])]
        if rng.random() < 0.5:
            ids[0] = 0
        window = []          # the forwarded queries in order: (asker addr, id)
        attempts = []        # every query iodined tried to forward, in order: (asker addr, id, sendto succeeded)
        outstanding = []     # forwarded datagrams the resolver has received and not yet answered: (id, bytes)
        wit = {"seed": seed}

        def srv_events(start):
            return [ev for ev in k.log[start:] if ev[2] == "srv"]

        for step in range(params["nops"]):
            if not srv.alive() or k.stalled:
                break
            op = rng.choice(["ask"] * 5 + ["reply"] * 4 + ["unsolicited", "dupreply", "tunnel", "wait"] + (["outage"] if params.get("outages") else []))
            mark = len(k.log)
            if op == "outage":
                # The local DNS server is restarted: for a moment nothing listens on its port, and the queries handed to it
                # meanwhile (one to three, arriving together) are lost.  They were forwarded all the same - iodined cannot know -
                # and once the daemon is back everything goes on as before.
                res.down = True
                burst = []
                busy = rng.random() < 0.6
                if busy:
                    k.freeze("srv")      # iodined is busy (or not scheduled) for a moment: the burst is waiting when it gets back to select()
                for _b in range(rng.randint(1, 3)):
                    r = rng.choice(reqs)
                    qid = rng.choice(ids)
                    sport = rng.choice([53, 1024, 33333, 40000 + rng.randrange(50)])
                    v6 = ":" in r.ip
                    r.send(sport, (scen.SERVER_IP6 if v6 else scen.SERVER_IP, 53), proto.build_query(qid, rng.choice(NAMES), rng.choice(TYPES)))
                    burst.append(((r.ip, sport), qid))
                    if rng.random() < 0.3:
                        k.run(k.now + rng.choice([10, 500]))
                if busy:
                    k.run(k.now + 1500)
                    k.thaw("srv")
                k.run(k.now + rng.choice([3000, 20000, 300000]) + J)
                res.down = False
                out["stats"]["outages"] = out["stats"].get("outages", 0) + 1
                recv_src = {ev[3]["id"]: ev[3]["src"] for ev in srv_events(mark) if ev[1] == "recv"}
                for ev in srv_events(mark):
                    if ev[1] == "send" and ev[3]["dst"] == ("127.0.0.1", BIND_PORT) and len(ev[3]["data"]) >= 2:
                        asker = recv_src.get(ev[3].get("cause"))
                        if asker is not None:
                            fid = struct.unpack(">H", ev[3]["data"][:2])[0]
                            window.append((asker, fid))
                            attempts.append((asker, fid, True))
                            out["stats"]["fwd_during_outage"] = out["stats"].get("fwd_during_outage", 0) + 1
                for ev in srv_events(mark):
                    if ev[1] == "send_error" and not ev[3].get("injected"):
                        asker = recv_src.get(ev[3].get("cause"))
                        attempts.append((asker, struct.unpack(">H", ev[3]["data"][:2])[0] if len(ev[3].get("data") or b"") >= 2 else 0, False))
                continue
            if op == "ask":
                r = rng.choice(reqs)
                qid = rng.choice(ids)
                name = rng.choice(NAMES) if rng.random() < 0.6 else rand_name(rng)
                qt = rng.choice(TYPES)
                sport = rng.choice([53, 1024, 33333, 40000 + rng.randrange(50), BIND_PORT])        # (a requester may use any source port, also the -b one)
                q = proto.build_query(qid, name, qt, edns0=rng.random() < 0.3)
                if params.get("flagbits") and rng.random() < 0.5:
                    # what other askers set in their queries: AD (dig), CD (validating resolvers), RD clear, both
                    fl = rng.choice([0x0120, 0x0110, 0x0130, 0x0000, 0x0020, 0x0010])
                    q = q[:2] + struct.pack(">H", fl) + q[4:]
                v6 = ":" in r.ip
                faulty = rng.random() < params.get("p_sendfault", 0)
                if faulty:
                    # the operating system refuses the forwarding sendto() (ENOBUFS, EPERM from a firewall rule, ECONNREFUSED
                    # left by an earlier ICMP error): nothing is forwarded and nobody else's pending query may suffer
                    k.send_faults.append({"proc": "srv", "dst_port": BIND_PORT, "errno": rng.choice([105, 1, 111]), "count": 1})
                r.send(sport, (scen.SERVER_IP6 if v6 else scen.SERVER_IP, 53), q)
                n0 = len(res.got)
                k.run(k.now + rng.choice([2500, 2500, 10000]) + J)
                out["stats"]["fwd_queries"] += 1
                out["stats"]["v6_requests"] += int(v6)
                new = res.got[n0:]
                if faulty:
                    fired = not any(f["count"] > 0 for f in k.send_faults)
                    k.send_faults[:] = []
                    if fired:
                        out["stats"]["sendto_failures_injected"] = out["stats"].get("sendto_failures_injected", 0) + 1
                        attempts.append(((r.ip, sport), qid, False))
                        if new:
                            out["violations"].append(("C20:harness:fault-not-effective", "a datagram reached the resolver although sendto was failed", dict(wit)))
                        continue
                if len(new) != 1:
                    errs = [ev for ev in srv_events(mark) if ev[1] == "send_error"]
                    out["violations"].append(("C20:query-not-forwarded" if not new else "C20:query-forwarded-more-than-once",
                                              "a query (id %d, %r type %d) from %s produced %d datagrams to the local DNS port%s"
                                              % (qid, b".".join(name)[:40], qt, r.ip, len(new), " (sendto failed: errno %d)" % errs[0][3]["errno"] if errs else ""),
                                              dict(wit, time_us=k.now, requester=r.ip)))
                    continue
                _t, fsrc, fdst, fdata = new[0]
                out["stats"]["fwd_checked"] += 1
                info, problems = dnsstrict.check(fdata, expect_qr=0)
                good = not problems and info["question"] and info["id"] == qid and \
                    list(info["question"][0]) == list(name) and info["question"][1] == qt and fdst == ("127.0.0.1", BIND_PORT)
                if not good:
                    out["violations"].append(("C20:forwarded-query-altered", "forwarded copy of query (id %d, %r type %d) is %s"
                                              % (qid, b".".join(name)[:40], qt, problems[0] if problems else "different id/name/type: %r" % (info.get("id"), info.get("question"))[:120]),
                                              dict(wit, time_us=k.now, sent=q.hex()[:200], forwarded=fdata.hex()[:200])))
                    continue
                window.append(((r.ip, sport), qid))
                attempts.append(((r.ip, sport), qid, True))
                outstanding.append((qid, fdata, fsrc))
            elif op in ("reply", "dupreply", "unsolicited"):
                if op == "unsolicited" or not outstanding:
                    qid = rng.choice(ids + [rng.randrange(65536), 0])
                    body = proto.build_answer_raw(qid, [b"zz", b"org"], 1, [(1, b"\x01\x02\x03\x04")])
                    fsrc = None
                else:
                    j = rng.randrange(len(outstanding))
                    qid, fdata, fsrc = outstanding[j] if op == "dupreply" else outstanding.pop(j)
                    try:
                        m = proto.parse_msg(fdata)
                        body = proto.build_answer_raw(qid, m.qd[0][0], m.qd[0][1], [(1, bytes(rng.getrandbits(8) for _ in range(4)))],
                                                      extra=bytes(rng.getrandbits(8) for _ in range(rng.choice([0, 0, 7, 480, 500, 1200, 4000]))))     # (forwarded queries advertise 4096 bytes by EDNS0)
                    except (proto.ParseError, ValueError, IndexError):
                        body = struct.pack(">H", qid) + b"\x81\x80" + bytes(8)
                if rng.random() < 0.05:
                    body = body[:rng.randint(0, 11)]       # too short to carry an id
                elif rng.random() < 0.12:
                    # a complete message that is a header and nothing else (REFUSED / FORMERR / NOTIMP / SERVFAIL answers need not
                    # echo the question): exactly 12 bytes
                    body = body[:2] + bytes([0x81, 0x80 | rng.choice([1, 2, 4, 5])]) + bytes(8)
                # where the server's forwarding socket lives
                dst = fsrc
                if dst is None:
                    cand = [g[1] for g in res.got]
                    if not cand:
                        continue
                    dst = cand[-1]
                marks = {r.ip: len(r.got) for r in reqs}
                res.send(BIND_PORT, dst, body)
                k.run(k.now + 3000 + J)
                out["stats"]["replies"] += 1
                got = [(r.ip, g) for r in reqs for g in r.got[marks[r.ip]:]]
                rid = struct.unpack(">H", body[:2])[0] if len(body) >= 12 else 0
                recent = window[-16:]
                askers = [a for (a, i) in recent if i == rid]
                if len(attempts) != len(window):
                    # Some forwarding attempts failed in sendto().  Whether such an attempt counts among "the 16 most recent
                    # forwarded queries" the property leaves open, so only what holds under both readings is demanded:
                    # delivery is owed to askers that are among the 16 most recent attempts and whose query did go out;
                    # delivery is tolerated to any asker of that id among the 16 most recent attempts or forwarded queries.
                    must = [a for (a, i, ok) in attempts[-16:] if i == rid and ok]
                    may = set(askers) | {a for (a, i, _ok) in attempts[-16:] if i == rid}
                    if len(body) >= 12:
                        out["stats"]["replies_after_send_failure"] = out["stats"].get("replies_after_send_failure", 0) + 1
                        ok = (len(got) == 1 and got[0][1][2] in may and got[0][1][3] == body) if (must or got) else True
                        if not ok:
                            out["violations"].append(("C20:reply-not-routed-to-asker" if must else "C20:reply-sent-to-another-requester",
                                                      "after failed forwarding attempts: reply with id %d (owed to %s, tolerable for %s) was delivered to %s"
                                                      % (rid, sorted(set(must)), sorted(may), [(ip, g[2]) for ip, g in got] or "nobody"),
                                                      dict(wit, time_us=k.now, attempts=repr(attempts[-17:])[:600])))
                        elif got:
                            out["stats"]["replies_relayed"] += 1
                        continue
                if len(body) < 12:
                    # no DNS header, hence no id: iodined treats it as id 0.  Reaching nobody, or whoever asked with
                    # id 0, are both compatible with the property; anybody else is not.
                    out["stats"]["replies_without_header"] = out["stats"].get("replies_without_header", 0) + 1
                    tolerated = set(askers) | {a for (a, i, _ok) in attempts[-16:] if i == rid}
                    if got and not (len(got) == 1 and got[0][1][2] in tolerated and got[0][1][3] == body):
                        out["violations"].append(("C20:reply-sent-to-another-requester",
                                                  "a %d-byte datagram from the resolver was sent to %s" % (len(body), [(ip, g[2]) for ip, g in got]),
                                                  dict(wit, time_us=k.now)))
                elif len(set(askers)) == 1 and len(body) >= 12:
                    out["stats"]["replies_unique_id"] += 1
                    exp = askers[0]
                    ok = len(got) == 1 and got[0][1][2] == exp and got[0][1][3] == body
                    if not ok:
                        out["violations"].append(("C20:reply-not-routed-to-asker",
                                                  "reply with id %d (asked only by %s among the 16 most recent forwarded queries) was delivered to %s"
                                                  % (rid, exp, [(ip, g[2]) for ip, g in got] or "nobody"),
                                                  dict(wit, time_us=k.now, unchanged=[g[3] == body for _ip, g in got])))
                    else:
                        out["stats"]["replies_relayed"] += 1
                elif askers and len(body) >= 12:
                    out["stats"]["replies_ambiguous_id"] += 1
                    ok = len(got) == 1 and got[0][1][2] in askers and got[0][1][3] == body
                    if not ok:
                        out["violations"].append(("C20:reply-not-routed-to-asker",
                                                  "reply with id %d (asked by %s) was delivered to %s" % (rid, sorted(set(askers)), [(ip, g[2]) for ip, g in got] or "nobody"),
                                                  dict(wit, time_us=k.now)))
                    else:
                        out["stats"]["replies_relayed"] += 1
                else:
                    out["stats"]["replies_unknown_id"] += 1
                    if got:
                        out["violations"].append(("C20:reply-sent-to-another-requester",
                                                  "reply with id %d, which matches none of the 16 most recent forwarded queries, was sent to %s"
                                                  % (rid, [(ip, g[2]) for ip, g in got]), dict(wit, time_us=k.now, window=repr(recent)[:400])))
            elif op == "tunnel":
                if tunnel_ok and rng.random() < 0.5:
                    # a small upstream packet of the tunnel session (its last fragment is acknowledged on the server's 20 ms
                    # timer), then a moment of silence: the forwarded queries that are still waiting for their reply stay remembered
                    mc.send_frame(proto.make_frame(mc.tun_ip, "10.9.0.1", (0xC20 << 20) | step, rng.choice([32, 60]), "random", rng), wait_us=30000 + J)
                    k.run(k.now + rng.choice([25000, 60000]) + J)
                elif tunnel_ok:
                    mc.ping(20000 + J)
            else:
                # (a slow local DNS server: up to 12 s without anything happening at all)
                k.run(k.now + rng.choice([1000, 100000, 2 * US, 2 * US, 12 * US]))
        out["evaluations"] = out["stats"]["fwd_queries"] + out["stats"]["replies"]
        h = sim.health(srv)
        if h != "running":
            out["stats"]["server_died"] = 1
            out["inconclusive"] = "server-" + h.split(":")[0]
        st = out["stats"]
        if st["fwd_checked"] >= 17 and st["replies_unique_id"] >= 3:
            out["nontrivial"].append(repr(("wrap", params["idspace"], st["replies_ambiguous_id"] > 0, st["replies_unknown_id"] > 0, params["v6"], params["opt_c"])))
        if params["idx"] < 3:
            out["sample"] = {"idspace": params["idspace"], "requesters": params["nreq"], "stats": dict(st),
                             "window_tail": [(a, i) for a, i in window[-5:]]}
        return out
    finally:
        sim.close()


def run(ctx):
    res = core.Result()
    res.rule = ("Engine A: histories of 60-250 operations (ask from one of 2-12 requesters at varying ports with an id from a domain of "
                "3-20 values incl. 0, resolver reply to any outstanding forwarded query, duplicate reply, unsolicited reply, truncated "
                "reply, tunnel ping, time advance; in a third of the histories 5-30 % of the forwarding sendto() calls are failed by the simulated OS) against iodined -b; forward rule and reply rule judged at the socket boundary. "
                "Engine B: every put/get history of the table over 3 ids x 2 askers up to the stated depth, every ring phase 0..47 x every "
                "history up to the phase depth (exhaustive), plus random long histories; oracle = reference ring of the 16 most recent "
                "forwarded queries. evaluations = table lookups (B) + forwarded queries and resolver replies judged (A); distinct "
                "non-trivial = Engine A histories that wrapped the table (>=17 forwards) by (id-domain size, ambiguous ids seen, unknown "
                "ids seen, IPv6 requesters, -c) + Engine B sub-spaces.")
    res.assumptions = ["labels containing '.' or NUL are not generated (iodine represents names as dotted C strings)",
                       "replies shorter than a DNS header carry no id and must reach nobody"]
    rng = random.Random(ctx.seed * 3331 + 20)
    n = ctx.pick(400, 30000)
    plist = [{"idx": i, "seed": ctx.seed * 100000 + i, "rseed": rng.getrandbits(32), "nops": rng.randint(60, 250),
              "idspace": rng.choice([3, 4, 6, 10, 20]), "nreq": rng.randint(2, 12), "v6": rng.random() < 0.3,
              "opt_c": rng.random() < 0.2, "p_sendfault": rng.choice([0, 0, 0, 0.05, 0.1, 0.3]), "stdin_closed": i % 5 == 2,
              "flagbits": i % 3 == 1, "outages": i % 4 == 1, "jitter": [None, None, [0.3, 3000], [0.6, 15000]][(i // 4) % 4]} for i in range(n)]
    if ctx.replay and "params" in ctx.replay["witness"]:
        plist = [ctx.replay["witness"]["params"]]
    res.min_evaluations = 0 if ctx.replay else 100000
    res.min_nontrivial = 0 if ctx.replay else ctx.pick(30, 80)
    with core.Build() as b:
        if not ctx.replay:
            drv = b.unit("fwq", ["fwq.c"], objs=[], libs=())
            sh = ctx.jobs
            # shard number sh is the long history: 2^28 forwarded queries (quick; about 15 s beside the other shards) or
            # 2^32 + 2^16 (thorough; every counter of up to 32 bits has wrapped by then, about 4 min)
            nlong = ctx.pick(1 << 28, (1 << 32) + (1 << 16))
            unitrun.run_sharded(res, "C20", drv, sh + 1, lambda i: (["long", nlong, ctx.seed] if i == sh else
                                                                    [i, sh, ctx.pick(7, 8), ctx.pick(4, 5), ctx.seed, ctx.pick(2000, 400000)]),
                                jobs=sh + 1, timeout=3000)
            res.exhaustive = None
        simrun.run_scenarios(res, b, scn, plist, jobs=ctx.jobs)
    simrun.finalize_sets(res)
    return res
