"""C19 - login response follows the documented challenge-response (Engine B, unit/login.c).

The oracle is written from doc/proto_00000502.txt ("16 bytes MD5 hash of: (first 32 bytes of
password) xor (8 repetitions of login challenge)", challenge in network byte order) with Python's
hashlib as the independent MD5.
"""
import hashlib
import random
import struct

from vflib import core, simrun, unitrun

BOUNDARY_SEEDS = [0, 1, 2, 0x7FFFFFFE, 0x7FFFFFFF, 0x80000000, 0x80000001, 0xFFFFFFFE, 0xFFFFFFFF]


def _md5(data):
    try:
        return hashlib.md5(data).digest()
    except ValueError:  # FIPS-restricted builds
        return hashlib.md5(data, usedforsecurity=False).digest()


def oracle(password, seed):
    """password: any bytes; seed: the 32-bit challenge as an integer (any sign)."""
    p = (bytes(password) + bytes(32))[:32]
    s = struct.pack(">I", seed & 0xFFFFFFFF)
    return _md5(bytes(p[i] ^ s[i % 4] for i in range(32)))


def _lenbucket(n):
    if n == 0:
        return "len=0"
    if n < 16:
        return "len=1..15"
    if n < 32:
        return "len=16..31"
    if n == 32:
        return "len=32"
    return "len=33..40"


class Case:
    __slots__ = ("op", "seed", "buf", "plen", "variant", "base", "note", "seedclass")

    def __init__(self, op, seed, buf, plen, variant, seedclass, base=None, note=""):
        self.op = op            # '=', '+', '-'
        self.seed = seed        # unsigned 32-bit challenge as sent to the driver
        self.buf = buf          # bytes handed to login_calculate as `pass` (>= 33 bytes)
        self.plen = plen        # length of the password proper
        self.variant = variant  # base | bitflip | seedflip | extra | raw+1 | raw-1
        self.base = base        # index of the case this one is a variation of
        self.note = note
        self.seedclass = seedclass

    def eff_seed(self):
        return (self.seed + {"=": 0, "+": 1, "-": -1}[self.op]) & 0xFFFFFFFF

    def sig(self):
        pw = self.buf[:self.plen]
        return "%s nul-inside=%d high-bytes=%d seed=%s variant=%s" % (
            _lenbucket(self.plen), int(0 in pw), int(any(b >= 0x80 for b in pw)), self.seedclass, self.variant)

    def witness(self, got=None):
        s = self.eff_seed()
        w = {"op": self.op, "seed": self.seed, "seed_hex": "0x%08x" % self.seed,
             "effective_challenge": "0x%08x" % s, "seed_as_int": s - (1 << 32) if s & 0x80000000 else s,
             "buffer": self.buf.hex(), "password": self.buf[:self.plen].hex(), "password_len": self.plen,
             "variant": self.variant, "note": self.note,
             "expected": oracle(self.buf[:32], s).hex()}
        if got is not None:
            w["got"] = got.hex()
        return w


def _password(rng, n, style):
    if style == 0:
        return rng.randbytes(n)
    if style == 1:    # printable
        return bytes(rng.randrange(0x20, 0x7F) for _ in range(n))
    if style == 2:    # NUL bytes inside
        b = bytearray(rng.randbytes(n))
        for _ in range(1 + n // 8):
            if n:
                b[rng.randrange(n)] = 0
        return bytes(b)
    if style == 3:    # only 0x80..0xff
        return bytes(rng.randrange(0x80, 0x100) for _ in range(n))
    if style == 4:
        return bytes(n)
    if style == 5:
        return b"\xff" * n
    return bytes(rng.randrange(1, 0x80) for _ in range(n))    # 7-bit, no NUL


def _buffer(rng, pw):
    """What a caller passes: the password followed by zeros, 33..48 bytes in total."""
    lo = max(33, len(pw) + 1)
    return pw + bytes(rng.randint(lo, 48) - len(pw))


def gen_cases(rng, nbase, nsens):
    cases = []

    def add(*a, **k):
        cases.append(Case(*a, **k))
        return len(cases) - 1

    # systematic: every length x every boundary seed x three content styles
    for n in range(41):
        for s in BOUNDARY_SEEDS:
            for style in (0, 2, 6):
                add("=", s, _buffer(rng, _password(rng, n, style)), n, "base", "boundary")
        for style in (4, 5):    # all-zero / all-0xff passwords with boundary and random seeds
            pw = _password(rng, n, style)
            for s in BOUNDARY_SEEDS + [rng.getrandbits(32)]:
                add("=", s, _buffer(rng, pw), n, "base", "boundary" if s in BOUNDARY_SEEDS else "random")
    # raw-mode relation at the boundary seeds (and some random ones)
    for n in (0, 1, 8, 31, 32, 33, 40):
        for style in (0, 3):
            pw = _password(rng, n, style)
            buf = _buffer(rng, pw)
            for s in BOUNDARY_SEEDS + [rng.getrandbits(32) for _ in range(4)]:
                sc = "boundary" if s in BOUNDARY_SEEDS else "random"
                b0 = add("=", s, buf, n, "base", sc)
                add("+", s, buf, n, "raw+1", sc, base=b0)
                add("-", s, buf, n, "raw-1", sc, base=b0)
    # sensitivity: every bit of the first 32 buffer bytes and of the seed matters, nothing else does
    for k in range(nsens):
        n = rng.choice((0, 1, 5, 16, 31, 32, 33, 40)) if k % 2 else rng.randint(0, 40)
        pw = _password(rng, n, rng.choice((0, 0, 1, 2, 3, 4, 5, 6)))
        buf = _buffer(rng, pw)
        if k % 3 == 0:
            s, sc = rng.choice(BOUNDARY_SEEDS), "boundary"
        else:
            s, sc = rng.getrandbits(32), "random"
        b0 = add("=", s, buf, n, "base", sc)
        for i in range(32):
            for bit in range(8):
                fb = bytearray(buf)
                fb[i] ^= 1 << bit
                add("=", s, bytes(fb), n, "bitflip", sc, base=b0, note="byte %d bit %d flipped" % (i, bit))
        for bit in range(32):
            add("=", s ^ (1 << bit), buf, n, "seedflip", sc, base=b0, note="seed bit %d flipped" % bit)
        for i in range(32, len(buf)):
            fb = bytearray(buf)
            fb[i] ^= rng.randrange(1, 256)
            add("=", s, bytes(fb), n, "extra", sc, base=b0, note="buffer byte %d changed" % i)
        fb = bytearray(buf)
        fb[32:] = rng.randbytes(len(buf) - 32)
        add("=", s, bytes(fb), n, "extra", sc, base=b0, note="all buffer bytes from 32 on randomised")
    # bulk: random passwords x random / boundary seeds
    for _ in range(nbase):
        n = rng.randint(0, 40)
        pw = _password(rng, n, rng.choice((0, 0, 0, 1, 2, 3, 6)))
        if rng.random() < 0.15:
            s, sc = rng.choice(BOUNDARY_SEEDS), "boundary"
        else:
            s, sc = rng.getrandbits(32), "random"
        add("=", s, _buffer(rng, pw), n, "base", sc)
    return cases


# ---------------------------------------------------------------------------
# Engine A: what the real client puts on the wire, and which raw-login reply it accepts

def scn_wire(params):
    from simnet import mserver, proto, scen
    from simnet.scen import US
    seed = params["seed"]
    pw = bytes.fromhex(params["password_hex"])
    ch = params["challenge"]
    out = {"violations": [], "nontrivial": [], "stats": {"wire_dns_logins": 0, "wire_raw_logins": 0, "wire_raw_replies_judged": 0},
           "evaluations": 0, "sets": {}}
    sim = scen.Sim("c19-%d" % params["idx"], seed)
    try:
        k = sim.k
        mode = params["reply"]          # good | dns-hash | plus1 | bitflip

        nraw = [0]

        given = []           # (number of queries seen so far, challenge, user id) of every version answer handed out
        nlogin = [0]
        refuse = params.get("refuse")       # None | BADIP | LNAK | lost | garbage: how the first login(s) are answered

        def hook(step, q, default, src):
            if step == "V" and default is not None:
                # every version handshake hands out a fresh challenge (as iodined does), sometimes another slot as well
                if given:
                    hs.challenge = (hs.challenge * 1103515245 + 12345 + len(given)) & 0xFFFFFFFF
                    if refuse and params["idx"] % 2:
                        hs.userid = (hs.userid + 1) % 16
                    from simnet import mserver as _ms
                    default = _ms.build_answer(q, b"VACK" + struct.pack(">I", hs.challenge) + bytes([hs.userid]), "T")
                given.append((len(hs.queries), hs.challenge & 0xFFFFFFFF, hs.userid))
                return default
            if step == "L" and default is not None and refuse:
                nlogin[0] += 1
                if nlogin[0] <= params.get("nrefuse", 1):
                    if refuse == "lost":
                        return None
                    from simnet import mserver as _ms
                    return _ms.build_answer(q, {"BADIP": b"BADIP", "LNAK": b"LNAK", "garbage": b"x-y"}[refuse], hs.downenc)
            if step == "RAW" and default is not None:
                nraw[0] += 1
                if nraw[0] <= params.get("drop_raw", 0):
                    return None          # lost on the way: the client has to retransmit its raw login
            if step != "RAW" or default is None or mode == "good":
                return default
            if mode == "dns-hash":
                dg = oracle(pw, ch)
            elif mode == "plus1":
                dg = oracle(pw, ch + 1)
            else:
                b = bytearray(oracle(pw, ch - 1))
                b[params["flip"] // 8] ^= 1 << (params["flip"] % 8)
                dg = bytes(b)
            return proto.raw_frame(proto.RAW_LOGIN, default[3] & 15, dg)

        hs = mserver.HandshakeServer(scen.SERVER_IP, sim.domain, pw, challenge=ch, userid=params["userid"], hook=hook)
        k.add_actor(hs.ip, hs)
        # -P wins over the IODINE_PASS environment variable, and nothing of the latter may leak into the response
        envpw = bytes.fromhex(params.get("env_password_hex", "")).decode("latin1")
        argv = [sim.cli_bin, "-f"] + ([] if params["raw"] else ["-r"]) + ["-T", params["qtype"]]
        stdin_data = None
        if params.get("pw_via", "P") == "P":
            for pv in params.get("earlier_P_hex", []):
                argv += ["-P", bytes.fromhex(pv)]          # an earlier -P that the last one overrides
            argv += ["-P", pw, scen.SERVER_IP, sim.domain]
        else:
            # neither -P nor the environment variable: the password is read from standard input, with or without a final
            # newline before the end of the stream (printf %s "$PW" | iodine ..., a secrets file without trailing newline)
            argv += [scen.SERVER_IP, sim.domain]
            envpw = None                 # unset: an empty IODINE_PASS would be taken as the (empty) password
            stdin_data = pw + (b"\n" if params["pw_via"] == "stdin-nl" else b"") + (b"second line\n" if params["pw_via"] == "stdin-nl" and params["idx"] % 2 else b"")
        tty_keys = None
        if params.get("pw_via") == "tty":
            # typed at the prompt on a terminal, with corrections: a wrong character rubbed out with DEL, or the whole line
            # killed with ^U and typed again; what counts is the line as edited
            stdin_data = None
            r2 = random.Random(params["seed"] ^ 0x77)
            keys = bytearray()
            how = params.get("tty_edit", 0)
            if how == 2:
                keys += bytes(r2.randint(97, 122) for _ in range(r2.randint(1, 6))) + b"\x15"      # junk, then ^U
            for keych in pw:
                if how in (1, 3) and r2.random() < 0.25:
                    keys += bytes([r2.randint(97, 122)]) + b"\x7f"                                     # typo, DEL
                keys.append(keych)
            keys += b"\n"
            tty_keys = bytes(keys)
        c = k.spawn("cli0", "client", argv, ["10.53.1.1"], env={"IODINE_PASS": envpw}, san_env=sim.env, stdin_data=stdin_data,
                    stdin_tty_keys=tty_keys)
        sim.run_until(lambda: sim.client_in_tunnel(c) or not c.alive(), 60 * US)
        k.run(k.now + 3 * US)
        wit = {"seed": seed, "password": pw.hex(), "password_len": len(pw), "challenge": "0x%08x" % ch, "params": params}
        out["sets"]["password_given_via"] = {params.get("pw_via", "P")}
        nd = len(hs.domain)
        # every login the client sent - the first one, retransmissions, logins after a refusal - answers the challenge of the version
        # answer it received last, for the user id given there
        for qi, q in enumerate(hs.queries):
            labels = q.qd[0][0]
            text = b"".join(labels[:len(labels) - nd])
            if text[:1].lower() != b"l":
                continue
            cur = [g for g in given if g[0] <= qi + 1]
            if not cur:
                continue
            _n, cur_ch, cur_uid = cur[-1]
            raw = proto.BASE32.decode(text[1:])
            out["stats"]["wire_dns_logins"] += 1
            out["evaluations"] += 1
            if len(cur) > 1:
                out["stats"]["wire_logins_after_a_second_version_handshake"] = out["stats"].get("wire_logins_after_a_second_version_handshake", 0) + 1
            want = oracle(pw, cur_ch)
            if len(raw) < 17 or raw[1:17] != want or raw[0] != cur_uid:
                out["violations"].append(("C19:wire:login-digest", "the client's login message #%d (user id %d) carries %s, the documented response for password len %d and the challenge it was given last (0x%08x, user id %d) is %s"
                                          % (out["stats"]["wire_dns_logins"], raw[0] if raw else -1, raw[1:17].hex(), len(pw), cur_ch, cur_uid, want.hex()), wit))
                break
        if refuse:
            out["nontrivial"].append(repr(("wire-refused-login", refuse, len(given))))
        if given:
            ch = given[-1][1]            # (raw-mode logins answer the challenge given last)
        rawlog = [d for d in hs.raw_seen if len(d) >= 4 and (d[3] & 0xF0) == proto.RAW_LOGIN]
        if rawlog:
            out["stats"]["wire_raw_logins"] += 1
            out["evaluations"] += 1
            want = oracle(pw, ch + 1)
            for n_, rl in enumerate(rawlog):
                if rl[4:20] != want:
                    out["violations"].append(("C19:wire:raw-login-digest", "raw login #%d carries %s, documented response for challenge+1 is %s"
                                              % (n_ + 1, rl[4:20].hex(), want.hex()), wit))
                    break
            out["stats"]["wire_raw_login_datagrams"] = len(rawlog)
            # did the client accept the server's reply?  after acceptance it never does the DNS-mode negotiation steps
            steps_after = [s for s, _t in hs.steps]
            went_raw = not any(s in ("Z", "S", "O", "R", "N") for s in steps_after) and any(len(d) >= 4 and (d[3] & 0xF0) in (proto.RAW_PING, proto.RAW_DATA) for d in hs.raw_seen)
            out["stats"]["wire_raw_replies_judged"] += 1
            out["evaluations"] += 1
            if mode == "good" and not went_raw and c.alive():
                out["violations"].append(("C19:wire:correct-raw-reply-rejected", "the client did not accept the server's raw login reply MD5(challenge-1) for challenge 0x%08x" % ch, wit))
            if mode != "good" and went_raw:
                out["violations"].append(("C19:wire:wrong-raw-reply-accepted", "the client accepted a raw login reply that is not MD5(challenge-1) (%s)" % mode, wit))
            out["nontrivial"].append(repr(("wire-raw", mode, _lenbucket(len(pw)), went_raw)))
        if out["stats"]["wire_dns_logins"]:
            out["nontrivial"].append(repr(("wire-dns", _lenbucket(len(pw)), params["qtype"], "high" if any(b >= 0x80 for b in pw) else "ascii")))
        h = sim.health(c)
        if h.startswith("sanitizer") or h == "stalled":
            out["inconclusive"] = "client-" + h.split(":")[0]
        if params["idx"] < 2:
            out["sample"] = {"wire": True, "password_len": len(pw), "challenge": "0x%08x" % ch, "raw": params["raw"], "reply": mode,
                             "dns_logins_seen": out["stats"]["wire_dns_logins"], "raw_logins_seen": out["stats"]["wire_raw_logins"]}
        return out
    finally:
        sim.close()


def scn_srv(params):
    """The real server's side of the challenge-response over successive sessions on the same slots: the response to the
    *current* challenge is accepted (login reply), the response to an earlier challenge of that slot and one-bit
    variations are refused (LNAK)."""
    from simnet import mclient, proto, scen
    from simnet.scen import US
    seed = params["seed"]
    rng = random.Random(params["rseed"])
    pw = bytes.fromhex(params["password_hex"])
    out = {"violations": [], "nontrivial": [], "stats": {"srv_logins_correct": 0, "srv_logins_wrong": 0, "srv_slot_reuses": 0},
           "evaluations": 0, "sets": {}}
    sim = scen.Sim("c19s-%d" % params["idx"], seed)
    try:
        k = sim.k
        srv = sim.server(tun=params["tun"], password=pw)
        if not srv.alive():
            out["inconclusive"] = "server-died-at-start"
            return out
        wit = {"seed": seed, "password": pw.hex(), "params": params}
        history = {}          # slot -> challenges handed out so far
        nonlocal_n = [0]
        n = 0
        for rnd in range(params["rounds"]):
            batch = []
            for j in range(rng.randint(1, 3)):
                n += 1
                mc = mclient.ModelClient("10.53.5.%d" % (n % 250 + 1), (scen.SERVER_IP, 53), sim.domain, pw, random.Random(rng.getrandbits(32)),
                                         qtype=rng.choice(list(proto.QTYPES.values())))
                k.add_actor(mc.ip, mc)
                p = mc.version()
                if not p or p[:4] != b"VACK":
                    continue
                old = history.setdefault(mc.userid, [])
                if old:
                    out["stats"]["srv_slot_reuses"] += 1

                def bystanders():
                    # other hosts say hello in between (another protocol version: VNAK; the right one: a slot of their own, or
                    # VFUL when the pool is used up): the response to one's own challenge depends on nothing else
                    for _b in range(rng.choice([0, 0, 1, 1, 2])):
                        nonlocal_n[0] += 1
                        by = mclient.ModelClient("10.53.7.%d" % (nonlocal_n[0] % 250 + 1), (scen.SERVER_IP, 53), sim.domain, pw, random.Random(rng.getrandbits(32)),
                                                 qtype=rng.choice(list(proto.QTYPES.values())))
                        k.add_actor(by.ip, by)
                        pl = by.version(version=rng.choice([proto.PROTOCOL_VERSION, 0x00000501, 0x00000503, 0, 0xFFFFFFFF]))
                        kind_ = (pl or b"none")[:4].decode("latin1")
                        out["stats"]["srv_bystander_" + kind_] = out["stats"].get("srv_bystander_" + kind_, 0) + 1
                if rng.random() < 0.35:
                    # a slow or lossy path: the login gets through a good while after the version handshake (the client
                    # retransmits at +1, +3, +6, +10, +15 s); the challenge it was given is the one its response answers
                    k.run(k.now + rng.choice([6, 9, 14, 30, 50]) * US)
                    out["stats"]["srv_logins_delayed"] = out["stats"].get("srv_logins_delayed", 0) + 1
                bystanders()
                # wrong responses first: an earlier challenge of this slot, neighbours of the challenge, one flipped bit
                wrong = []
                if old:
                    wrong.append(("earlier-challenge", oracle(pw, old[-1])))
                wrong.append(("challenge+1", oracle(pw, mc.challenge + 1)))
                b = bytearray(oracle(pw, mc.challenge))
                b[rng.randrange(16)] ^= 1 << rng.randrange(8)
                wrong.append(("bitflip", bytes(b)))
                for name, dg in wrong:
                    if dg == oracle(pw, mc.challenge) or rng.random() < 0.4:
                        continue
                    r = mc.login(digest=dg)
                    out["stats"]["srv_logins_wrong"] += 1
                    out["evaluations"] += 1
                    if mc.login_reply is not None:
                        out["violations"].append(("C19:server:wrong-response-accepted", "the server accepted a login response computed for %s (slot %d, challenge 0x%08x)"
                                                  % (name, mc.userid, mc.challenge), wit))
                        mc.login_reply = None
                r = mc.login()
                out["stats"]["srv_logins_correct"] += 1
                out["evaluations"] += 1
                if mc.login_reply is None:
                    out["violations"].append(("C19:server:correct-response-rejected", "the server answered %r to the documented response for slot %d, challenge 0x%08x (%d sessions used that slot before)"
                                              % (r, mc.userid, mc.challenge, len(old)), wit))
                if mc.login_reply is not None and rng.random() < 0.5:
                    # the accepted login query comes again with everything the same (record type, cache-miss counter) except the
                    # response, which is wrong: a repeat of an accepted login is still judged by its 16 bytes
                    keep_reply = mc.login_reply
                    mc.login_reply = None
                    mc.cmc = (mc.cmc - 1) & 0xFFFF
                    bad = bytearray(oracle(pw, mc.challenge))
                    bad[rng.randrange(16)] ^= 1 << rng.randrange(8)
                    r2 = mc.login(digest=bytes(bad) if rng.random() < 0.6 else bytes(rng.getrandbits(8) for _ in range(16)))
                    out["stats"]["srv_logins_wrong"] += 1
                    out["stats"]["srv_wrong_repeats_of_an_accepted_login"] = out["stats"].get("srv_wrong_repeats_of_an_accepted_login", 0) + 1
                    out["evaluations"] += 1
                    if mc.login_reply is not None:
                        out["violations"].append(("C19:server:wrong-response-accepted", "after accepting the login of slot %d the server accepted the same login query again with a wrong response (same cache-miss counter, challenge 0x%08x)"
                                                  % (mc.userid, mc.challenge), wit))
                    mc.login_reply = keep_reply
                old.append(mc.challenge)
                batch.append(mc)
                if mc.login_reply is not None and rng.random() < 0.5:
                    # raw-mode login, repeated (the client retransmits when the reply is lost; datagrams get duplicated): every
                    # reply must be the documented MD5(password xor (challenge-1)); a wrong response gets none
                    if rng.random() < 0.3:
                        n0 = len(mc.raw_in)
                        mc.raw_login(digest=oracle(pw, mc.challenge))         # the DNS-login response is not the raw one
                        k.run(k.now + 20000)
                        out["stats"]["srv_raw_logins_wrong"] = out["stats"].get("srv_raw_logins_wrong", 0) + 1
                        if len(mc.raw_in) > n0:
                            out["violations"].append(("C19:server:wrong-raw-response-accepted", "the server replied to a raw login carrying the response for challenge+0 (slot %d)" % mc.userid, wit))
                    for rep in range(rng.randint(1, 4)):
                        bystanders()
                        n0 = len(mc.raw_in)
                        mc.raw_login()
                        k.run(k.now + rng.choice([5000, 20000, 1000000]))
                        out["stats"]["srv_raw_logins_correct"] = out["stats"].get("srv_raw_logins_correct", 0) + 1
                        out["evaluations"] += 1
                        got = [d for (_t, _s, d) in mc.raw_in[n0:]]
                        want = proto.raw_frame(proto.RAW_LOGIN, mc.userid, oracle(pw, (mc.challenge - 1) & 0xFFFFFFFF))
                        if got != [want]:
                            out["violations"].append(("C19:server:raw-login-reply", "raw login #%d of slot %d (challenge 0x%08x) was answered with %s, the documented reply is %s"
                                                      % (rep + 1, mc.userid, mc.challenge, [g.hex()[:48] for g in got] or "nothing", want.hex()), wit))
                            break
            # everybody falls silent; the slots become reusable
            k.run(k.now + rng.choice([61, 62, 70]) * US)
        if out["stats"]["srv_slot_reuses"]:
            out["nontrivial"].append(repr(("server-side", _lenbucket(len(pw)), params["tun"].split("/")[1], min(out["stats"]["srv_slot_reuses"], 5))))
        if params["idx"] < 1:
            out["sample"] = {"server_side": True, "password_len": len(pw), "stats": dict(out["stats"])}
        return out
    finally:
        sim.close()


def wire_params(ctx, rng):
    n = ctx.pick(320, 20000)
    plist = []
    lens = list(range(1, 41))
    for i in range(n):
        ln = lens[i % 40] if i < 80 else rng.choice([1, 8, 16, 31, 32, 32, 33, 40])
        style = rng.randrange(3)
        if style == 0:
            pw = bytes(rng.randint(33, 126) for _ in range(ln))
            if ln >= 3 and rng.random() < 0.4:
                # a pass phrase: blanks and tabs inside (never at the ends: scanf-style input would be ambiguous there)
                b = bytearray(pw)
                for _ in range(rng.randint(1, 3)):
                    b[rng.randrange(1, ln - 1)] = rng.choice([32, 32, 9])
                pw = bytes(b)
        elif style == 1:
            pw = bytes(rng.randint(0x80, 0xFF) for _ in range(ln))
        else:
            pw = bytes(rng.randint(1, 255) for _ in range(ln))
        plist.append({"idx": i, "seed": ctx.seed * 100000 + i, "password_hex": pw.hex(),
                      "challenge": rng.choice(BOUNDARY_SEEDS + [rng.getrandbits(32)] * 6), "userid": rng.choice([0, 3, 15]),
                      "env_password_hex": (bytes(rng.randint(33, 126) for _ in range(rng.choice([8, 20, 32, 40]))).hex() if rng.random() < 0.3 else ""),
                      "earlier_P_hex": ([bytes(rng.randint(33, 126) for _ in range(rng.choice([12, 32]))).hex()] if rng.random() < 0.15 else []),
                      "raw": i % 2 == 0, "drop_raw": rng.choice([0, 0, 1, 2, 3]), "reply": rng.choice(["good", "good", "dns-hash", "plus1", "bitflip"]), "flip": rng.randrange(128),
                      "qtype": rng.choice(["NULL", "TXT", "CNAME", "MX"]),
                      "pw_via": (rng.choice(["stdin-nl", "stdin-nonl", "stdin-nonl"]) if style == 0 and rng.random() < 0.4 else "P"),
                      "tty_edit": i % 4, "refuse": [None, None, None, "BADIP", "lost", "LNAK", "garbage", "BADIP"][i % 8], "nrefuse": 1 + (i // 8) % 3})
        if style == 0 and i % 16 == 5 and b" " not in pw and b"\t" not in pw:
            plist[-1]["pw_via"] = "tty"
    return plist


def run(ctx):
    res = core.Result()
    res.rule = ("login_calculate(out,16,pass,seed) from the sanitizer-built login.o+md5.o, fed through an exact-size heap "
                "buffer (33..48 bytes: password then zeros) at varying alignment, compared byte for byte with "
                "hashlib.md5(bytes(p[i] ^ pack('>I',seed)[i%4] for i<32)), p = password zero-padded/truncated to 32 bytes. "
                "Passwords of every length 0..40 (random bytes, printable, NULs inside, 0x80..0xff only, all-zero, all-0xff) x "
                "seeds {0,1,2,0x7ffffffe,0x7fffffff,0x80000000,0x80000001,0xfffffffe,0xffffffff} + seeded random seeds. "
                "Sensitivity on sampled cases: each single-bit flip of each of the first 32 buffer bytes and of the seed must "
                "change the digest; changing buffer bytes at index >= 32 must not; prior contents of the output buffer must not; "
                "buflen < 16 must write nothing. Raw mode: the call with (uint32)seed+1 / -1 (computed unsigned in the driver) "
                "must equal the oracle for challenge+-1 mod 2^32. distinct_nontrivial = distinct (length bucket, NUL inside, "
                "high bytes, seed class, variant) classes whose comparison succeeded.")
    res.assumptions = [
        "Python hashlib MD5 is the independent reference implementation",
        "challenge is applied big-endian (network byte order) as in doc/proto_00000502.txt and the 0x00000502 peers",
        "callers hand login_calculate at least 32 readable bytes (char password[33], zero padded) - shorter buffers are not generated",
        "the callers' own signed seed+1 / seed-1 arithmetic is out of scope here (computed unsigned in the driver)",
    ]
    res.min_nontrivial = 40
    nbase = ctx.pick(20000, 1000000)
    nsens = ctx.pick(24, 240)
    rng = random.Random((ctx.seed * 2654435761) ^ 0xC19)

    if ctx.replay:
        w = ctx.replay.get("witness") or {}
        try:
            buf = bytes.fromhex(w["buffer"])
            cases = [Case(w.get("op", "="), int(w["seed"]) & 0xFFFFFFFF, buf, int(w.get("password_len", 32)),
                          w.get("variant", "base"), "replay")]
            # a variant is replayed against the oracle only; add the unmodified neighbour cases for context
            for bit in range(8):
                fb = bytearray(buf)
                fb[31] ^= 1 << bit
                cases.append(Case("=", cases[0].seed, bytes(fb), cases[0].plen, "bitflip", "replay", base=0,
                                  note="byte 31 bit %d flipped" % bit))
        except (KeyError, ValueError) as e:
            raise core.HarnessError("C19 replay: witness lacks buffer/seed (%s)" % e)
        res.min_nontrivial = 0
    else:
        cases = gen_cases(rng, nbase, nsens)
        if len(cases) > nbase + 400 * nsens + 6000:
            raise core.HarnessError("C19: case generator produced %d cases" % len(cases))

    sh = ctx.jobs if len(cases) >= 64 else 1
    shard_cases = [[] for _ in range(sh)]
    for k in range(len(cases)):
        shard_cases[k % sh].append(k)

    def input_for(i):
        return "".join("%s %d %s\n" % (cases[k].op, cases[k].seed, cases[k].buf.hex()) for k in shard_cases[i]).encode()

    wire_res = core.Result()
    with core.Build() as b:
        drv = b.unit("login", ["login.c"], objs=["login", "md5"], libs=())
        results = unitrun.run_sharded(res, "C19", drv, sh, lambda i: [], input_for=input_for, jobs=ctx.jobs)
        if not ctx.replay:
            simrun.run_scenarios(wire_res, b, scn_wire, wire_params(ctx, random.Random(ctx.seed * 77 + 19)), jobs=ctx.jobs)
            r2 = random.Random(ctx.seed * 79 + 19)
            sp = [{"idx": i, "seed": ctx.seed * 100000 + 50000 + i, "rseed": r2.getrandbits(32), "rounds": r2.randint(3, 6),
                   "password_hex": bytes(r2.randint(1, 255) for _ in range(r2.choice([1, 8, 31, 32]))).hex(),
                   "tun": r2.choice(["10.9.0.1/24", "10.9.0.2/30", "10.9.0.1/29"])} for i in range(ctx.pick(48, 1500))]
            simrun.run_scenarios(wire_res, b, scn_srv, sp, jobs=ctx.jobs)
        elif "params" in (ctx.replay.get("witness") or {}):
            simrun.run_scenarios(wire_res, b, scn_wire, [ctx.replay["witness"]["params"]], jobs=1)

    got = [None] * len(cases)
    for i, rc, out, _err, _logdir in results:
        for raw in out.split(b"\n"):
            if raw[:2] != b"D ":
                continue
            parts = raw.split()
            try:
                local, dig = int(parts[1]), bytes.fromhex(parts[2].decode())
            except (IndexError, ValueError):
                res.harness_errors.append("unparsable driver line %r" % raw[:80])
                continue
            if local >= len(shard_cases[i]) or len(dig) != 16:
                res.harness_errors.append("driver answered case %d of %d in shard %d" % (local, len(shard_cases[i]), i))
                continue
            got[shard_cases[i][local]] = dig
        missing = sum(1 for k in shard_cases[i] if got[k] is None)
        if missing and rc == 0:
            res.harness_errors.append("shard %d: %d of %d cases unanswered although the driver exited 0"
                                      % (i, missing, len(shard_cases[i])))
        elif missing:
            for _ in range(missing):
                res.inconc("driver stopped before this case")

    compared = 0
    by_variant = {}
    for k, c in enumerate(cases):
        g = got[k]
        if g is None:
            continue
        compared += 1
        ok = True
        want = oracle(c.buf[:32], c.eff_seed())
        if g != want:
            ok = False
            res.violate("C19:digest-mismatch",
                        "login_calculate(password=%s (len %d), challenge=0x%08x%s) = %s, documented response is %s"
                        % (c.buf[:c.plen].hex() or "(empty)", c.plen, c.eff_seed(),
                           " [%s]" % c.variant if c.variant != "base" else "", g.hex(), want.hex()),
                        dict(c.witness(g), tier=ctx.tier, **{"seed_of_run": ctx.seed}))
        if c.base is not None and got[c.base] is not None:
            bg = got[c.base]
            if c.variant == "bitflip" and g == bg:
                ok = False
                res.violate("C19:insensitive-to-byte",
                            "digest unchanged (%s) after %s of the first 32 password bytes; password=%s challenge=0x%08x"
                            % (g.hex(), c.note, cases[c.base].buf[:32].hex(), c.eff_seed()),
                            dict(c.witness(g), base_buffer=cases[c.base].buf.hex(), base_digest=bg.hex()))
            elif c.variant == "seedflip" and g == bg:
                ok = False
                res.violate("C19:insensitive-to-seed-bit",
                            "digest unchanged (%s) after %s; password=%s challenge 0x%08x vs 0x%08x"
                            % (g.hex(), c.note, c.buf[:32].hex(), cases[c.base].eff_seed(), c.eff_seed()),
                            dict(c.witness(g), base_seed=cases[c.base].seed, base_digest=bg.hex()))
            elif c.variant == "extra" and g != bg:
                ok = False
                res.violate("C19:depends-on-extra",
                            "digest changed from %s to %s although only %s; buffer=%s challenge=0x%08x"
                            % (bg.hex(), g.hex(), c.note, c.buf.hex(), c.eff_seed()),
                            dict(c.witness(g), base_buffer=cases[c.base].buf.hex(), base_digest=bg.hex()))
            elif c.variant in ("raw+1", "raw-1") and g == bg:
                ok = False
                res.violate("C19:raw-same-as-dns-login",
                            "raw-mode response (%s) equals the plain login response %s; password=%s challenge=0x%08x"
                            % (c.variant, g.hex(), c.buf[:32].hex(), cases[c.base].eff_seed()),
                            dict(c.witness(g), base_digest=bg.hex()))
        if ok:
            res.nt(c.sig())
            by_variant[c.variant] = by_variant.get(c.variant, 0) + 1
            if c.variant == "base" and c.seed > 2 and c.plen in (0, 7, 32, 40) and len(res.samples) < 5 and \
                    not any(("len=%d " % c.plen) in s or ("seed=0x%08x " % c.seed) in s for s in res.samples):
                res.sample("password=%s len=%d seed=0x%08x (int %d) -> %s"
                           % (c.buf[:c.plen].hex() or "(empty)", c.plen, c.seed, c.witness()["seed_as_int"], g.hex()))
    # the driver reported E <cases executed>; make sure that is what was compared
    if not ctx.replay and compared != res.evaluations and not res.violations and not res.inconclusive and not wire_res.violations:
        res.harness_errors.append("driver executed %d cases, %d digests compared" % (res.evaluations, compared))
    res.evaluations = compared + wire_res.evaluations
    res.violations += wire_res.violations
    res.harness_errors += wire_res.harness_errors
    for sig in wire_res.nontrivial:
        res.nt(sig)
    for kk, vv in wire_res.extra.items():
        res.extra[kk] = vv
    for sm in wire_res.samples[:2]:
        res.samples.append(sm)
    res.inconclusive += wire_res.inconclusive
    for v, n in sorted(by_variant.items()):
        res.extra["confirmed_" + v] = n
    res.exhaustive = False
    res.extra["exhaustive_subspace"] = ("every password length 0..40 x every boundary seed %s (3 content styles + all-zero + all-0xff); "
                                        "every single-bit flip of the first 32 bytes and of the seed for %d sampled cases"
                                        % (["0x%x" % s for s in BOUNDARY_SEEDS], nsens))
    return res
