"""C08 - upstream query names are legal, within the limit, and decode to what was sent
(Engine B, unit/upname_main.c + upname_cli.c + upname_srv.c)."""
import re

from vflib import core, unitrun

WRAPS = ["sendto", "recvmsg", "write", "syslog", "__syslog_chk", "dns_encode", "build_hostname", "unpack_data"]
OBJS = core.COMMON_OBJS + ["user", "fw_query", "util"]


def n_pairs():
    return sum(min(128, L - 24) - 3 + 1 for L in range(100, 256))


def scn_names(params):
    """Engine A: the real client started with -M L (options in any order, with and without -m) through the whole handshake and
    some upstream traffic against the real server: every query name it emits is a legal name of at most L characters that
    ends in the tunnel domain."""
    import random
    from simnet import proto, scen, tunnelscn
    from simnet.scen import US
    cfg = params["cfg"]
    seed = params["seed"]
    out = {"violations": [], "nontrivial": [], "stats": {"client_queries_checked": 0}, "evaluations": 0, "sets": {}}

    def plan(t, sim, rng):
        k = sim.k
        tt = k.now + US // 2
        for i in range(10):
            fr = tunnelscn.pick_frame(t, rng, "cli", (params["idx"] << 20) | (i + 1), 0, sizes=[100, 600, 1000, 1134])
            k.at(tt, k.offer_tun, t.clients[0].name, fr, i + 1)
            tt += rng.choice([200000, 900000])
        return tt + 6 * US

    t = tunnelscn.run_tunnel("c08n-%d" % params["idx"], cfg, seed, plan)
    try:
        k = t.sim.k
        L = min(cfg["M"], 255)      # (-M beyond 255 means 255)
        dl = [x.lower() for x in proto.labels_from_dotted(t.sim.domain.encode())]
        longest = 0
        for ev in k.log:
            if ev[1] != "send" or ev[2] != "cli0":
                continue
            d = ev[3]["data"]
            if d[:3] == proto.RAW_MAGIC:
                continue
            try:
                labels, _off = proto.read_name(d, 12)
            except proto.ParseError:
                continue            # C10 judges well-formedness
            n = sum(len(x) for x in labels) + max(len(labels) - 1, 0)
            if not labels or labels[0][:1].lower() not in b"0123456789abcdefrpvln":
                # the limit is stated for data chunks, fragment-size probes, pings and the version / login / set-fragment-size
                # messages; the fixed test patterns of the codec checks (z, y) and the short s / o / i requests are not in it
                out["stats"]["client_queries_outside_the_statement"] = out["stats"].get("client_queries_outside_the_statement", 0) + 1
                continue
            out["stats"]["client_queries_checked"] += 1
            out["evaluations"] += 1
            longest = max(longest, n)
            if n > L:
                out["violations"].append(("C08:name-over-L:real-client", "the client, started with %s, sent a query name of %d characters (limit %d): %s..."
                                          % (" ".join(tunnelscn.client_opts(cfg)), n, L, b".".join(labels)[:40].decode("latin1")),
                                          {"seed": seed, "cfg": cfg, "time_us": ev[0]}))
                break
            if [x.lower() for x in labels[-len(dl):]] != dl:
                out["violations"].append(("C08:domain-suffix:real-client", "query name does not end in the tunnel domain", {"seed": seed, "cfg": cfg}))
                break
        if not t.ok and not out["violations"] and not (cfg.get("probe_blackhole") and out["stats"]["client_queries_checked"] > 5):
            # (on a path that answers no probe the client is expected to give up; the names it sent until then were judged)
            out["inconclusive"] = (t.why or "?").split(":")[0]
            return out
        if out["stats"]["client_queries_checked"] > 20:
            out["nontrivial"].append(repr(("real-client", L, cfg["m"] is not None, cfg.get("opt_shuffle") is not None, longest > L - 8)))
        if params["idx"] < 2:
            out["sample"] = {"engine": "A", "options": tunnelscn.client_opts(cfg), "longest_name": longest, "limit": L}
        return out
    finally:
        t.sim.close()


def run(ctx):
    res = core.Result()
    res.rule = (
        "The tree's client.c and iodined.c are compiled as text into one sanitizer-built driver. For every hostname limit "
        "L in 100..255 x every tunnel-domain length d in 3..min(128, L-24) x all four upstream codecs (thorough: every "
        "triple; quick: every L with d in {3,4,5,10,57,58,63,64,65,100,127,128,L-24,L-25} plus a seeded third of the other "
        "d) a seeded domain of exactly d characters (labels of 1..63 letters/digits/'-', six label-size styles incl. runs "
        "of 63-byte and 1-byte labels) is served as itself, case-flipped, or (1 in 3) as the wildcard '*.<rest>'. A "
        "session is opened with real send_version + send_login messages on a seeded user slot 0..15 with EDNS0 on or "
        "off; then send_ping, send_fragsize_probe, data payloads of lengths {2048, 1, 2, 3, blockraw-1, blockraw, "
        "blockraw+1, name capacity-1, capacity, capacity+1, 200} x contents {0x00.., 0xFF.., random}, each sent by "
        "send_chunk as a chunk sequence (ack = offset += sentlen, fragment++; at most 15 chunks), and "
        "send_set_downstream_fragsize. Every datagram captured from sendto() is checked by an independent RFC 1035 walk "
        "(12-byte header, QDCOUNT 1, labels 1..63, no compression, <= 255 bytes on the wire, dotted length <= L, last "
        "labels byte-equal to the tunnel domain, type/class, OPT record iff EDNS0, no stray bytes) and the host-name text "
        "handed to dns_encode() by the same rules; the same bytes are fed to the server's tunnel_dns() through a "
        "redirected recvmsg(). Data: 1 <= outpkt.sentlen <= remaining and the bytes appended to users[uid].inpacket == "
        "payload[off..off+sentlen). Other kinds: build_hostname()'s reported length is 1..len, the server's unpack_data() "
        "output is exactly that prefix, and the server's reaction is VACK / the address line / fragsize stored / a 2-byte "
        "data header with the query's id / a probe answer of the requested size. distinct_nontrivial = distinct (codec, "
        "L mod 8, domain length mod 8, chunks needed) payload classes that passed every check, plus the message kinds and "
        "(served-domain form, EDNS0) session classes that passed.")
    res.assumptions = [
        "query type NULL throughout (the name construction does not depend on the query type)",
        "server started with -c (check_ip off), password set, 10.9.0.1/24; slot choice is steered by marking lower slots busy",
        "the upstream codec is switched by calling user_switch_codec()/assigning dataenc (what the 'S' handshake does on both ends); "
        "Base32 sessions do not switch (the real client sends no 'S' then) and so depend on the version handshake resetting a "
        "slot that earlier sessions of the same process left on another codec",
        "login: when L - domain length < 39 the 19-byte login message cannot fit one name; the property only promises a "
        "non-empty, correctly reported prefix, so there the check demands exactly that (server extracts the reported "
        "prefix) and opens the session administratively; counted in coverage.login_prefix_only",
        "a compressed packet that happens to be complete is discarded by the server (payloads are not zlib streams); "
        "the extraction is read from the reassembly buffer, which keeps the bytes",
    ]
    # measured: quick 3081..3097 classes / 2.55M..2.59M names, thorough 3139 / 6.45M
    res.min_nontrivial = 2000
    res.min_evaluations = 1500000
    with core.Build() as b:
        drv = b.unit("upname", ["upname_main.c", "upname_cli.c", "upname_srv.c"], objs=OBJS, wraps=WRAPS)
        sh = ctx.jobs
        if ctx.replay:
            wit = ctx.replay.get("witness") or {}
            text = str(wit.get("driver_output", ""))
            m = re.search(r"L=(\d+) domlen=(\d+) codec=(\d)\S* seed=(\d+)", text)
            if not m:
                raise core.HarnessError("C08 replay: witness has no 'L=<n> domlen=<n> codec=<n> seed=<n>'")
            res.min_nontrivial = 0
            res.min_evaluations = 1
            unitrun.run_sharded(res, "C08", drv, 1, lambda i: ["one", m.group(1), m.group(2), m.group(3), m.group(4)], jobs=1)
            return res
        unitrun.run_sharded(res, "C08", drv, sh, lambda i: ["run", i, sh, ctx.seed, ctx.tier], jobs=sh, timeout=1500)
        if not ctx.replay:
            import random
            from vflib import simrun
            from simnet import tunnelscn
            rng = random.Random(ctx.seed * 811 + 8)
            plist = []
            for i in range(ctx.pick(48, 3000)):
                cfg = tunnelscn.gen_config(rng, i + ctx.seed, faults=False, nclients_max=1, allow_raw=False)
                cfg.update(M=rng.choice([100, 120, 150, 200, 254, 255]), m=rng.choice([None, 100, 600, 1100]), pred=False,
                           opt_shuffle=rng.getrandbits(16))
                if cfg["qtype"] in ("CNAME", "A") and cfg["m"] and cfg["m"] > 100:
                    cfg["m"] = 100
                if i % 4 == 1:
                    # longer tunnel domains (up to L - 24 characters) and numbers written the way scripts write them
                    lab = lambda n: "".join(rng.choice("abcdefghijklmnopqrstuvwxyz0123456789") for _ in range(n))
                    dlen = rng.choice([40, 57, 60, 70, 76]) if cfg["M"] < 150 else rng.choice([57, 76, 100, 120])
                    dlen = min(dlen, cfg["M"] - 24, 128)
                    parts, left = [], dlen - 4
                    while left > 0:
                        n_ = min(left, rng.choice([20, 40, 63]))
                        if left - n_ == 1:
                            n_ -= 1
                        parts.append(lab(max(1, n_)))
                        left -= n_ + 1
                    cfg["domain"] = ".".join(parts + ["org"])
                    cfg["M_spelling"] = rng.choice(["0%d", "00%d", "%d", "+%d", " %d"]) % cfg["M"]
                if i % 6 == 5:
                    # a path on which every fragment-size probe goes unanswered: whatever the client tries next, its names stay
                    # within the limit it was given
                    cfg.update(probe_blackhole=True, m=None, raw=False)
                plist.append({"idx": i, "seed": ctx.seed * 100000 + i, "cfg": cfg})
            sysres = core.Result()
            simrun.run_scenarios(sysres, b, scn_names, plist, jobs=ctx.jobs)
            simrun.finalize_sets(sysres)
            res.violations += sysres.violations
            res.harness_errors += sysres.harness_errors
            res.evaluations += sysres.evaluations
            res.inconclusive += sysres.inconclusive
            for kk, vv in sysres.inconclusive_why.items():
                res.inconclusive_why[kk] = res.inconclusive_why.get(kk, 0) + vv
            for sig in sysres.nontrivial:
                res.nt(sig)
            for kk, vv in sysres.extra.items():
                res.extra["engine_a_" + kk] = vv
            res.samples += sysres.samples[:2]
    for v in res.violations:
        if isinstance(v.witness, dict):
            v.witness.setdefault("seed", ctx.seed)
    for k in ("built_name_text_seen", "builder_reports_seen", "server_extractions_seen"):
        if not res.extra.get(k):
            res.harness_errors.append("redirected entry point never fired (%s == 0): part of the oracle did not run" % k)
    total = n_pairs()
    res.extra["domain_pairs_total"] = total
    # domains, slots and payload contents are sampled, so the property's whole input space is never exhausted;
    # what the thorough tier does exhaust is the (L, domain length, codec) grid named by the quantifier
    res.exhaustive = False
    if ctx.thorough:
        res.extra["triples_exhaustive"] = bool(res.extra.get("domain_pairs_run") == total and not res.inconclusive)
        res.extra["exhaustive_subspace"] = (
            "every (L, domain length, codec) triple: L 100..255 x d 3..min(128, L-24) x 4 codecs = %d triples; one seeded "
            "domain, slot, EDNS0 setting and payload set per triple" % (4 * total))
        if res.extra.get("domain_pairs_run") != total and not res.inconclusive and not res.violations:
            res.harness_errors.append("thorough tier ran %s of %d (L, d) pairs" % (res.extra.get("domain_pairs_run"), total))
    else:
        res.extra["exhaustive_subspace"] = (
            "every L 100..255 x d in {3,4,5,10,57,58,63,64,65,100,127,128,L-24,L-25} (where legal) x 4 codecs; the other "
            "d are a seeded third")
    return res
