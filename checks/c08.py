"""C08 - upstream query names are legal, within the limit, and decode to what was sent
(Engine B, unit/upname_main.c + upname_cli.c + upname_srv.c)."""
import re

from vflib import core, unitrun

WRAPS = ["sendto", "recvmsg", "write", "syslog", "__syslog_chk", "dns_encode", "build_hostname", "unpack_data"]
OBJS = core.COMMON_OBJS + ["user", "fw_query", "util"]


def n_pairs():
    return sum(min(128, L - 24) - 3 + 1 for L in range(100, 256))


def run(ctx):
    res = core.Result()
    res.rule = (
        "The tree's client.c and iodined.c are compiled as text into one sanitizer-built driver. For every hostname limit "
        "L in 100..255 x every tunnel-domain length d in 3..min(128, L-24) x all four upstream codecs (thorough: every "
        "triple; quick: every L with d in {3,4,5,10,57,58,63,64,65,100,127,128,L-24,L-25} plus a seeded third of the other "
        "d) a seeded domain of exactly d characters (labels of 1..63 letters/digits/'-', six label-size styles incl. runs "
        "of 63-byte and 1-byte labels) is served as itself, case-flipped, or (1 in 3) as the wildcard '*.<rest>'. A "
        "session is opened with real send_version + send_login messages on a seeded user slot 0..15 with EDNS0 on or "
        "off; then send_ping, send_fragsize_probe, data payloads of lengths {2048, 1, 2, 3, blockraw-1, blockraw, "
        "blockraw+1, name capacity-1, capacity, capacity+1, 200} x contents {0x00.., 0xFF.., random}, each sent by "
        "send_chunk as a chunk sequence (ack = offset += sentlen, fragment++; at most 15 chunks), and "
        "send_set_downstream_fragsize. Every datagram captured from sendto() is checked by an independent RFC 1035 walk "
        "(12-byte header, QDCOUNT 1, labels 1..63, no compression, <= 255 bytes on the wire, dotted length <= L, last "
        "labels byte-equal to the tunnel domain, type/class, OPT record iff EDNS0, no stray bytes) and the host-name text "
        "handed to dns_encode() by the same rules; the same bytes are fed to the server's tunnel_dns() through a "
        "redirected recvmsg(). Data: 1 <= outpkt.sentlen <= remaining and the bytes appended to users[uid].inpacket == "
        "payload[off..off+sentlen). Other kinds: build_hostname()'s reported length is 1..len, the server's unpack_data() "
        "output is exactly that prefix, and the server's reaction is VACK / the address line / fragsize stored / a 2-byte "
        "data header with the query's id / a probe answer of the requested size. distinct_nontrivial = distinct (codec, "
        "L mod 8, domain length mod 8, chunks needed) payload classes that passed every check, plus the message kinds and "
        "(served-domain form, EDNS0) session classes that passed.")
    res.assumptions = [
        "query type NULL throughout (the name construction does not depend on the query type)",
        "server started with -c (check_ip off), password set, 10.9.0.1/24; slot choice is steered by marking lower slots busy",
        "the upstream codec is switched by calling user_switch_codec()/assigning dataenc (what the 'S' handshake does on both ends); "
        "Base32 sessions do not switch (the real client sends no 'S' then) and so depend on the version handshake resetting a "
        "slot that earlier sessions of the same process left on another codec",
        "login: when L - domain length < 39 the 19-byte login message cannot fit one name; the property only promises a "
        "non-empty, correctly reported prefix, so there the check demands exactly that (server extracts the reported "
        "prefix) and opens the session administratively; counted in coverage.login_prefix_only",
        "a compressed packet that happens to be complete is discarded by the server (payloads are not zlib streams); "
        "the extraction is read from the reassembly buffer, which keeps the bytes",
    ]
    # measured: quick 3081..3097 classes / 2.55M..2.59M names, thorough 3139 / 6.45M
    res.min_nontrivial = 2000
    res.min_evaluations = 1500000
    with core.Build() as b:
        drv = b.unit("upname", ["upname_main.c", "upname_cli.c", "upname_srv.c"], objs=OBJS, wraps=WRAPS)
        sh = ctx.jobs
        if ctx.replay:
            wit = ctx.replay.get("witness") or {}
            text = str(wit.get("driver_output", ""))
            m = re.search(r"L=(\d+) domlen=(\d+) codec=(\d)\S* seed=(\d+)", text)
            if not m:
                raise core.HarnessError("C08 replay: witness has no 'L=<n> domlen=<n> codec=<n> seed=<n>'")
            res.min_nontrivial = 0
            res.min_evaluations = 1
            unitrun.run_sharded(res, "C08", drv, 1, lambda i: ["one", m.group(1), m.group(2), m.group(3), m.group(4)], jobs=1)
            return res
        unitrun.run_sharded(res, "C08", drv, sh, lambda i: ["run", i, sh, ctx.seed, ctx.tier], jobs=sh, timeout=1500)
    for v in res.violations:
        if isinstance(v.witness, dict):
            v.witness.setdefault("seed", ctx.seed)
    for k in ("built_name_text_seen", "builder_reports_seen", "server_extractions_seen"):
        if not res.extra.get(k):
            res.harness_errors.append("redirected entry point never fired (%s == 0): part of the oracle did not run" % k)
    total = n_pairs()
    res.extra["domain_pairs_total"] = total
    # domains, slots and payload contents are sampled, so the property's whole input space is never exhausted;
    # what the thorough tier does exhaust is the (L, domain length, codec) grid named by the quantifier
    res.exhaustive = False
    if ctx.thorough:
        res.extra["triples_exhaustive"] = bool(res.extra.get("domain_pairs_run") == total and not res.inconclusive)
        res.extra["exhaustive_subspace"] = (
            "every (L, domain length, codec) triple: L 100..255 x d 3..min(128, L-24) x 4 codecs = %d triples; one seeded "
            "domain, slot, EDNS0 setting and payload set per triple" % (4 * total))
        if res.extra.get("domain_pairs_run") != total and not res.inconclusive and not res.violations:
            res.harness_errors.append("thorough tier ran %s of %d (L, d) pairs" % (res.extra.get("domain_pairs_run"), total))
    else:
        res.extra["exhaustive_subspace"] = (
            "every L 100..255 x d in {3,4,5,10,57,58,63,64,65,100,127,128,L-24,L-25} (where legal) x 4 codecs; the other "
            "d are a seeded third")
    return res
