"""C07 - codecs lossless, alphabet-pure, capacity-exact (Engine B, unit/codec.c)."""
from vflib import core, unitrun


def run(ctx):
    res = core.Result()
    res.rule = ("base32/64/64u/128 encode+decode through exact-size heap buffers under ASan/UBSan; "
                "cases: (a) every input of length 0..2 x every capacity 0..needed+2 (exhaustive), "
                "(b) every adjacent byte pair at every block position with random surroundings, "
                "(c) every length 0..maxlen x 6 content styles x capacity sweep + chunked reassembly. "
                "distinct_nontrivial = distinct (codec, len mod raw block, capacity mod encoded block, truncated?) "
                "classes whose checks all passed.")
    res.assumptions = ["alphabet membership taken from doc/proto_00000502.txt; symbol order not asserted",
                       "ASan red zones detect writes past capacity+1 and reads past the input"]
    res.min_nontrivial = 40
    with core.Build() as b:
        drv = b.unit("codec", ["codec.c"], objs=["base32", "base64", "base64u", "base128", "encoding"], libs=())
        sh = ctx.jobs
        maxlen = ctx.pick(700, 4096)
        if ctx.replay:
            maxlen = 4096
        unitrun.run_sharded(res, "C07", drv, sh, lambda i: ["small", i, sh, ctx.seed, maxlen])
        unitrun.run_sharded(res, "C07", drv, sh, lambda i: ["lengths", i, sh, ctx.seed, maxlen])
        if ctx.thorough or ctx.replay:
            unitrun.run_sharded(res, "C07", drv, sh, lambda i: ["pairs", i, sh, ctx.seed, maxlen])
        else:
            # quick: a seeded quarter of the pair space
            unitrun.run_sharded(res, "C07", drv, sh, lambda i: ["pairs", (i + ctx.seed) % (4 * sh), 4 * sh, ctx.seed, maxlen])
    res.exhaustive = False
    res.extra["exhaustive_subspace"] = "all inputs of length 0..2 x all capacities (mode small)"
    return res
