"""C13 - only validated numbers reach the shell (Engine A: system() boundary monitor)."""
import random
import re

from vflib import core, simrun
from simnet import mserver, proto, scen
from simnet.scen import US

QTS = ["NULL", "PRIVATE", "TXT", "SRV", "MX", "CNAME", "A"]
META = [b" ", b"\t", b"\n", b";", b"|", b"&", b"$(reboot)", b"`reboot`", b"'", b'"', b">", b"<", b"#", b"\\", b"\x00",
        b"\xff\xfe", b"*", b"?", b"~", b"!", b"{a,b}", b"%s%n", b"$IFS", b"\r"]
ADDR_ODD = [b"1.2.3", b"0x7f.1", b"010.1.1.1", b"1.2.3.4 x", b"1.2.3.4\t", b"1", b"1.2.3.4.5", b"256.1.1.1", b"1.2.3.256",
            b"1..2.3", b".1.2.3", b"1.2.3.", b"a.b.c.d", b"", b"4294967295", b"0377.0377.0377.0377", b"1.2.3.4;", b" 1.2.3.4",
            b"127.1", b"1.2.3.-4", b"+1.2.3.4", b"1.2.3.4/8", b"::1", b"1.2.3.4%eth0"]
NUMS = [b"-1", b"0", b"200", b"201", b"1500", b"1501", b"2147483647", b"2147483648", b"4294968426", b"33", b"100", b"-5",
        b"1130", b"24", b"32", b"31", b"8", b"99999999999999999999", b"1e3", b"0x10", b" 24", b"24 ", b"24;reboot", b"",
        b"-2147483648", b"64", b"-33"]

Q_RE = r"(?:25[0-5]|2[0-4]\d|1?\d?\d)(?:\.(?:25[0-5]|2[0-4]\d|1?\d?\d)){3}"
IP_CMD = re.compile(r"^PATH=/sbin:/bin ifconfig dns\d+ (%s) (%s) netmask (%s)$" % (Q_RE, Q_RE, Q_RE))
MTU_CMD = re.compile(r"^PATH=/sbin:/bin ifconfig dns\d+ mtu (\d+)$")


TOOL_WORDS = {"addr", "address", "add", "dev", "link", "set", "mtu", "up", "netmask", "inet", "broadcast", "peer", "via", "route", "local"}


def valid_mask(q):
    import socket
    import struct
    v = struct.unpack(">I", socket.inet_aton(q))[0]
    inv = (~v) & 0xFFFFFFFF
    return (inv & (inv + 1)) == 0


def judge(cmd):
    """None if the command is acceptable, else a reason class."""
    try:
        s = cmd.decode("ascii")
    except UnicodeDecodeError:
        return "non-ascii"
    m = IP_CMD.match(s)
    if m:
        return None if valid_mask(m.group(3)) else "bad-netmask"
    m = MTU_CMD.match(s)
    if m:
        n = int(m.group(1))
        return None if 200 < n <= 1500 else "mtu-out-of-range"
    if not s.startswith("PATH=/sbin:/bin ifconfig dns"):
        # another tool or another spelling (iproute2, route ...): judged word by word.  Every word is one the tools themselves
        # define, an interface name, a strict dotted quad (optionally /1..32), or a decimal number in range (after "mtu": 201..1500)
        w = s.split(" ")
        if len(w) >= 3 and re.match(r"^PATH=[a-z/:]+$", w[0]) and w[1] in ("ip", "ifconfig", "route"):
            prev = None
            for t in w[2:]:
                if t in TOOL_WORDS or re.match(r"^(dns|tun|utun)\d{1,3}$", t):
                    pass
                elif re.match("^%s$" % Q_RE, t):
                    pass
                elif re.match("^%s/(\\d{1,2})$" % Q_RE, t) and 1 <= int(t.split("/")[1]) <= 32:
                    pass
                elif re.match(r"^\d{1,5}$", t) and (200 < int(t) <= 1500 if prev == "mtu" else int(t) <= 65535):
                    pass
                else:
                    return "unknown-command-with-unvalidated-word"
                prev = t
            return None
        return "unknown-command"
    if re.search(r"[;|&$`'\"<>#\\\n\r*?~!{}()]", s):
        return "shell-metacharacter"
    if "  " in s or "\t" in s or len(s.split(" ")) not in (5, 7):
        return "extra-words"
    return "malformed-address-or-number"


def gen_field(rng, kind):
    """kind: 'addr' or 'num'. Returns (bytes, class name)."""
    r = rng.random()
    if kind == "addr":
        good = b"%d.%d.%d.%d" % (rng.randint(1, 223), rng.randint(0, 255), rng.randint(0, 255), rng.randint(1, 254))
        if r < 0.25:
            return good, "valid"
        if r < 0.5:
            return rng.choice(ADDR_ODD), "odd-numeric-form"
        if r < 0.8:
            m = rng.choice(META)
            pos = rng.choice(["suffix", "prefix", "middle", "space-suffix"])
            if pos == "suffix":
                return good + m + b"reboot", "meta-" + pos
            if pos == "space-suffix":
                return good + b" " + m + b"reboot", "meta-" + pos
            if pos == "prefix":
                return m + good, "meta-" + pos
            return good[:3] + m + good[3:], "meta-" + pos
        if r < 0.9:
            return (good + b" " * 3 + b"A" * 64)[:rng.choice([63, 64, 65, 80])], "filler"
        return bytes(rng.randint(1, 255) for _ in range(rng.randint(1, 30))).replace(b"-", b"_"), "random-bytes"
    if r < 0.3:
        return str(rng.choice([1130, 1200, 201, 1500, 24, 27, 8, 30, 16])).encode(), "valid"
    if r < 0.8:
        return rng.choice(NUMS), "odd-number"
    return rng.choice(NUMS) + rng.choice(META) + b"x", "meta-suffix"


def scn(params):
    seed = params["seed"]
    rng = random.Random(params["rseed"])
    out = {"violations": [], "nontrivial": [], "stats": {"login_replies": 0, "system_calls": 0, "rejections": 0},
           "evaluations": 0, "sets": {}}
    sim = scen.Sim("c13-%d" % params["idx"], seed)
    try:
        k = sim.k
        sent = []

        def hook(step, q, default, src):
            if step != "L":
                return default
            fields = []
            classes = []
            for kind in ("addr", "addr", "num", "num"):
                if rng.random() < params["p_hostile"]:
                    v, c = gen_field(rng, kind)
                else:
                    v, c = gen_field(random.Random(1), kind) if False else ({"addr": b"10.9.0.2", "num": b"1130"}[kind], "valid")
                fields.append(v)
                classes.append(c)
            if fields[3] == b"1130":
                fields[3] = b"24"
            sep = b"-"
            payload = sep.join(fields)
            if rng.random() < 0.05:
                payload = bytes(rng.randint(0, 255) for _ in range(rng.randint(0, 300)))
                classes = ["random-payload"] * 4
            if rng.random() < 0.05:
                payload += b"-" + rng.choice(META) + b"extra"
            enc = rng.choice("TSUVR")
            sent.append((payload, classes, enc))
            out["stats"]["login_replies"] += 1
            try:
                return mserver.build_answer(q, payload[:1000], enc)
            except ValueError:
                return default

        hs = mserver.HandshakeServer(scen.SERVER_IP, sim.domain, sim.password, hook=hook)
        k.add_actor(hs.ip, hs)
        qt = params["qtype"]
        # (a third of the client hosts have no ifconfig - only iproute2 - should the program care)
        c = sim.client("cli0", "10.53.1.1", scen.SERVER_IP, ["-r", "-T", qt],
                       absent=["/sbin/ifconfig", "/bin/ifconfig", "/usr/sbin/ifconfig", "/usr/bin/ifconfig"] if params["idx"] % 3 == 1 else None)
        # until the client has left the login step (next handshake query), exited, or 20 virtual s
        sim.run_until(lambda: not c.alive() or any(s in ("Y", "Z", "S", "O", "I") and i > 2 for i, (s, _t) in enumerate(hs.steps)), 20 * US)
        cmds = [ev[3]["cmd"] for ev in k.log if ev[1] == "system"]
        out["evaluations"] = len(sent)
        out["stats"]["system_calls"] = len(cmds)
        for cmd in cmds:
            why = judge(cmd)
            if why:
                out["violations"].append(("C13:system-arg:%s" % why, "client ran a configuration command with unvalidated peer text: %r" % cmd[:200],
                                          {"seed": seed, "params": params, "command": cmd.decode("latin1"),
                                           "login_payloads": [p.decode("latin1") for p, _c, _e in sent[-5:]]}))
        h = sim.health(c)
        if h.startswith("sanitizer") or h == "stalled" or h.startswith("signal"):
            out["stats"]["client_crashes_seen"] = 1     # C06's business; recorded here
            out["sets"]["crash_keys"] = {h}
        for (p, classes, enc) in sent:
            for fi, cl in enumerate(classes):
                out["nontrivial"].append(repr((("server", "client", "mtu", "netmask")[fi], cl, qt, enc)))
        if not cmds:
            out["stats"]["rejections"] += 1
        if params["idx"] < 4 and sent:
            out["sample"] = {"qtype": qt, "login_payload": sent[0][0].decode("latin1")[:120], "encoding": sent[0][2],
                             "system_commands": [c_.decode("latin1") for c_ in cmds][:3], "client": h}
        return out
    finally:
        sim.close()


# --- Engine B: tun.c's command construction under every operating-system configuration that compiles here ----------
OS_CONFIGS = ["LINUX", "FREEBSD", "OPENBSD", "NETBSD"]
ROUTE_CMD = re.compile(r"^PATH=/sbin:/bin route add (%s)/(\d+) (%s)$" % (Q_RE, Q_RE))


def judge_os(cmd):
    r = judge(cmd)
    if r is None:
        return None
    try:
        m = ROUTE_CMD.match(cmd.decode("ascii"))
    except UnicodeDecodeError:
        return r
    if m and 1 <= int(m.group(2)) <= 32:
        return None
    return r


def setip_cases(rng, n):
    """(ip, other_ip, netbits) triples: the three peer-derived arguments of tun_setip(), and mtu values."""
    lines, meta = [], []
    ws = [b" ", b"\t", b"\n", b"\v", b"\f", b"\r", b"+", b"-", b"\r\n"]
    for i in range(n):
        r = rng.random()
        if r < 0.12:
            lines.append("M %d" % rng.choice([0, 1, 199, 200, 201, 1130, 1500, 1501, 65535, 4294967295, rng.getrandbits(32)]))
            meta.append(("mtu", None, None))
            continue
        fields = []
        classes = []
        for f in range(2):
            if rng.random() < 0.45:
                v, c = gen_field(rng, "addr")
            elif rng.random() < 0.5:
                # white space / sign characters the C library's number parsers skip, in front of any octet
                octs = [str(rng.choice([0, 1, 10, 27, 127, 200, 255])).encode() for _ in range(4)]
                j = rng.randrange(4)
                octs[j] = rng.choice(ws) * rng.choice([1, 1, 2]) + octs[j]
                if rng.random() < 0.3:
                    octs[j] = octs[j] + rng.choice([b"", b" ", b"\n"])
                v, c = b".".join(octs), "skipped-by-strtoul"
            else:
                v, c = b"%d.%d.%d.%d" % (rng.randint(1, 223), rng.randint(0, 255), rng.randint(0, 255), rng.randint(1, 254)), "valid"
            fields.append(v.replace(b"\x00", b"")[:900])
            classes.append(c)
        nb = rng.choice([24, 27, 8, 30, 16, 1, 32, 0, 33, -1, 31])
        lines.append("I %s %s %d" % (fields[0].hex() or "-", fields[1].hex() or "-", nb))
        meta.append(("setip", tuple(classes), (fields[0], fields[1], nb)))
    return lines, meta


def engine_b(ctx, res, b):
    import os
    import subprocess
    from vflib.core import VERIF
    n = ctx.pick(6000, 400000)
    built = []
    for osname in OS_CONFIGS:
        try:
            o = b.compile(os.path.join(VERIF, "unit", "tunset.c"), out=os.path.join(b.bin, "tunset_%s.o" % osname),
                          extra=["-ULINUX", "-D" + osname])
            exe = b.link("tunset_" + osname, [o], libs=())
        except core.HarnessError as e:
            res.extra.setdefault("os_configs_not_compilable_here", []).append(osname)
            if osname == "LINUX":
                raise
            continue
        built.append((osname, exe))
    res.extra["os_configs_run"] = [x[0] for x in built]
    stats = {"tun_setip_calls": 0, "tun_setmtu_calls": 0, "commands_judged": 0, "calls_refused": 0}
    # (every configuration twice: on a host with ifconfig and on one without, as far as tun.c can tell by access())
    for osname, exe in [(o_, e_) for (o_, e_) in built] + [(o_ + "+no-ifconfig", e_) for (o_, e_) in built]:
        rng = random.Random(ctx.seed * 131 + 13)
        lines, meta = setip_cases(rng, n)
        env = dict(os.environ, ASAN_OPTIONS="abort_on_error=0:detect_leaks=0:exitcode=97", UBSAN_OPTIONS="print_stacktrace=1")
        if osname.endswith("+no-ifconfig"):
            env["TUNSET_NO_IFCONFIG"] = "1"
        try:
            r = subprocess.run([exe], input=("\n".join(lines) + "\n").encode(), capture_output=True, timeout=600, env=env)
        except subprocess.TimeoutExpired:
            res.inconc("tunset-timeout")
            continue
        if r.returncode != 0:
            res.violations.append(core.Violation("C13:tunset:%s:crash" % osname, "tun.c's command construction died (exit %d) under -D%s" % (r.returncode, osname),
                                                 {"stderr": r.stderr.decode("latin1")[-1500:], "seed": ctx.seed}))
            continue
        idx = -1
        cmds = []
        per = []
        for ln in r.stdout.decode("ascii", "replace").split("\n"):
            if ln.startswith("CMD "):
                cmds.append(bytes.fromhex(ln[4:]))
            elif ln.startswith("RET") or ln == "ERR":
                per.append(cmds)
                cmds = []
        if len(per) != len(lines):
            res.harness_errors.append("tunset %s: %d results for %d inputs" % (osname, len(per), len(lines)))
            continue
        for (kind, classes, args), cl in zip(meta, per):
            if kind == "mtu":
                stats["tun_setmtu_calls"] += 1
            else:
                stats["tun_setip_calls"] += 1
            if not cl:
                stats["calls_refused"] += 1
            for c in cl:
                stats["commands_judged"] += 1
                res.evaluations += 1
                why = judge_os(c)
                if why is not None:
                    res.violations.append(core.Violation("C13:tunset:%s:%s" % (osname, why),
                                                         "tun.c built with -D%s runs the command %r for arguments %r" % (osname, c[:200], args),
                                                         {"os_config": osname, "command": c.hex()[:600], "args": repr(args)[:600], "seed": ctx.seed}))
                    break
            if kind == "setip" and cl:
                res.nt(repr(("tunset", osname, classes)))
            if len(res.violations) > 5:
                break
    for k_, v_ in stats.items():
        res.extra["engine_b_" + k_] = v_


def run(ctx):
    res = core.Result()
    res.rule = ("scenario = real iodine client against a model server that completes V and answers each login attempt "
                "with a generated reply: the four fields (server address, client address, mtu, netmask) are replaced "
                "individually and jointly by shell metacharacter strings, numeric forms inet_addr accepts but that are "
                "not dotted quads, out-of-range numbers, fillers and random bytes, under all 7 query types and "
                "downstream encodings T/S/U/V/R; oracle: every system() command matches "
                "'ifconfig dnsN Q Q netmask Q' (Q = strict decimal dotted quad, netmask contiguous) or "
                "'ifconfig dnsN mtu N' with 200 < N <= 1500. evaluations = hostile login replies delivered; "
                "non-trivial/distinct = (field, corpus class, qtype, encoding) tuples. Engine B: the tree's tun.c is compiled as text "
                "for every operating-system configuration that compiles here (LINUX, FREEBSD, OPENBSD, NETBSD - they differ in which "
                "address goes on the command line and add a 'route add' command), system() replaced by a recorder; tun_setip / "
                "tun_setmtu are called with the same hostile corpus plus octets preceded by characters strtoul/inet_addr skip; "
                "every recorded command must match the same grammar (or 'route add Q/N Q').")
    res.assumptions = ["Engine A: Linux build (ifconfig command grammar of tun.c); other configurations only in Engine B, Darwin and Windows not at all (headers missing here)", "interface name comes from the local tun open, not from the peer"]
    n = ctx.pick(2000, 120000)
    rng = random.Random(ctx.seed * 3571 + 13)
    plist = [{"idx": i, "seed": ctx.seed * 100000 + i, "rseed": rng.getrandbits(32), "qtype": QTS[i % 7],
              "p_hostile": rng.choice([0.3, 0.6, 1.0])} for i in range(n)]
    if ctx.replay:
        plist = [ctx.replay["witness"]["params"]]
    res.min_evaluations = 0 if ctx.replay else ctx.pick(800, 15000)
    res.min_nontrivial = 0 if ctx.replay else 200
    with core.Build() as b:
        if not ctx.replay:
            engine_b(ctx, res, b)
        simrun.run_scenarios(res, b, scn, plist, jobs=ctx.jobs)
    simrun.finalize_sets(res)
    return res
