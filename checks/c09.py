"""C09 - downstream answers decode exactly (or to a prefix, or to nothing), monotonically in size.

Engine B: unit/downans_srv.c (#include "iodined.c": the real write_dns), unit/downans_cli.c
(#include "client.c": the real read_dns_withq) and unit/downans_main.c (the wire between them:
--wrap=sendto captures the server's datagram, --wrap=recvfrom hands it to the client; the oracle).

The driver judges every single answer (different-bytes / longer-than-sent) and prints one "G" line per
(qtype, codec, name kind, buffer size, content style) group and shard; the rules that need all lengths
of a group at once (downward closure, the 2..102 floor) are judged here over all shards.
"""
import glob
import os
import re

from vflib import core, unitrun

QTYPES = ["NULL", "PRIVATE", "TXT", "SRV", "MX", "CNAME", "A"]
CODECS = ["T", "S", "U", "V", "R"]
NAMEKINDS = ["short", "long253"]
BUFS = [65536, 4096]
STYLES = ["ff", "00", "probe", "alt55aa", "random"]
MAXLEN = 4096
FLOOR = 102      # pre-negotiation default fragment size 100 + 2 bytes of data header


def _load_capacity():
    """Per (qtype codec name buffer): the largest payload length known to fit that answer format, i.e. delivered exactly
    by a tree on which the property held over every length (checks/c09_capacity.json, committed, never written at run time)."""
    import json
    try:
        return json.load(open(os.path.join(os.path.dirname(os.path.abspath(__file__)), "c09_capacity.json")))["capacity"]
    except (OSError, ValueError, KeyError):
        return {}


BASE_CAPACITY = _load_capacity()


def expected_autoprobe(cap):
    """What handshake_autoprobe_fragsize()'s documented binary search (768 +- 384, 192, .. while the step is >= 8) settles on when
    exactly the probe sizes up to `cap` come back intact."""
    proposed, rng_, mx = 768, 768, 0
    while rng_ > 0 and (rng_ >= 8 or mx < 300):
        if proposed <= cap:
            mx = proposed
        rng_ >>= 1
        if mx == proposed:
            proposed += rng_
        else:
            proposed -= rng_
    return mx - 2


def scn_autoprobe(params):
    """Engine A: the real client's own fragment-size probe against the real server on a direct, lossless path.  Every probe size
    that fits the answer format comes back intact (that is what the driver establishes, with its own buffers), so the search
    must end where the committed capacity table says it ends - with the buffers the client itself uses."""
    from simnet import scen
    from simnet.scen import US
    out = {"violations": [], "nontrivial": [], "stats": {"autoprobe_runs": 1}, "evaluations": 1, "sets": {}}
    sim = scen.Sim("c09a-%d" % params["idx"], params["seed"])
    try:
        srv = sim.server()
        if not srv.alive():
            out["inconclusive"] = "server-died-at-start"
            return out
        opts = ["-r", "-T", params["qtype"]] + (["-O", params["codec_name"]] if params["codec_name"] else []) + (["-L", "0"] if params["idx"] % 3 == 0 else [])
        c = sim.client("cli0", "10.53.1.1", scen.SERVER_IP, opts)
        sim.run_until(lambda: sim.client_in_tunnel(c) or not c.alive(), 200 * US)
        h = sim.health(c)
        if not sim.client_in_tunnel(c):
            if h.startswith("sanitizer") or h.startswith("signal") or h == "stalled":
                out["inconclusive"] = "client-" + h.split(":")[0]
            else:
                out["violations"].append(("C09:autoprobe:%s:%s:handshake-failed" % (params["qtype"], params["codec"]),
                                          "the client (%s) did not complete its handshake on a direct lossless path (%s)" % (" ".join(opts), h),
                                          {"seed": params["seed"], "stderr": sim.k.stderr_text(c, 1200)}))
            return out
        got = None
        for u in srv.snapshot:
            if u["active"] and u["authenticated"]:
                got = u["fragsize"]
        want = expected_autoprobe(params["cap"])
        out["stats"]["autoprobe_results_compared"] = 1
        if got != want:
            out["violations"].append(("C09:autoprobe:%s:%s:settled-below-what-is-delivered-exactly" % (params["qtype"], params["codec"]),
                                      "the client (%s) settled on fragment size %r; every probe size up to %d is delivered exactly in that format, so its search ends at %d"
                                      % (" ".join(opts), got, params["cap"], want), {"seed": params["seed"], "stderr": sim.k.stderr_text(c, 1500)}))
        else:
            out["nontrivial"].append("autoprobe %s %s -> %d" % (params["qtype"], params["codec"], want))
        return out
    finally:
        sim.close()
# iodine.o / iodined.o are NOT linked: their text is compiled through the two #include drivers
OBJS = ["dns", "read", "encoding", "base32", "base64", "base64u", "base128", "common", "login", "md5",
        "tun", "user", "fw_query"]


def lengths(seed, dense_hi, step):
    """Must mirror make_lengths() in unit/downans_main.c (used only to cross-check what the shards report)."""
    ls = list(range(2, dense_hi + 1))
    n = dense_hi + 1 + seed % step
    while n < MAXLEN - 1:
        ls.append(n)
        n += step
    if MAXLEN - 1 > dense_hi:
        ls.append(MAXLEN - 1)
    if MAXLEN > dense_hi:
        ls.append(MAXLEN)
    return ls


def _sanitizer_findings(b, results):
    """One entry per sanitizer log of a failed shard: (key suffix, report head, pid)."""
    out = []
    for i, rc, _out, err, logdir in results:
        if rc in (0, None):
            continue
        for p in sorted(glob.glob(os.path.join(logdir, "asan*")) + glob.glob(os.path.join(logdir, "ubsan*"))):
            try:
                text = open(p, errors="replace").read()
            except OSError:
                continue
            key, _t = core.sanitizer_key(text)
            if not key:
                continue
            kind = ":".join(key.split(":")[:2])
            frame = None
            for fm in re.finditer(r"#\d+ 0x[0-9a-f]+ in (\w+) ([^\s:]+):(\d+)", text):
                if fm.group(2).startswith(b.src + "/"):
                    frame = "%s@%s" % (fm.group(1), os.path.basename(fm.group(2)))
                    break
            if not frame:
                m = re.search(r"([\w./-]+\.[ch]):(\d+):(\d+): runtime error", text)
                if m and m.group(1).startswith(b.src + "/"):
                    frame = "@" + os.path.basename(m.group(1))
            pid = p.rsplit(".", 1)[-1]
            out.append(("%s:%s" % (kind, frame or key.split(":", 2)[-1]), text[:2500], pid, i))
    return out


def run(ctx):
    res = core.Result()
    dense_hi, step = (MAXLEN, 1) if ctx.thorough else (300, 7)
    only_pair = -1
    if ctx.replay:
        dense_hi, step = MAXLEN, 1
        m = re.match(r"C09:(\w+):([TSUVR]):", str(ctx.replay.get("key", "")))
        if m and m.group(1) in QTYPES:
            only_pair = QTYPES.index(m.group(1)) * len(CODECS) + CODECS.index(m.group(2))
    ls = lengths(ctx.seed, dense_hi, step)
    res.rule = (
        "the tree's write_dns (iodined.c, compiled as text) answers a query (shortest name 'pa.a.b' / a 253-character "
        "4-label name starting with 'p') with a payload p of n bytes; the datagram it passes to sendto() is handed "
        "unchanged through recvfrom() to the tree's read_dns_withq (client.c, compiled as text, CONN_DNS_NULL) which "
        "extracts r (rl bytes) into a heap buffer of exactly 65536 bytes (tunnel_dns) or 4096 bytes (every handshake "
        "function, incl. the fragment-size probe); payload on an exact-size heap block too; ASan+UBSan fatal. "
        "Per answer: rl<=0 or no datagram = nothing (allowed); r == p[0:rl] with rl==n exact / rl<n proper prefix "
        "(allowed); differing byte => :different-bytes; rl>n => :longer-than-sent. "
        "Per (qtype, codec, name kind, buffer, content style) over all tested lengths: the set of exactly delivered "
        "lengths is downward closed (a non-exact length below an exact one => :not-monotonic); every n in 2..%d is "
        "exact, for both names and both buffers (=> :floor). "
        "Space: qtype in NULL PRIVATE TXT SRV MX CNAME A x codec in T S U V R (all 35; R falls back to Base32 for the "
        "hostname types, NULL/PRIVATE ignore the codec: same oracle) x 2 names x 2 buffers x contents {all-0xFF, "
        "all-0x00, the server's probe pattern with seeded start, 0x55/0xAA, seeded random} x lengths %s (%d lengths). "
        "'Fits the answer format' is made concrete by a committed table of lengths known to be deliverable exactly per "
        "(qtype, codec, name, buffer): the smallest non-exact length must lie above it. "
        "distinct_nontrivial = distinct measured '<qtype> <codec> <name> buf<size> exact_max=<largest exact length, "
        "bucketed to 64> [prefix-seen] [nothing-seen]' classes, aggregated over the shards."
        % (FLOOR, "2..4096, every one" if dense_hi == MAXLEN else
           "2..%d every one, then every %dth (phase = seed) up to 4094, and 4095, 4096" % (dense_hi, step), len(ls)))
    res.assumptions = [
        "the resolver path between server and client delivers the server's datagram unchanged (no relay rewriting, "
        "no case folding, no truncation below 64 KB); mangling relays belong to other properties",
        "the answer is judged against the payload given to write_dns; the data header bytes are ordinary payload here",
        "exactness is judged per content style: none of the formats compresses, so capacity must not depend on content "
        "(a difference between styles is reported in content_dependent_capacity and not silently merged)",
        "ASan red zones around the exact-size heap buffers detect writes past the client's buffer and reads past the payload",
    ]
    ngroups_pairs = 1 if only_pair >= 0 else len(QTYPES) * len(CODECS)
    res.min_nontrivial = ngroups_pairs * len(NAMEKINDS) * len(BUFS)
    res.min_evaluations = (len(ls) * ngroups_pairs * len(NAMEKINDS) * len(BUFS) * len(STYLES)) * 9 // 10

    with core.Build() as b:
        drv = b.unit("downans", ["downans_srv.c", "downans_cli.c", "downans_main.c"], objs=OBJS,
                     wraps=["sendto", "recvfrom"])
        sh = ctx.jobs
        results = unitrun.run_sharded(res, "C09", drv, sh,
                                      lambda i: ["run", i, sh, ctx.seed, dense_hi, step, MAXLEN, only_pair],
                                      jobs=sh, timeout=1500)
        san = _sanitizer_findings(b, results)

    # ---- fold the G (group) and A (aborted child) lines ------------------------------------------
    groups = {}
    aborted = []
    for _i, _rc, out, _err, _ld in results:
        for raw in out.split(b"\n"):
            if raw.startswith(b"A "):
                aborted.append(raw[2:].decode("utf-8", "replace"))
                continue
            if not raw.startswith(b"G "):
                continue
            f = raw.decode("utf-8", "replace").split()
            if len(f) != 16:
                res.harness_errors.append("malformed G line: %r" % raw[:120])
                continue
            key = (f[1], f[2], f[3], int(f[4]), f[5])
            tested, exact, prefix, nothing, bad, emax, emin, nmin, nmin_rl, floor_t = [int(x) for x in f[6:16]]
            g = groups.setdefault(key, {"tested": 0, "exact": 0, "prefix": 0, "nothing": 0, "bad": 0, "exact_max": 0,
                                        "exact_min": 0, "nonexact_min": 0, "nonexact_min_rl": 0, "floor_tested": 0})
            for k, v in (("tested", tested), ("exact", exact), ("prefix", prefix), ("nothing", nothing), ("bad", bad),
                         ("floor_tested", floor_t)):
                g[k] += v
            g["exact_max"] = max(g["exact_max"], emax)
            if emin and (not g["exact_min"] or emin < g["exact_min"]):
                g["exact_min"] = emin
            if nmin and (not g["nonexact_min"] or nmin < g["nonexact_min"]):
                g["nonexact_min"], g["nonexact_min_rl"] = nmin, nmin_rl

    # ---- sanitizer reports: a precise key (first frame inside the tree) and the case in flight ------
    if san:
        res.violations = [v for v in res.violations if not re.match(r"C09:(asan|ubsan):", v.key)]
        cases = {}
        for a in aborted:
            m = re.search(r" pid=(\d+)", a)
            if m:
                cases[m.group(1)] = a.replace(m.group(0), "")   # keep the witness stable between runs
        by_key = {}
        for key, head, pid, shard in san:
            by_key.setdefault(key, []).append((cases.get(pid, "?"), head, shard))
        for key, lst in sorted(by_key.items()):
            def n_of(c):
                m = re.search(r" n=(\d+)", c[0])
                return int(m.group(1)) if m else 1 << 30
            lst.sort(key=n_of)
            per_pair = {}
            for c in lst:
                m = re.match(r"(\w+) (\w) ", c[0])
                if m:
                    per_pair.setdefault(m.group(1) + ":" + m.group(2), c[0])
            res.violate("C09:" + key,
                        "sanitizer report while answering/decoding: %s; smallest case in flight: %s" % (key, lst[0][0]),
                        {"driver_output": lst[0][0], "smallest_case_per_pair_in_this_run": per_pair,
                         "reports": len(lst), "report": lst[0][1]})

    # ---- the client's own probe, with its own buffers (Engine A) -------------------------------------
    if only_pair < 0 and not ctx.replay:
        from vflib import simrun
        names = {"T": "base32", "S": "base64", "U": "base64u", "V": "base128", "R": "raw"}
        alist = []
        for qt in QTYPES:
            for cd in CODECS:
                if qt in ("NULL", "PRIVATE") and cd != "T":
                    continue            # (opaque record types ignore the codec)
                if cd == "R" and qt != "TXT":
                    continue            # (Raw exists for TXT only; elsewhere the client falls back)
                cap = BASE_CAPACITY.get("%s %s short buf4096" % (qt, cd))
                if cap is None:
                    continue
                alist.append({"idx": len(alist), "seed": ctx.seed * 100000 + 90000 + len(alist), "qtype": qt, "codec": cd,
                              "codec_name": None if qt in ("NULL", "PRIVATE") else names[cd], "cap": cap})
        with core.Build() as b2:
            ares = core.Result()
            simrun.run_scenarios(ares, b2, scn_autoprobe, alist, jobs=ctx.jobs)
        res.violations += ares.violations
        res.harness_errors += ares.harness_errors
        res.evaluations += ares.evaluations
        res.inconclusive += ares.inconclusive
        for kk, vv in ares.inconclusive_why.items():
            res.inconclusive_why[kk] = res.inconclusive_why.get(kk, 0) + vv
        for sig in ares.nontrivial:
            res.nt(sig)
        res.extra["engine_a_autoprobe_runs"] = len(alist)
        res.extra["engine_a_autoprobe_results_compared"] = ares.extra.get("autoprobe_results_compared", 0)

    # ---- rules over all lengths of a group ---------------------------------------------------------
    expected = len(ls)
    floor_expected = sum(1 for n in ls if n <= FLOOR)
    complete = not aborted and not res.harness_errors and not res.inconclusive
    capacity = {}
    for qt in QTYPES:
        for cd in CODECS:
            if only_pair >= 0 and (QTYPES.index(qt) * len(CODECS) + CODECS.index(cd)) != only_pair:
                continue
            for nk in NAMEKINDS:
                for bs in BUFS:
                    maxes, flags = {}, set()
                    for st in STYLES:
                        g = groups.get((qt, cd, nk, bs, st))
                        if not g:
                            if complete:
                                res.harness_errors.append("no result for group %s %s %s buf%d %s" % (qt, cd, nk, bs, st))
                            continue
                        if complete and (g["tested"] != expected or g["floor_tested"] != floor_expected):
                            res.harness_errors.append("group %s %s %s buf%d %s: %d lengths judged (%d in 2..%d), expected %d (%d)"
                                                      % (qt, cd, nk, bs, st, g["tested"], g["floor_tested"], FLOOR,
                                                         expected, floor_expected))
                        wit = {"qtype": qt, "codec": cd, "name": nk, "buf": bs, "style": st, "group": g,
                               "tier_lengths": "2..%d dense, step %d beyond" % (dense_hi, step)}
                        res.evaluations += 2
                        m_, n_ = g["nonexact_min"], g["exact_max"]
                        if m_ and n_ and m_ < n_:
                            res.violate("C09:%s:%s:not-monotonic" % (qt, cd),
                                        "%s codec %s (%s name, %d-byte buffer, %s content): a payload of %d bytes is delivered "
                                        "exactly but one of %d bytes is not (client extracted %d)"
                                        % (qt, cd, nk, bs, st, n_, m_, g["nonexact_min_rl"]),
                                        dict(wit, exact_length=n_, shorter_non_exact_length=m_, extracted=g["nonexact_min_rl"],
                                             driver_output="qtype=%s codec=%s n=%d and n=%d style=%s name=%s buf=%d"
                                                           % (qt, cd, m_, n_, st, nk, bs)))
                        if m_ and m_ <= FLOOR:
                            res.violate("C09:%s:%s:floor" % (qt, cd),
                                        "%s codec %s (%s name, %d-byte buffer, %s content): a payload of %d bytes (<= %d) is not "
                                        "delivered exactly (client extracted %d)"
                                        % (qt, cd, nk, bs, st, m_, FLOOR, g["nonexact_min_rl"]),
                                        dict(wit, length=m_, extracted=g["nonexact_min_rl"],
                                             driver_output="qtype=%s codec=%s n=%d style=%s name=%s buf=%d rl=%d"
                                                           % (qt, cd, m_, st, nk, bs, g["nonexact_min_rl"])))
                        fits = BASE_CAPACITY.get("%s %s %s buf%d" % (qt, cd, nk, bs))
                        if fits is not None:
                            res.evaluations += 1
                            if m_ and m_ <= fits:
                                res.violate("C09:%s:%s:fits-but-not-exact" % (qt, cd),
                                            "%s codec %s (%s name, %d-byte buffer, %s content): a payload of %d bytes fits this answer format "
                                            "(lengths up to %d are known to be deliverable exactly) but the client extracted %d bytes"
                                            % (qt, cd, nk, bs, st, m_, fits, g["nonexact_min_rl"]),
                                            dict(wit, length=m_, known_to_fit_up_to=fits, extracted=g["nonexact_min_rl"],
                                                 driver_output="qtype=%s codec=%s n=%d style=%s name=%s buf=%d rl=%d"
                                                               % (qt, cd, m_, st, nk, bs, g["nonexact_min_rl"])))
                        maxes[st] = g["exact_max"]
                        if g["prefix"]:
                            flags.add("prefix-seen")
                        if g["nothing"]:
                            flags.add("nothing-seen")
                        if g["bad"]:
                            flags.add("wrong-seen")
                    if not maxes:
                        continue
                    label = "%s %s %s buf%d" % (qt, cd, nk, bs)
                    vals = set(maxes.values())
                    if len(vals) == 1:
                        capacity[label] = vals.pop()
                    else:
                        capacity[label] = min(vals)
                        res.extra.setdefault("content_dependent_capacity", {})[label] = maxes
                        flags.add("content-dependent")
                    if min(maxes.values()) > 0:
                        res.nt("%s exact_max=%d%s" % (label, capacity[label] // 64 * 64,
                                                     "".join(" " + x for x in sorted(flags))))
    res.extra["largest_exact_length"] = capacity
    res.extra["tested_lengths"] = len(ls)
    if aborted:
        res.extra["aborted_children"] = sorted(re.sub(r" pid=\d+", "", a) for a in aborted)[:20]
    if not res.extra.get("client_receives") and not res.violations:
        res.harness_errors.append("the wrapped recvfrom() was never called: the client never read an answer")
    if res.extra.get("calls_on_foreign_fd"):
        res.harness_errors.append("sendto/recvfrom reached on a descriptor other than the driver's")
    for v in res.violations:
        if isinstance(v.witness, dict):
            v.witness.setdefault("seed", ctx.seed)
    res.exhaustive = False
    res.extra["exhaustive_subspace"] = ("every payload length 2..%d x 35 (qtype, codec) x 2 names x 2 buffers for each of the 5 "
                                        "content styles (contents themselves are sampled)" % (MAXLEN if dense_hi == MAXLEN else dense_hi))
    return res
