"""C05 - the server survives arbitrary datagrams and tun input (Engine A).

Oracles: ASan/UBSan inside iodined (any report kills the process), per-turn watchdog (termination),
process still serving at the end, and a health probe through a session established before the attack.
"""
import random
import struct

from vflib import core, simrun
from checks import _sess
from simnet import hostile, kernel, mclient, proto, scen
from simnet.scen import US

CLASSES = ["arbitrary", "dns", "tunnel", "tunnel_auth", "raw", "raw_auth", "tun", "up_stream", "runt_up"]


def setup_state(sim, S, state, rng, k):
    """Put the sacrificial session into a particular protocol state before the attack."""
    if state == "after_login":
        return
    if state == "lazy_held":
        S.option(b"l")
        S.query(S.ping_labels())
        k.run(k.now + 20000)
    elif state == "mid_upstream":
        data = proto.deflate(proto.make_frame(S.tun_ip, "10.9.0.1", 77, 600, "random", rng))
        S.up_seq = (S.up_seq + 1) & 7
        S.query(S.data_labels(S.up_seq, 0, 0, data[:60]))
        k.run(k.now + 20000)
    elif state == "mid_downstream":
        S.set_frag(20)
        k.offer_tun("srv", proto.make_frame("10.9.0.1", S.tun_ip, 78, 400, "random", rng), 78)
        S.ping(50000)
    elif state == "queue_full":
        S.set_frag(10)
        for i in range(7):
            k.offer_tun("srv", proto.make_frame("10.9.0.1", S.tun_ip, 80 + i, 200, "random", rng), 80 + i)
        S.ping(50000)
    elif state == "realsoon":
        S.option(b"l")
        S.query(S.ping_labels())
        k.run(k.now + 5000)
        f = proto.make_frame(S.tun_ip, "10.9.0.1", 79, 40, "zeros", rng)
        data = proto.deflate(f)
        S.up_seq = (S.up_seq + 1) & 7
        S.query(S.data_labels(S.up_seq, 0, 1, data))
        k.run(k.now + 3000)    # inside the 20 ms send-real-soon window
    elif state == "big_frag":
        # the largest fragment sizes a session may ask for, with a packet too big for one answer waiting
        S.set_frag(rng.choice([4093, 4094, 4095, 4096, 8000, 65535]))
        k.offer_tun("srv", proto.make_frame("10.9.0.1", S.tun_ip, 81, rng.choice([4300, 6100, 9000, 30000]), "random", rng), 81)
        S.ping(50000)
    elif state == "server_full":
        # every slot taken by version handshakes (they need no password); more follow during the attack
        for j in range(20):
            mc = mclient.ModelClient("10.53.3.%d" % (j + 1), (scen.SERVER_IP, 53), sim.domain, sim.password, random.Random(rng.getrandbits(32)),
                                     qtype=rng.choice(list(proto.QTYPES.values())))
            k.add_actor(mc.ip, mc)
            pl = mc.version()
            if pl and pl[:4] == b"VFUL":
                for _ in range(rng.randint(1, 3)):
                    mc.version()
                break
    elif state == "raw":
        S.raw_login()
        k.run(k.now + 50000)
    elif state == "codec128":
        S.switch_codec(proto.BASE128)
    elif state == "codec64":
        S.switch_codec(proto.BASE64)


def _may_name(d, dl, avoid):
    """Could the server take this datagram for a request of one of the sessions in `avoid`?  (conservative)"""
    if d[:3] == proto.RAW_MAGIC:
        return len(d) > 3 and (d[3] & 0x0F) in avoid
    try:
        m = proto.parse_msg(d)
    except proto.ParseError:
        # not a message a strict parser accepts; iodined's reader is more lenient (e.g. label length bytes up to 0xBF): when the
        # tunnel domain occurs in it at all, it may name anybody
        return proto.encode_name(dl).lower() in bytes(d).lower()
    if m.qr or not m.qd:
        return False
    labels = m.qd[0][0]
    ql = [l.lower() for l in labels]
    n = len(dl)
    if len(ql) <= n or ql[len(ql) - n:] != [x.lower() for x in dl]:
        return False
    text = b"".join(labels[:len(labels) - n])
    if not text:
        return False
    uid = hostile.named_userid(text)
    if uid in avoid:
        return True
    # bytes outside the Base32 alphabet in the userid position decode implementation-specifically: treat as a possible hit
    c = text[:1].lower()
    pos = text[1:3] if c in b"lnp" else text[1:2]
    return c in b"lnpisor" and any(ch not in proto.B32 and ch not in proto.B32.upper() for ch in pos)


def _max_chunk(S):
    """Largest upstream payload that still fits one query name with the session's current codec."""
    n = 220
    while n > 1:
        try:
            if len(proto.encode_name(proto.msg_data(S.domain, b"0aaaa", S.up.encode(b"\xff" * n)))) <= 255:
                return n
        except ValueError:
            pass
        n -= 1
    return 1


def up_stream_burst(S, k, rng, st, sizes=(16, 48, 64)):
    """The logged-in hostile session sends one upstream packet that never ends: maximal fragments, one sequence number,
    the 4-bit fragment number cycling (or jumping), the 'last' bit never set, a fresh name each time.  However many
    arrive, the server's reassembly buffer (64 KB) must hold."""
    if "seq" not in st or st["sent"] > st["goal"]:
        st["seq"] = (S.up_seq + rng.choice([1, 2, 5])) & 7
        S.up_seq = st["seq"]
        st["frag"] = 0
        st["sent"] = 0
        st["goal"] = rng.choice([70000, 70000, 140000])
        st["fill"] = rng.choice([b"\x7f", b"\xff", b"\x00", None])
        st["order"] = rng.choice(["cycle", "cycle", "jump"])
        st["n"] = _max_chunk(S)
    for _ in range(rng.choice(sizes)):
        chunk = st["fill"] * st["n"] if st["fill"] else bytes(rng.getrandbits(8) for _ in range(st["n"]))
        S.query(S.data_labels(st["seq"], st["frag"], 0, chunk))
        st["sent"] += len(chunk)
        st["count"] = st.get("count", 0) + 1
        if st["order"] == "cycle":
            st["frag"] = (st["frag"] + 1) & 15
        else:
            st["frag"] = (st["frag"] + rng.choice([1, 1, 3, 15])) & 15
        k.run(k.now + rng.choice([50, 200, 1000]))


STATES = ["after_login", "lazy_held", "mid_upstream", "mid_downstream", "queue_full", "realsoon", "raw", "codec128", "codec64", "big_frag", "server_full"]


def scn_heap(params):
    """Surviving arbitrary datagrams for as long as they keep coming includes not running out of memory: thousands of hostile
    datagrams (every class that reaches an answer or forwarding path) while the process's allocated heap - the sanitizer
    runtime's own counter, reported by the shim at every select() - is watched.  iodined allocates per datagram only what it
    frees again; growth between the first quarter and the end is a leak."""
    seed = params["seed"]
    rng = random.Random(params["rseed"])
    out = {"violations": [], "nontrivial": [], "stats": {"heap_runs": 1}, "evaluations": 0, "sets": {}}
    sim = scen.Sim("c05h-%d" % params["idx"], seed)
    try:
        k = sim.k
        extra = (["-b", "5353"] if params["opt_b"] else []) + (["-c"] if params["opt_c"] else [])
        srv = sim.server(extra=extra)
        if not srv.alive():
            out["inconclusive"] = "server-died-at-start"
            return out
        dl = proto.labels_from_dotted(scen.DOMAIN.encode())
        S = mclient.ModelClient("10.53.2.2", (scen.SERVER_IP, 53), scen.DOMAIN, sim.password, random.Random(rng.getrandbits(32)))
        att = kernel.Actor("10.66.0.1")
        k.add_actor(S.ip, S)
        k.add_actor(att.ip, att)
        if params["opt_b"]:
            k.add_actor("127.0.0.1", kernel.Actor("127.0.0.1"))
        if not S.connect():
            out["inconclusive"] = "model-login-failed"
            return out
        n = params["ndgrams"]
        marks = {}
        for i in range(n):
            if not srv.alive() or k.stalled:
                break
            r = rng.random()
            if r < 0.35:
                # names the lenient reader accepts and the writers refuse: a label of 64..127 characters (length byte 0x40..0x7F),
                # in queries that get an answer (or are forwarded) all the same
                nlab = rng.randint(0x40, 0x7F)
                lab = rng.choice([b"z", b"v", b"p", b"l", b"0", b"r", b"y", b"i", b"ns", b"www", b"q"]) + hostile.rand_label(rng, nlab, "b32")
                lab = lab[:nlab]
                suffix = proto.encode_name(dl) if rng.random() < 0.7 else proto.encode_name([b"example", b"org"])
                d = hostile.hdr(rng) + bytes([nlab]) + lab + suffix + struct.pack(">HH", rng.choice([10, 16, 5, 1, 2, 15, 33, 65399, 255]), 1)
            elif r < 0.6:
                d = hostile.dns_malformed(rng, dl)
            elif r < 0.85:
                d = hostile.tunnel_shaped(rng, dl, userids=(S.userid, 5), avoid=())
            else:
                d = hostile.arbitrary(rng)
            k.transmit((att.ip, rng.choice([53, 1024, 40000])), (scen.SERVER_IP, 53), d)
            out["evaluations"] += 1
            k.run(k.now + rng.choice([0, 1, 100, 1000]))
            if i in (n // 4, n - 1):
                k.run(k.now + 50000)
                marks[i] = srv.snapshot[0]["heap_kb"] if srv.snapshot else None
        h = sim.health(srv)
        if h != "running":
            out["inconclusive"] = "server-" + h.split(":")[0]      # (the other scenarios judge deaths)
            return out
        a, b_ = marks.get(n // 4), marks.get(n - 1)
        if a is None or b_ is None or a == 0:
            out["inconclusive"] = "no-heap-figure"
            return out
        grow = b_ - a
        out["stats"]["heap_growth_kb_max"] = max(0, grow)
        out["stats"]["heap_kb_seen"] = b_
        if grow > 32:
            out["violations"].append(("C05:heap-grows-with-hostile-input", "the server's allocated heap grew from %d KB to %d KB over the last %d hostile datagrams (about %d bytes each) and keeps growing"
                                      % (a, b_, n - n // 4, grow * 1024 // max(1, n - n // 4)), {"seed": seed, "params": params}))
        else:
            out["nontrivial"].append("heap-watch b=%s c=%s" % (params["opt_b"], params["opt_c"]))
        return out
    finally:
        sim.close()


def one_run(params):
    seed = params["seed"]
    rng = random.Random(params["rseed"])
    out = {"violations": [], "nontrivial": [], "stats": {}, "evaluations": 0, "sets": {}}
    sim = scen.Sim("c05-%d" % params["idx"], seed)
    sim.judge_table_invariants = True      # (structural invariants of users[] at every select(): reported like a sanitizer finding)
    try:
        k = sim.k
        if params["idx"] % 3 == 1:
            k.sched_jitter = (0.5, 8000)       # iodined is resumed late now and then: hostile datagrams, tun packets and timers coincide
        extra = []
        if params["opt_c"]:
            extra.append("-c")
        if params["opt_b"]:
            extra += ["-b", "5353"]
        if params["idx"] % 5 == 3:
            extra += ["-D"] * (1 + (params["idx"] // 5) % 2)       # debug output on (-D / -DD): every datagram is also formatted for printing
        dom = scen.DOMAIN
        srvdom = "*." + dom.split(".", 1)[1] if params["wild"] else dom
        srv = sim.server(domain=srvdom, tun=params["tun"], extra=extra)
        if not srv.alive():
            out["inconclusive"] = "server-died-at-start"
            return out
        dl = proto.labels_from_dotted(dom.encode())
        H = mclient.ModelClient("10.53.2.1", (scen.SERVER_IP, 53), dom, sim.password, random.Random(rng.getrandbits(32)),
                                qtype=rng.choice(list(proto.QTYPES.values())))
        S = mclient.ModelClient("10.53.2.2", (scen.SERVER_IP, 53), dom, sim.password, random.Random(rng.getrandbits(32)),
                                qtype=rng.choice(list(proto.QTYPES.values())))
        att = kernel.Actor("10.66.0.1")
        k.add_actor(H.ip, H)
        k.add_actor(S.ip, S)
        k.add_actor(att.ip, att)
        if params["opt_b"]:
            res_actor = kernel.Actor("127.0.0.1")
            k.add_actor("127.0.0.1", res_actor)
        if not H.connect() or not S.connect():
            out["inconclusive"] = "model-login-failed"
            return out
        if rng.random() < 0.5:
            H.option(b"l")
        setup_state(sim, S, params["state"], rng, k)
        n = params["ndgrams"]
        # Without source checking (-c) anybody may legitimately drive a session whose userid they name,
        # so hostile traffic must not name the healthy session there; with checking on it may (-> BADIP).
        avoid = (H.userid,) if params["opt_c"] else ()
        out_uids = (S.userid,) if params["opt_c"] else (H.userid, S.userid)
        sent_classes = {}
        held_after_ping = [0]
        recent = []
        stream = {}
        for i in range(n):
            if not srv.alive() or k.stalled:
                break
            cls = rng.choice(params["classes"])
            sent_classes[cls] = sent_classes.get(cls, 0) + 1
            if cls == "arbitrary":
                d, src = hostile.arbitrary(rng), att
            elif cls == "dns":
                d, src = hostile.dns_malformed(rng, dl), att
            elif cls == "tunnel":
                d, src = hostile.tunnel_shaped(rng, dl, userids=out_uids, avoid=avoid), att
            elif cls == "tunnel_auth":
                d, src = hostile.tunnel_shaped(rng, dl, userids=(S.userid,), avoid=(H.userid,)), S
            elif cls == "raw":
                d, src = hostile.raw_shaped(rng, userids=out_uids, avoid=avoid), att
            elif cls == "raw_auth":
                d, src = hostile.raw_shaped(rng, userids=(S.userid,), avoid=(H.userid,)), S
            elif cls == "runt_up":
                # the logged-in session sends complete, well-formed upstream packets that inflate to less than an IP header
                runt = bytes(rng.getrandbits(8) for _ in range(rng.choice([0, 1, 4, 5, 19, 20, 23])))
                if params["state"] == "raw" and rng.random() < 0.7:
                    d, src = proto.raw_frame(proto.RAW_DATA, S.userid, proto.deflate(runt)), S
                else:
                    S.up_seq = (S.up_seq + 1) & 7
                    S.query(S.data_labels(S.up_seq, 0, 1, proto.deflate(runt)))
                    d = None
            elif cls == "up_stream":
                if params["state"] == "raw":
                    d, src = hostile.tunnel_shaped(rng, dl, userids=(S.userid,), avoid=(H.userid,)), S
                else:
                    up_stream_burst(S, k, rng, stream, (64,) if len(params["classes"]) == 1 else (2, 8, 16))
                    d = None
            else:
                if rng.random() < 0.12 and S.tun_ip:
                    # a packet for a live session, then the read on the tun descriptor fails
                    k.offer_tun("srv", proto.make_frame("10.9.0.1", S.tun_ip, 95000 + i, rng.choice([40, 300, 1200]),
                                                        "random", rng), None)
                    for _ in range(rng.choice([1, 1, 3])):
                        k.offer_tun_error("srv", rng.choice([5, 4, 11, 77]))
                    sent_classes["tun_read_failure"] = sent_classes.get("tun_read_failure", 0) + 1
                elif rng.random() < 0.3 and S.tun_ip:
                    # a well-addressed but oversized / odd packet for the sacrificial session
                    k.offer_tun("srv", proto.make_frame("10.9.0.1", S.tun_ip, 90 + i, rng.choice([24, 1500, 4096, 6100, 20000, 65000]),
                                                        rng.choice(["random", "zeros"]), rng), None)
                    if rng.random() < 0.5:
                        S.query(S.ping_labels())
                else:
                    k.offer_tun("srv", hostile.hostile_tun_frame(rng), None)
                d = None
            if d is not None and avoid and src is att and _may_name(d, dl, avoid):
                # without source checking anybody who names a session may legitimately drive it: hostile traffic
                # from outsiders must not (even accidentally) name the healthy session
                d = hostile.arbitrary(rng)[:11]
            if d is not None:
                recent.append((cls, d))
                if len(recent) > 4:
                    recent.pop(0)
                sport = S.sport if src is S else rng.choice([53, 1024, 40000, 65535])
                k.transmit((src.ip, sport), (scen.SERVER_IP, 53), d)
            out["evaluations"] += 1
            k.run(k.now + rng.choice([0, 1, 100, 1000, 20000, 50000]))
            if i % 40 == 39:
                row = srv.snapshot[H.userid] if srv.snapshot and H.userid < len(srv.snapshot) else None
                if H.lazy and held_after_ping[0] and row and row["out_len"] == 0 and row["outpacketq_filled"] == 0 and row["conn"] == 1 and srv.alive():
                    # the server holds a query of the established (lazy) session: a packet that arrives for that session now goes
                    # out at once in answer to it - to that session, whatever the hostile traffic in between was about
                    H.drain()
                    n_before = len(H.delivered)
                    fpr = proto.make_frame(sim.tun_net.split("/")[0], H.tun_ip, 998000 + i, rng.choice([40, 80]), "random", rng)
                    k.offer_tun("srv", fpr, 998000 + i)
                    k.run(k.now + 60000)
                    H.drain()
                    out["stats"]["held_query_deliveries_checked"] = out["stats"].get("held_query_deliveries_checked", 0) + 1
                    if not any(fr == fpr for _t, fr in H.delivered[n_before:]) and srv.alive() and not out["violations"]:
                        out["violations"].append(("C05:packet-for-established-session-not-sent-in-answer-to-its-held-query",
                                                  "the server was holding a query of the established lazy-mode session (id %d) when a packet for it arrived; 60 ms later the session has not received it"
                                                  % held_after_ping[0], {"seed": seed, "params": params, "last_datagrams": [(c, d.hex()[:300]) for c, d in recent]}))
                H.ping(20000)
                if rng.random() < 0.2:
                    k.run(k.now + rng.choice([1, 5, 30]) * US)
                    H.ping(20000)
                # (what the server holds for the established session right after its ping; nothing but hostile traffic follows
                # until the next probe)
                row = srv.snapshot[H.userid] if srv.snapshot and H.userid < len(srv.snapshot) else None
                held_after_ping[0] = row["q_id"] if (row and H.lazy and row["out_len"] == 0) else 0
        k.run(k.now + 200000)
        # reply kinds the server produced (coverage of the handler x reply matrix)
        kinds = set()
        for ev in k.log:
            if ev[1] == "send" and ev[2] == "srv":
                d = ev[3]["data"]
                if d[:3] == proto.RAW_MAGIC:
                    kinds.add("raw:%02x" % (d[3] & 0xF0 if len(d) > 3 else 0))
                    continue
                try:
                    m = proto.parse_msg(d)
                    c = m.qd[0][0][0][:1].lower() if m.qd and m.qd[0][0] else b"?"
                    try:
                        p = proto.extract_payload(m)
                        rk = p[:8] if p[:3] in (b"BAD", b"VAC", b"VNA", b"VFU", b"LNA") else (b"data" if c in b"p0123456789abcdef" else b"other")
                    except Exception:
                        rk = b"undecodable"
                    kinds.add("%s:%s" % (c.decode("latin1"), rk.decode("latin1")))
                except proto.ParseError:
                    kinds.add("unparsable")
        out["sets"]["reply_kinds"] = kinds
        out["sets"]["states"] = {params["state"]}
        wit = {"seed": seed, "params": params, "last_datagrams": [(c, d.hex()[:600]) for c, d in recent]}
        h = sim.health(srv)
        if h == "stalled":
            out["stalled"] = True
            return out
        if h != "running":
            rep = k.sanitizer_report(srv)
            key = h.split(":", 1)[1] if h.startswith("sanitizer:") else h
            out["violations"].append(("C05:%s" % key, "iodined died while processing hostile input (%s)" % h,
                                      dict(wit, report=rep[-2500:], stderr=k.stderr_text(srv, 600))))
            return out
        # health probe through the session established before the attack
        f_up = proto.make_frame(H.tun_ip, sim.tun_net.split("/")[0], 999001, 300, "random", rng)
        ok_up = H.send_frame(f_up, wait_us=300000, max_tries=6)
        got_up = any(ev[1] == "tun_write" and ev[2] == "srv" and ev[3]["data"] == f_up for ev in k.log)
        f_dn = proto.make_frame(sim.tun_net.split("/")[0], H.tun_ip, 999002, 300, "random", rng)
        k.offer_tun("srv", f_dn, 999002)
        H.pump(8 * US, 100000)
        got_dn = any(fr == f_dn for _t, fr in H.delivered)
        h = sim.health(srv)
        if h != "running":
            rep = k.sanitizer_report(srv)
            key = h.split(":", 1)[1] if h.startswith("sanitizer:") else h
            out["violations"].append(("C05:%s" % key, "iodined died during the health probe after hostile input (%s)" % h,
                                      dict(wit, report=rep[-2500:])))
            return out
        if not (ok_up and got_up and got_dn):
            out["violations"].append(("C05:health-probe-failed", "established session no longer works after hostile input (up acked=%s delivered=%s, down delivered=%s)"
                                      % (ok_up, got_up, got_dn), wit))
            return out
        out["nontrivial"] = [repr((params["state"], c, params["opt_c"], params["wild"])) for c in sent_classes]
        for c, v in sent_classes.items():
            out["stats"]["sent_" + c] = v
        out["stats"]["up_stream_fragments"] = stream.get("count", 0)
        out["stats"]["server_replies"] = sum(1 for ev in k.log if ev[1] == "send" and ev[2] == "srv")
        if params["idx"] < 3:
            out["sample"] = {"state": params["state"], "classes": sent_classes, "reply_kinds": sorted(kinds)[:30],
                             "example_datagram": recent[-1][1].hex()[:160] if recent else None}
        return out
    finally:
        sim.close()


def scn(params):
    out = one_run(params)
    if out.pop("stalled", False):
        # watchdog fired: re-run once; only a reproduced stall is a termination violation
        out2 = one_run(params)
        if out2.pop("stalled", False):
            out2["violations"].append(("C05:stall", "iodined made no system call for the watchdog period while processing hostile input (reproduced)",
                                       {"seed": params["seed"], "params": params}))
            return out2
        out2["inconclusive"] = out2.get("inconclusive") or "watchdog-not-reproduced"
        return out2
    return out


def run(ctx):
    res = core.Result()
    res.rule = ("scenario = real iodined (ASan+UBSan, random options -c / -b / wildcard domain / netmask) with a healthy "
                "model-client session and a sacrificial logged-in session placed in one of 11 protocol states (incl. every slot taken), then "
                "150-600 hostile inputs from 9 generator classes (arbitrary bytes, malformed DNS, tunnel-shaped "
                "commands from outsiders and from the logged-in address, raw frames from both, hostile tun frames, "
                "never-ending upstream packets of 70-140 KB in maximal fragments and complete packets of 0-23 bytes from the logged-in session, failing reads on the tun descriptor) "
                "interleaved with time advances; oracle: no sanitizer report, no exit, no stall, and the healthy "
                "session still moves a frame each way afterwards. evaluations = hostile inputs delivered. "
                "non-trivial/distinct = (session state, generator class, -c, wildcard) combinations that completed with the probe passing.")
    res.assumptions = ["only executed paths are judged; reply-kind coverage is reported", "shift-base UB excluded (GCC defines it)"]
    n = ctx.pick(400, 30000)
    rng = random.Random(ctx.seed * 6151 + 5)
    plist = []
    for i in range(n):
        cl = list(CLASSES) if rng.random() < 0.5 else rng.sample(CLASSES, rng.randint(1, 3))
        focus = rng.random() < 0.08
        if focus:
            cl = ["up_stream"]
        plist.append({"idx": i, "seed": ctx.seed * 100000 + i, "rseed": rng.getrandbits(32),
                      "state": STATES[i % len(STATES)], "classes": cl, "ndgrams": rng.choice([20, 30]) if focus else rng.choice([150, 300, 600]),
                      "opt_c": rng.random() < 0.3, "opt_b": rng.random() < 0.3, "wild": rng.random() < 0.2,
                      "tun": rng.choice(["10.9.0.1/24", "10.9.0.1/24", "10.9.0.5/28", "172.20.1.1/16", "10.9.0.1/29"])})
    if ctx.replay:
        plist = [ctx.replay["witness"]["params"]]
    res.min_evaluations = 1000 if not ctx.replay else 0
    res.min_nontrivial = 0 if ctx.replay else ctx.pick(40, 120)
    with core.Build() as b:
        longrun = None
        if ctx.thorough and not ctx.replay:
            # Beside everything else (one core, about 4 min): the forwarded-query table fed with 2^32 + 2^16 queries in one
            # history - what a server with -b has been through after months - under the same sanitizers.  Datagram counts of
            # that order cannot be pushed through the simulated network; the table driver of C20 calls the tree's own
            # fw_query.c directly.  A report is a C05 violation: iodined's memory safety must not depend on how long it has run.
            import threading
            from vflib import unitrun
            drv = b.unit("fwq", ["fwq.c"], objs=[], libs=())
            lres = core.Result()
            th = threading.Thread(target=lambda: unitrun.run_sharded(lres, "C05", drv, 1, lambda i: ["long", (1 << 32) + (1 << 16), ctx.seed], jobs=1, timeout=3000))
            th.start()
            longrun = (th, lres)
        simrun.run_scenarios(res, b, scn, plist, jobs=ctx.jobs)
        if not ctx.replay:
            hrng = random.Random(ctx.seed * 31337 + 5)
            hlist = [{"idx": 800000 + i, "seed": ctx.seed * 100000 + 80000 + i, "rseed": hrng.getrandbits(32), "opt_b": i % 2 == 0, "opt_c": i % 4 >= 2,
                      "ndgrams": ctx.pick(8000, 40000)} for i in range(ctx.pick(4, 32))]
            simrun.run_scenarios(res, b, scn_heap, hlist, jobs=ctx.jobs, chunksize=1)
        if not ctx.replay:
            # ordinary traffic too (the workloads of the behavioural checks): a death there is the same violation
            simrun.run_scenarios(res, b, _sess.scn_survive, _sess.survive_params(ctx, "C05", "server", ctx.pick(32, 2000), 600000), jobs=ctx.jobs)
        if longrun is not None:
            longrun[0].join()
            lres = longrun[1]
            res.violations += lres.violations
            res.harness_errors += lres.harness_errors
            res.inconclusive += lres.inconclusive
            for kk, vv in lres.extra.items():
                res.extra["fwq_" + kk] = vv
        # memcheck pass: the same scenarios, fewer of them, with non-sanitized programs under valgrind memcheck (uninitialised
        # values and the invalid accesses ASan's red zones cannot see); the first error ends the program
        if not ctx.replay or (ctx.replay.get("witness") or {}).get("params", {}).get("memcheck"):
            mlist = [dict(p, idx=500000 + j, memcheck=True, ndgrams=min(p["ndgrams"], 150)) for j, p in enumerate(plist[::max(1, len(plist) // ctx.pick(16, 400))][:ctx.pick(16, 400)])]
            olist_m = [dict(p, memcheck=True) for p in _sess.survive_params(ctx, "C05", "server", ctx.pick(12, 300), 700000)]
            if ctx.replay:
                mlist = [ctx.replay["witness"]["params"]]
                olist_m = []
            if mlist:
                with core.Build(sanitize=False) as b2:
                    mres = core.Result()
                    simrun.run_scenarios(mres, b2, scn, mlist, jobs=ctx.jobs, memcheck_=True)
                    simrun.run_scenarios(mres, b2, _sess.scn_survive, olist_m, jobs=ctx.jobs, memcheck_=True)
                    simrun.finalize_sets(mres)
                res.violations += mres.violations
                res.harness_errors += mres.harness_errors
                res.evaluations += mres.evaluations
                res.inconclusive += mres.inconclusive
                res.scenarios = getattr(res, "scenarios", 0) + getattr(mres, "scenarios", 0)
                for kk, vv in mres.inconclusive_why.items():
                    res.inconclusive_why[kk] = res.inconclusive_why.get(kk, 0) + vv
                res.extra["memcheck_scenarios"] = len(mlist) + len(olist_m)
                res.extra["memcheck_evaluations"] = mres.evaluations
                for sig in mres.nontrivial:
                    res.nt("memcheck " + sig)
    simrun.finalize_sets(res)
    return res
