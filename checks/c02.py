"""C02 - progress on a clean path (exactly once, in order) and bounded recovery after faults (Engine A)."""
import random

from vflib import core, simrun
from simnet import proto, scen, tunnelscn
from simnet.scen import US

B_RECOVER = 30 * US     # bounded-progress restatement of "eventually" (DESIGN 4.2)
MAXFR = 14              # frames estimated to need more than this many fragments are not judged
DROPS = [0]             # frames the client took from its tun and discarded by its congestion policy
LAST_MISSING = []       # frames reported lost by the last _seq_check (for diagnosis)


def diagnose_down_loss(k, cname, frames):
    """Why did the client not deliver these downstream frames although the path lost nothing?  Recognises one
    specific, understood cause: the (single-fragment) packet reached the client in the answer to a query that
    was no longer among the client's three most recent ones, which the client discards unread."""
    import struct
    import zlib
    want = {}
    for f in frames:
        want[bytes(f)] = None
    sent_ids = []
    for ev in k.log:
        if ev[2] != cname:
            continue
        d = ev[3].get("data", b"")
        if ev[1] == "send" and len(d) >= 12 and d[:3] != proto.RAW_MAGIC:
            sent_ids.append(struct.unpack_from(">H", d, 0)[0])
        elif ev[1] == "recv" and d[:3] != proto.RAW_MAGIC:
            try:
                m = proto.parse_msg(d)
                p = proto.extract_payload(m)
                if len(p) <= 2 or not (p[1] & 1) or ((p[1] >> 1) & 15) != 0:
                    continue
                fr = zlib.decompress(p[2:])
            except Exception:
                continue
            if fr in want and want[fr] is None:
                want[fr] = "stale-id" if m.id not in sent_ids[-3:] else "recent-id"
    if want and all(v == "stale-id" for v in want.values()):
        return "answer-to-query-older-than-3-most-recent"
    return None


C2C = 0xFC2C        # id prefix of client-to-client frames exchanged with a bystander session (not part of the judged streams)


def _seq_check(k, reader, writer, eligible, t_from=None, offer_time=None):
    """Compare the sequence of eligible frames `reader` took from its tun with the sequence `writer` wrote.
    Returns (problem|None, n_read, n_written)."""
    reads, writes = [], []
    pending = None
    for ev in k.log:
        if ev[2] == reader and reader != "srv":
            # The client takes a frame from its tun but deliberately discards it when it is still busy
            # with the previous one ("get up-to-date fast by simply dropping stuff"); such a frame was
            # not accepted.  Observable definition of acceptance: the tun_read is followed, before the
            # client blocks again, by the transmission of the first piece of that frame.
            if ev[1] == "tun_read":
                pending = ev[3]["data"]
                continue
            if pending is not None and ev[1] == "send":
                d = ev[3]["data"]
                isdata = (d[:3] == proto.RAW_MAGIC and len(d) > 3 and (d[3] & 0xF0) == proto.RAW_DATA) or \
                         (len(d) > 14 and d[13:14].lower() in (b"0", b"1", b"2", b"3", b"4", b"5", b"6", b"7", b"8",
                                                              b"9", b"a", b"b", b"c", b"d", b"e", b"f"))
                if isdata:
                    f = pending
                    pending = None
                    i = proto.frame_ident(f)
                    if i is not None and (i >> 20) not in (0xDEAD, C2C) and eligible(f) and (t_from is None or offer_time.get(i, 0) >= t_from):
                        reads.append((i, f))
                continue
            if pending is not None and ev[1] == "wait":
                pending = None
                DROPS[0] += 1
                continue
        if ev[1] == "tun_read" and ev[2] == reader and reader == "srv":
            f = ev[3]["data"]
            i = proto.frame_ident(f)
            if i is not None and (i >> 20) not in (0xDEAD, C2C) and eligible(f) and (t_from is None or offer_time.get(i, 0) >= t_from):
                reads.append((i, f))
        elif ev[1] == "tun_write" and ev[2] == writer:
            f = ev[3]["data"]
            i = proto.frame_ident(f)
            if i is not None and (i >> 20) not in (0xDEAD, C2C) and eligible(f) and (t_from is None or offer_time.get(i, -1) >= t_from):
                writes.append((i, f))
    ri = [i for i, _ in reads]
    wi = [i for i, _ in writes]
    if ri == wi:
        return None, len(ri), len(wi)
    rs = set(ri)
    ws = set(wi)
    if len(wi) != len(ws):
        dup = [i for i in wi if wi.count(i) > 1][0]
        return ("duplicate", "frame id %d written %d times" % (dup & 0xFFFFF, wi.count(dup))), len(ri), len(wi)
    missing = [i for i in ri if i not in ws]
    if missing:
        LAST_MISSING[:] = [f for i, f in reads if i in set(missing)]
        return ("lost", "frame id %d (and %d more) accepted but never delivered" % (missing[0] & 0xFFFFF, len(missing) - 1)), len(ri), len(wi)
    extra = [i for i in wi if i not in rs]
    if extra:
        return ("unexpected", "frame id %d delivered but not among the accepted frames" % (extra[0] & 0xFFFFF)), len(ri), len(wi)
    return ("reordered", "delivery order %s differs from acceptance order %s" % ([i & 0xFFFFF for i in wi][:12], [i & 0xFFFFF for i in ri][:12])), len(ri), len(wi)


def scn(params):
    cfg = params["cfg"]
    seed = params["seed"]
    mode = params["mode"]
    out = {"violations": [], "nontrivial": [], "stats": {}, "evaluations": 1, "sets": {}}
    st = {}

    def plan(t, sim, rng):
        k = sim.k
        st["offer_time"] = {}
        ident = [1]

        frag0 = t.neg[0]["frag"] if t.neg else 100
        bits0 = {5: 5, 6: 6, 26: 6, 7: 7}.get(t.neg[0]["enc"] if t.neg else 5, 5)
        upcap0 = max(1, ((min(cfg["M"], 255) - len(sim.domain) - 16) * bits0) // 8)

        def offer(tt, side):
            fr = tunnelscn.pick_frame(t, rng, side, (params["idx"] << 20) | ident[0], 0,
                                      sizes=[32, 40, 60, 100, 200, 576, 1000, 1134] + ([cfg["srv_m"] - 60, cfg["srv_m"], cfg["srv_m"] + 4] if cfg.get("srv_m") else []))
            if cfg.get("srv_m") and len(fr) > 1200:
                fr = proto.make_frame(".".join(str(x) for x in fr[16:20]), ".".join(str(x) for x in fr[20:24]), (params["idx"] << 20) | ident[0], len(fr), "random", rng)
            if mode != "clean" and not (cfg["raw"] and t.neg and t.neg[0]["conn"] == 0):
                # Packets that cannot fit 16 fragments are outside the property; a stream of them only occupies the
                # tunnel for seconds each (they are sent and never completed), so the bounded-recovery clause would
                # measure that backlog instead of the recovery.  One in ten is still offered.
                too_big = (tunnelscn.est_down_frags(fr, frag0) > MAXFR) if side == "srv" else (tunnelscn.est_up_frags(fr, upcap0) > MAXFR)
                if too_big and rng.random() < 0.9:
                    fr = tunnelscn.pick_frame(t, rng, side, (params["idx"] << 20) | ident[0], 0, sizes=[32, 40, 60, 100, 200])
                    too_big = (tunnelscn.est_down_frags(fr, frag0) > MAXFR) if side == "srv" else (tunnelscn.est_up_frags(fr, upcap0) > MAXFR)
                    if too_big:
                        fr = proto.make_frame(fr[16:20] and ".".join(str(x) for x in fr[16:20]), ".".join(str(x) for x in fr[20:24]),
                                              (params["idx"] << 20) | ident[0], 200, "zeros", rng)
            st["offer_time"][(params["idx"] << 20) | ident[0]] = tt
            k.at(tt, k.offer_tun, "srv" if side == "srv" else t.clients[0].name, fr, ident[0])
            ident[0] += 1

        if mode == "clean":
            tt = k.now + US // 2
            n = params.get("nframes", 24)
            by = len(t.clients) > 1       # a second logged-in client exchanges packets with the judged one through the server
            if by:
                k.keep_snaps = True
            nby = [0]

            def c2c(at, frm, to):
                nby[0] += 1
                fr = tunnelscn.pick_frame(t, rng, "cli", (C2C << 20) | nby[0], frm, sizes=[40, 100, 300, 600], to_client=to)
                k.at(at, k.offer_tun, t.clients[frm].name, fr, None)
            for i in range(n):
                offer(tt, "srv")
                offer(tt + rng.choice([0, 1000, 50000]), "cli")
                if by and rng.random() < 0.6:
                    c2c(tt + rng.choice([0, 2000, 30000, 200000]), 1, 0)
                if by and rng.random() < 0.3:
                    c2c(tt + rng.choice([0, 2000, 30000]), 0, 1)
                tt += rng.choice([0, 0, 5000, 100000, 400000, 1000000, 2500000])
            if by:
                # deliberately coinciding: a multi-fragment download of the judged session is in flight when the bystander's packet
                # for it is forwarded inside the server (and the other way round: the judged session sends to the bystander while
                # it is downloading itself)
                for _c in range(3):
                    tt += 2 * US
                    fr = tunnelscn.pick_frame(t, rng, "srv", (params["idx"] << 20) | ident[0], 0, sizes=[min(1100, max(200, 5 * frag0)), min(1100, max(300, 9 * frag0))])
                    fr = proto.make_frame(".".join(str(x) for x in fr[16:20]), ".".join(str(x) for x in fr[20:24]), (params["idx"] << 20) | ident[0], len(fr), "random", rng)
                    st["offer_time"][(params["idx"] << 20) | ident[0]] = tt
                    k.at(tt, k.offer_tun, "srv", fr, ident[0])
                    ident[0] += 1
                    c2c(tt + rng.choice([2000, 20000, 60000, 150000]), 1, 0)
                    if rng.random() < 0.5:
                        c2c(tt + rng.choice([2000, 20000, 60000]), 0, 1)
                tt += 3 * US
            st["bystander_frames"] = nby[0]
            if not (cfg["raw"] and t.neg and t.neg[0]["conn"] == 0):
                # packets whose compressed size makes them need exactly 16 (15, 2) fragments at the negotiated sizes - the most
                # the 4-bit fragment counter can number, so the largest packets the property speaks of
                import zlib as _z
                for (side, nfr) in (("srv", 16), ("cli", 16), ("srv", 15), ("srv", 16), ("cli", 15), ("srv", 2)):
                    unit = frag0 if side == "srv" else upcap0
                    hi = nfr * unit - rng.choice([0, 0, 1, 3])
                    lo = (nfr - 1) * unit + 1
                    if hi > 60000 or hi < 60 or unit < 4:
                        continue
                    size = hi - 11
                    fr = None
                    for _try in range(60):
                        cand = proto.make_frame(t.server_tun_ip if side == "srv" else t.tun_ips[0], t.tun_ips[0] if side == "srv" else t.server_tun_ip,
                                                (params["idx"] << 20) | ident[0], size, "random", rng)
                        cl = len(_z.compress(cand, 9))
                        if lo <= cl <= hi:
                            fr = cand
                            break
                        size += (hi - cl) if cl > hi else max(1, (hi - cl))
                        if size < 40:
                            break
                    if fr is None:
                        continue
                    tt += rng.choice([2, 3]) * US
                    st["offer_time"][(params["idx"] << 20) | ident[0]] = tt
                    k.at(tt, k.offer_tun, "srv" if side == "srv" else t.clients[0].name, fr, ident[0])
                    ident[0] += 1
                    st["exact_count_frames"] = st.get("exact_count_frames", 0) + 1
                    st.setdefault("exact_ids", set()).add((params["idx"] << 20) | (ident[0] - 1))
                tt += 3 * US
            if by and params.get("by_vanish"):
                # the bystander (the later, higher-numbered session) is in the middle of a download when its machine is
                # suspended: packets for it pile up at the server; the judged session must not be held up by that
                tv = k.now + US // 2 + rng.choice([2, 5, 9]) * US
                for j in range(7):
                    fr = tunnelscn.pick_frame(t, rng, "srv", (C2C << 20) | (5000 + j), 1, sizes=[600, 1000, 1134])
                    k.at(tv + j * 1000, k.offer_tun, "srv", fr, None)
                k.at(tv + 3000, k.freeze, t.clients[1].name)
                st["bystander_vanished"] = 1
                st["t_vanish"] = tv + 3000
            st["t_clean"] = t.t0
            st["last_offer"] = tt
            return tt + 90 * US
        if params.get("idle_loss"):
            # a quiet tunnel (nothing but the programs' own keep-alives for two minutes) on a path that loses exactly one datagram
            # in that time - a period of loss far shorter than any timeout; then traffic resumes on the perfect path
            cip = t.clients[0].addrs[0]
            t_drop = k.now + rng.choice([25, 30, 35, 45]) * US
            dropped = []
            way = rng.choice(["up", "up", "down"])

            def policy1(src, dst, data):
                if dropped or k.now < t_drop:
                    return None
                if (way == "up" and src[0] == cip) or (way == "down" and dst[0] == cip):
                    dropped.append(k.now)
                    st["idle_loss_dropped_at"] = k.now
                    return []
                return None
            k.link_policy = policy1
            tt = k.now + rng.choice([115, 130, 150]) * US
            st["t_clean"] = tt - 10 * US
            for _i in range(10):
                offer(tt, "srv")
                offer(tt + rng.randint(0, 300000), "cli")
                tt += rng.choice([500000, 1000000, 1500000])
            st["last_offer"] = tt
            return tt + 60 * US
        # recovery: fault phase then clean
        F = rng.choice([5, 10, 20, 30, 40]) * US
        tf = k.now + 2 * US
        if cfg["fault"] == "blackout":
            # total silence from the first moments of the tunnel, for most of the longest fault period the property speaks of
            F = rng.choice([25, 32, 35, 38]) * US
            tf = k.now + rng.choice([100000, 300000, 2 * US])
        prof = tunnelscn.fault_profile(cfg, rng, tf, F)
        t.relay.p.update(prof)
        if cfg["raw"]:
            cip = t.clients[0].addrs[0]
            r2 = random.Random(cfg["rseed"] + 5)

            def policy(src, dst, data):
                if not (tf <= k.now < tf + F):
                    return None
                if src[0] in (cip, scen.SERVER_IP) and dst[0] in (cip, scen.SERVER_IP):
                    x = r2.random()
                    if x < 0.25:
                        return []
                    if x < 0.4:
                        return [k.latency_us, k.latency_us + r2.randint(0, 300000)]
                    if x < 0.6:
                        return [k.latency_us + r2.randint(0, 500000)]
                return None
            k.link_policy = policy
        st["t_clean"] = tf + F
        tt = k.now + US // 2
        end_offers = tf + F + B_RECOVER + 25 * US
        while tt < end_offers:
            offer(tt, "srv")
            offer(tt + rng.randint(0, 300000), "cli")
            tt += rng.choice([500000, 1000000, 1000000, 1500000])
        st["last_offer"] = tt
        # state from which recovery starts (for the evidence)
        k.at(tf + F, lambda: st.__setitem__("snap_at_clean", dict(t.srv.snapshot[0]) if t.srv.snapshot else {}))
        return tt + 60 * US

    DROPS[0] = 0
    t = tunnelscn.run_tunnel("c02-%d" % params["idx"], cfg, seed, plan)
    try:
        k = t.sim.k
        if not t.ok:
            # a client that completed its negotiation ("Connection setup complete") and then ended by itself although the
            # server kept answering did not fail to connect: it gave up a working tunnel
            for c in getattr(t, "clients", []):
                if not c.alive() and t.sim.health(c).startswith("exit:"):
                    err = k.stderr_text(c, 1200)
                    if "Connection setup complete" in err and not any(ev[1] == "send" and ev[2] == "srv" and b"BADIP" in bytes(ev[3]["data"])[-60:] for ev in k.log):
                        out["violations"].append(("C02:process-exited:client:right-after-setup",
                                                  "the client completed its negotiation after %.0f s and then exited by itself (%s) although every one of its queries had been answered"
                                                  % (getattr(t, "handshake_s", 0), t.sim.health(c)),
                                                  {"seed": seed, "cfg": cfg, "mode": mode, "stderr": err[-600:]}))
                        return out
            out["inconclusive"] = t.why.split(":")[0]
            return out
        wit = {"seed": seed, "cfg": cfg, "mode": mode, "negotiated": t.neg}
        if cfg.get("slow_start"):
            out["stats"]["slow_start_runs"] = 1
            out["stats"]["slow_start_handshake_s_max"] = 0
            out["sets"]["slow_start_handshake_s"] = {int(getattr(t, "handshake_s", 0)) // 5 * 5}
            # iodined expires a session 60 s after its last V/L/ping/data; a negotiation that takes longer than that after the
            # login runs into it (BADIP) - a limit of the design, not what this scenario is about
            for ev in k.log:
                if ev[1] == "send" and ev[2] == "srv" and b"BADIP" in bytes(ev[3]["data"])[-60:]:
                    out["inconclusive"] = "session-expired-during-slow-start"
                    return out
        cname = t.clients[0].name
        dead = [(p.name, t.sim.health(p)) for p in (t.srv, t.clients[0]) if not p.alive()]
        if dead:
            h = dead[0][1]
            if h == "stalled" and getattr(k.procs[dead[0][0]], "spinning", False):
                out["violations"].append(("C02:wedge:busy-loop:%s" % ("server" if dead[0][0] == "srv" else "client"),
                                          "%s spins: its select() keeps reporting a readable descriptor that it never reads, and it does nothing else any more"
                                          % dead[0][0], dict(wit, time_us=k.now)))
                return out
            if h.startswith("sanitizer"):
                # Only the two real programs and a relay that drops / repeats / delays whole datagrams take part here: a
                # program killed by a sanitizer report in such a run delivers nothing any more "without restarting" - the
                # property is violated whatever C05/C06 (hostile input) say about the same defect.
                who = "server" if dead[0][0] == "srv" else "client"
                key = h.split(":", 1)[1]
                out["violations"].append(("C02:process-died:%s:%s" % (who, key),
                                          "%s was killed by a sanitizer report (%s) while tunnelling ordinary traffic" % (dead[0][0], key),
                                          dict(wit, report=k.sanitizer_report(k.procs[dead[0][0]])[-2000:], time_us=k.now)))
                out["stats"]["sanitizer_aborts"] = 1
                return out
            if h == "stalled":
                out["inconclusive"] = "process-stalled"
                return out
            out["violations"].append(("C02:process-exited:%s" % ("server" if dead[0][0] == "srv" else "client"),
                                      "%s exited (%s) although the path never stayed silent for 60 s" % dead[0],
                                      dict(wit, stderr=k.stderr_text(k.procs[dead[0][0]], 1500))))
            return out
        frag = t.neg[0]["frag"] if t.neg else 100
        raw = bool(t.neg and t.neg[0]["conn"] == 0)
        cap = 100000 if raw else tunnelscn.up_capacity(k, cname, t.sim.domain, t.neg[0]["enc"] if t.neg else 5)
        # (the frames sized for an exact fragment count were measured with the zlib the programs use - same shared library, same
        # level - so for them the count is exact and the limit is the property's 16; for the others the estimate keeps a margin)
        exact = st.get("exact_ids", set())
        lim = lambda f: 16 if proto.frame_ident(f) in exact else MAXFR
        down_ok = (lambda f: True) if raw else (lambda f: tunnelscn.est_down_frags(f, frag) <= lim(f))
        up_ok = (lambda f: True) if raw else (lambda f: tunnelscn.est_up_frags(f, cap) <= lim(f))
        ot = st["offer_time"]
        if mode != "clean" and not raw and frag < 20:
            # The client's autoprobe ended on a fragment size of a few bytes (it does on paths with a round trip of over two
            # seconds while it starts up: every probe is answered after its three 1 s tries).  A packet then needs a dozen round
            # trips, the offers of one per second pile up, and the 30 s bound would measure that backlog, not the recovery (M28).
            out["inconclusive"] = "fragment-size-too-small-for-bounded-recovery"
            out["stats"]["recover_runs_with_fragment_size_below_20"] = 1
            return out
        if mode == "clean":
            # With a second session the server keeps reading its tun while only one session's queue is full, and then
            # drops what does not fit (documented behaviour of the 4-packet queue): losses downstream are judged only
            # when the judged session's queue never filled up.
            qfull = False
            if len(t.clients) > 1:
                out["stats"]["bystander_frames"] = st.get("bystander_frames", 0)
                out["stats"]["bystander_vanished_runs"] = st.get("bystander_vanished", 0)
                for ev in k.log:
                    if ev[1] == "wait" and ev[2] == "srv" and "rows" in ev[3]:
                        if any(r.get("outpacketq_filled", 0) >= 4 for r in ev[3]["rows"]):
                            qfull = True
                            break
                out["stats"]["bystander_runs_queue_filled"] = int(qfull)
            for (reader, writer, elig, d) in (("srv", cname, down_ok, "down"), (cname, "srv", up_ok, "up")):
                prob, nr, nw = _seq_check(k, reader, writer, elig)
                out["stats"]["clean_frames_sized_for_exactly_2_15_16_fragments"] = st.get("exact_count_frames", 0)
                out["stats"]["clean_%s_accepted" % d] = nr
                out["stats"]["clean_%s_delivered" % d] = nw
                if prob and qfull and d == "down" and prob[0] == "lost":
                    # Which of the lost packets did the server read from its tun while the judged session's queue was full (4
                    # packets waiting behind the one in flight)?  Those it may drop - documented behaviour.  A packet that was
                    # read while there was room and still never arrived is a loss like any other.
                    uid0 = getattr(t.clients[0], "cstate", None)
                    uid0 = uid0[13] if uid0 and len(uid0) > 13 else 0
                    lost = set(bytes(f) for f in LAST_MISSING)
                    full_before = False
                    unexplained = []
                    for ev in k.log:
                        if ev[2] != "srv":
                            continue
                        if ev[1] == "wait" and "rows" in ev[3] and uid0 < len(ev[3]["rows"]):
                            r0 = ev[3]["rows"][uid0]
                            full_before = r0.get("outpacketq_filled", 0) >= 4 and r0.get("out_len", 0) > 0
                        elif ev[1] == "tun_read" and bytes(ev[3]["data"]) in lost and not full_before:
                            unexplained.append(proto.frame_ident(ev[3]["data"]))
                    if not unexplained:
                        out["stats"]["bystander_losses_not_judged"] = 1
                        prob = None
                    else:
                        out["stats"]["bystander_losses_judged"] = 1
                        prob = ("lost", "frame id %d (and %d more) was read from the server's tun while the session's queue had room, and never delivered"
                                % (unexplained[0] & 0xFFFFF, len(unexplained) - 1))
                if prob:
                    key = "C02:clean-path:%s:%s" % (d, prob[0])
                    why = ""
                    if d == "down" and prob[0] == "lost" and not raw:
                        cause = diagnose_down_loss(k, cname, list(LAST_MISSING))
                        if cause:
                            key += ":" + cause
                            why = " (the packet arrived in the answer to a query that was no longer among the client's 3 most recent and was discarded unread)"
                    out["violations"].append((key, "clean path, %sstream: %s%s" % (d, prob[1], why), wit))
            if st.get("bystander_vanished") and not out["violations"]:
                # the other session stopped draining in mid-download: the judged one, on a perfect path, must not wait for it.
                # Every packet offered for it after that moment is delivered within 40 s of the offer (alone it takes a few).
                wtime = {}
                for ev in k.log:
                    if ev[1] == "tun_write" and ev[2] == cname:
                        i = proto.frame_ident(ev[3]["data"])
                        if i is not None and i not in wtime:
                            wtime[i] = ev[0]
                late = []
                for ev in k.log:
                    if ev[1] == "tun_offer" and ev[2] == "srv":
                        f = ev[3]["data"]
                        i = proto.frame_ident(f)
                        if i is None or (i >> 20) in (0xDEAD, C2C) or not down_ok(f) or ev[0] < st["t_vanish"] or ev[0] > st["last_offer"] + US:
                            continue
                        out["stats"]["offers_judged_after_bystander_vanished"] = out["stats"].get("offers_judged_after_bystander_vanished", 0) + 1
                        if i not in wtime or wtime[i] - ev[0] > 40 * US:
                            late.append((i & 0xFFFFF, None if i not in wtime else (wtime[i] - ev[0]) // 1000))
                if late and not qfull:
                    out["violations"].append(("C02:clean-path:down:held-up-by-another-session",
                                              "after another session stopped draining its queue, %d packets offered for the judged session on a perfect path took more than 40 s (or never arrived): %r"
                                              % (len(late), late[:4]), wit))
            nr_d = out["stats"]["clean_down_delivered"]
            nr_u = out["stats"]["clean_up_delivered"]
            if nr_d >= 8 and nr_u >= 8:
                out["nontrivial"].append(repr(("clean",) + tunnelscn.negotiated_sig(t)))
        else:
            tc = st["t_clean"]
            # (ii) something offered after t_clean is delivered before t_clean + B, each way
            for (writer, d) in ((cname, "down"), ("srv", "up")):
                ok = False
                first = None
                for ev in k.log:
                    if ev[1] == "tun_write" and ev[2] == writer:
                        i = proto.frame_ident(ev[3]["data"])
                        if i is not None and ot.get(i, -1) >= tc:
                            first = ev[0]
                            ok = ev[0] <= tc + B_RECOVER
                            break
                out["stats"]["recovery_%s_ms" % d] = 0 if first is None else max(0, (first - tc) // 1000)
                if not ok:
                    out["violations"].append(("C02:no-recovery:%s" % d,
                                              "%sstream: nothing offered after the path became clean was delivered within %d s (first delivery: %s)"
                                              % (d, B_RECOVER // US, "never" if first is None else "%.1f s after" % ((first - tc) / 1e6)),
                                              dict(wit, t_clean_us=tc, state_at_clean=st.get("snap_at_clean"))))
            # (iii) frames offered after t_clean + B: exactly once, in order
            for (reader, writer, elig, d) in (("srv", cname, down_ok, "down"), (cname, "srv", up_ok, "up")):
                prob, nr, nw = _seq_check(k, reader, writer, elig, t_from=tc + B_RECOVER, offer_time=ot)
                out["stats"]["post_%s_accepted" % d] = nr
                out["stats"]["post_%s_delivered" % d] = nw
                if prob:
                    out["violations"].append(("C02:after-recovery:%s:%s" % (d, prob[0]),
                                              "after recovery, %sstream: %s" % (d, prob[1]), dict(wit, t_clean_us=tc)))
            rs = t.relay.stats
            for kk in ("q_drop", "a_drop", "q_dup", "a_dup", "reordered", "impatient", "id0"):
                out["stats"]["relay_" + kk] = rs[kk]
            sn = st.get("snap_at_clean") or {}
            state = (sn.get("in_seq"), sn.get("out_seq"), sn.get("out_frag"), bool(sn.get("q_id")), bool(sn.get("qs_id")),
                     sn.get("outfragresent"), sn.get("outpacketq_filled"))
            out["sets"]["state_at_clean"] = {repr(state)}
            if out["stats"].get("post_down_delivered", 0) >= 8 and out["stats"].get("post_up_delivered", 0) >= 8:
                out["nontrivial"].append(repr(("recover", cfg["fault"]) + tunnelscn.negotiated_sig(t)))
        out["sets"]["negotiated"] = {repr(tunnelscn.negotiated_sig(t))}
        out["stats"]["client_policy_drops_%s" % mode] = DROPS[0]
        if params["idx"] < 4:
            out["sample"] = {"mode": mode, "cfg": cfg, "negotiated": t.neg,
                             "stats": {kk: v for kk, v in out["stats"].items() if not kk.startswith("relay_")}}
        return out
    finally:
        t.sim.close()


def run(ctx):
    res = core.Result()
    res.rule = ("real client + real server through the relay, one session. clean scenarios: 24 frame pairs offered in "
                "bursts/gaps; oracle: sequence of frames the reader took from its tun == sequence the peer wrote "
                "(frames estimated to need >14 fragments excluded); in a quarter of them a second logged-in client exchanges "
                "client-to-client packets with the judged one through the server. recovery scenarios: 5-40 virtual s of faults "
                "(class drawn per scenario), then clean; oracle: both processes alive, a frame offered after the "
                "path became clean is delivered within B=30 s each way, frames offered after t_clean+B are delivered "
                "exactly once in order. non-trivial = >=8 judged deliveries each way; distinct over (mode, fault "
                "class, qtype, codecs, fragsize bucket, -M, lazy, raw/dns).")
    res.assumptions = ["'eventually' restated as B = 30 virtual seconds", "fault prefixes are seeded samples"]
    n = ctx.pick(120, 12000)
    rng = random.Random(ctx.seed * 9176 + 3)
    plist = []
    for i in range(n):
        mode = "clean" if i % 3 == 0 else "recover"
        cfg = tunnelscn.gen_config(rng, i + ctx.seed, faults=(mode != "clean"), nclients_max=1)
        if mode == "clean" and i % 4 == 0 and not cfg["raw"]:
            cfg["nclients"] = 2           # a bystander session exchanging client-to-client packets with the judged one
        if mode == "recover" and i % 12 == 5:
            # the start-up itself is slow: about a second each way while the client negotiates (which then takes a minute or
            # so), after that the scenario goes on as usual
            cfg.update(slow_start=rng.choice([1100000, 1120000, 1150000]), qtype="NULL", raw=False, interval=None, pred=False,
                       m=None, downenc=None, lazy=1, M=rng.choice([200, 255]))
        plist.append({"idx": i, "seed": ctx.seed * 100000 + i, "cfg": cfg, "mode": mode, "by_vanish": (i // 12) % 2 == 0})
        if mode == "recover" and i % 12 == 7:
            plist[-1]["idle_loss"] = True
            cfg.update(fault=None, slow_start=None, pred=False)
            cfg["raw"] = (i // 12) % 2 == 0          # (raw mode has the sparsest keep-alives)
        if cfg["raw"] and i % 4 == 1:
            # a server run with a large tunnel MTU (LAN, loopback, virtual networks), packets near that size that do not compress
            cfg["srv_m"] = rng.choice([1400, 1500, 1500])
    if ctx.replay:
        plist = [ctx.replay["witness"]["params"]]
    res.min_evaluations = max(1, len(plist) // 2)
    res.min_nontrivial = 0 if ctx.replay else ctx.pick(12, 100)
    with core.Build() as b:
        simrun.run_scenarios(res, b, scn, plist, jobs=ctx.jobs)
    simrun.finalize_sets(res)
    if ctx.replay:
        res.min_evaluations = 0
    return res
