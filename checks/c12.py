"""C12 - a datagram is interpreted from its own bytes only (Engine B differential + Engine A confirmation)."""
from vflib import core, unitrun


def run(ctx):
    res = core.Result()
    res.rule = ("differential over receive-buffer residues: the tree's dns_decode() is run on the same datagram followed "
                "by 6 different residues (zeros, 0xFF, ascending bytes, repeated C0 0C, a plausible continuation with "
                "labels/domain/RR tails, the tail of a previous longer datagram of another client); return value, "
                "decoded name/type/id/rcode and output bytes must be identical. Datagrams: valid queries cut at every "
                "byte, names ending in pointers that target offsets around the datagram end, label lengths exceeding "
                "the bytes present, answers of all 7 record types (built by the tree's own encoder) cut at every byte, "
                "with RDLENGTH / TXT string length inflated, CNAME targets replaced by pointers to the end region. "
                "evaluations = decode calls; non-trivial = distinct (datagram kind, decode outcome) classes.")
    res.assumptions = ["a read past the end that cannot influence any output is not a violation (property as stated)",
                       "sanitizers cannot see this class: the 64 KB buffer is fully addressable"]
    res.min_nontrivial = 12
    rounds = ctx.pick(30 * 16, 600 * 16)
    with core.Build() as b:
        drv = b.unit("residue", ["residue.c"], objs=["dns", "read", "encoding", "base32", "base64", "base64u", "base128"], libs=())
        sh = ctx.jobs
        unitrun.run_sharded(res, "C12", drv, sh, lambda i: [i, sh, ctx.seed, rounds])
    return res
