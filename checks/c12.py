"""C12 - a datagram is interpreted from its own bytes only (Engine B differential + Engine A confirmation)."""
import random
import struct

from vflib import core, simrun, unitrun

RESIDUES = [("keep", 0, b""), ("zeros", 1, b"\x00"), ("ff", 1, b"\xff"), ("c00c", 1, b"\xc0\x0c"),
            ("plausible", 1, b"\x05paaaa\x01t\x07example\x03com\x00\x00\x0a\x00\x01\xc0\x0c\x00\x0a\x00\x01\x00\x00\x00\x00\x00\x04abcd"),
            ("ascending", 1, bytes(range(1, 256)))]


def _server_run(params, residue):
    """One seeded session against the real server with the given receive-buffer residue policy; returns the
    complete output trace (everything the server sent, wrote to its tun, and its final users[] table)."""
    from simnet import hostile, mclient, proto, scen
    from simnet.scen import US
    rng = random.Random(params["rseed"])
    sim = scen.Sim("c12s-%d-%s" % (params["idx"], residue[0]), params["seed"])
    try:
        k = sim.k
        extra = []
        if params.get("ns_auto"):
            # iodined -n auto asks resolver1.opendns.com for its own address at start-up (up to three attempts).  The resolver's
            # first datagram is useless (not a response) but as long as a complete one; the second breaks off behind its question
            # although it announces an answer; the third is complete.  Which address the server then hands out as its own
            # (glue of NS answers) is a function of those datagrams, not of what an earlier one left in the buffer.
            from simnet import kernel as _kernel

            class OpenDNS(_kernel.Actor):
                def __init__(self, ip, script):
                    self.ip, self.n, self.script = ip, 0, script

                def on_datagram(self, src, dst, data):
                    try:
                        m = proto.parse_msg(data)
                        labels, qt = m.qd[0][0], m.qd[0][1]
                    except (proto.ParseError, IndexError):
                        return
                    kind = self.script[min(self.n, len(self.script) - 1)]
                    self.n += 1
                    full = proto.build_answer_raw(m.id, labels, qt, [(1, bytes([198, 51, 100, 7 + self.n]))])
                    if kind == "notresponse":
                        d = full[:2] + bytes([full[2] & 0x7F]) + full[3:]
                    elif kind == "cut":
                        d = full[:12 + len(proto.encode_name(labels)) + 4 + params["ns_auto_cut"]]
                    elif kind == "silent":
                        return
                    else:
                        d = proto.build_answer_raw(m.id, labels, qt, [(1, bytes([192, 0, 2, 55]))])
                    self.kernel.transmit(dst, src, d)
            k.add_actor("208.67.222.222", OpenDNS("208.67.222.222", params["ns_auto"]))
            extra = ["-n", "auto"]
        fwd = None
        if params.get("bind"):
            # iodined -b: replies of the local DNS server are read into a buffer of their own
            from simnet import sessions as _sessions
            fwd = _sessions.FwdResolver("127.0.0.1")
            k.add_actor("127.0.0.1", fwd)
            extra = list(extra) + ["-b", str(_sessions.BIND_PORT)]
        srv = sim.server(extra=extra, residue=(residue[1], residue[2]))
        if not srv.alive():
            return None
        if params.get("ns_auto"):
            sim.run_until(lambda: srv.tun_fd is not None or not srv.alive(), 15 * US)
            if not srv.alive():
                return [("alive", False, sim.health(srv)), ("stderr", k.stderr_text(srv, 300))]
        dl = proto.labels_from_dotted(sim.domain.encode())
        A = mclient.ModelClient("10.53.2.1", (scen.SERVER_IP, 53), sim.domain, sim.password, random.Random(rng.getrandbits(32)),
                                qtype=rng.choice(list(proto.QTYPES.values())))
        Bc = mclient.ModelClient("10.53.2.2", (scen.SERVER_IP, 53), sim.domain, sim.password, random.Random(rng.getrandbits(32)))
        k.add_actor(A.ip, A)
        k.add_actor(Bc.ip, Bc)
        if not A.connect() or not Bc.connect():
            return None
        if rng.random() < 0.5:
            A.option(b"l")
        canaries, echoes = [], []
        for i in range(params["n"]):
            if fwd is not None and i % 5 == 2:
                # other people's queries are pending at the local DNS server (ids that differ in one byte); it answers one of them
                # at length, then a runt of 1..11 bytes arrives on the forwarding socket: who (if anybody) gets the runt handed
                # on is a matter of the runt's own bytes
                for j, low in enumerate([0x00, 0xFF, 0xC0, 0x05, 0x01, 0x41]):
                    k.transmit(("10.77.0.%d" % (j + 1), 4000 + j), (scen.SERVER_IP, 53), proto.build_query(0x4100 | low, [b"www", b"example", b"org"], 1))
                k.run(k.now + 5000)
                if fwd.got:
                    fsrc, fd = fwd.got.pop(0)
                    try:
                        fm = proto.parse_msg(fd)
                        k.transmit(("127.0.0.1", 5353), fsrc, proto.build_answer_raw(fm.id, fm.qd[0][0], fm.qd[0][1], [(1, b"\x0a\x01\x02\x03")], extra=bytes(rng.getrandbits(8) for _ in range(40))))
                        k.run(k.now + 3000)
                    except (proto.ParseError, IndexError):
                        pass
                    k.transmit(("127.0.0.1", 5353), fsrc, rng.choice([b"\x41", b"\x41", b"\x41\x05", bytes(rng.getrandbits(8) for _ in range(rng.randint(1, 11)))]))
                    k.run(k.now + 3000)
                fwd.got[:] = []
            if fwd is not None and i % 5 == 4:
                # somebody's complete query with an OPT record for a foreign name lingers in the buffer; then a query for a name of
                # the same length that announces additional records (or answers, or two questions) and ends right behind its question
                # - or one or two bytes further.  What is handed to the local DNS server follows from that datagram alone.
                nm = [bytes(rng.choice(b"abcdefghijklmnopqrstuvwxyz") for _ in range(rng.choice([3, 7]))), b"example", b"org"]
                k.transmit(("10.77.0.9", 4100), (scen.SERVER_IP, 53), proto.build_query(rng.getrandbits(16) or 1, nm, rng.choice([1, 28, 16]), edns0=True))
                k.run(k.now + 3000)
                nm2 = [bytes(rng.choice(b"abcdefghijklmnopqrstuvwxyz") for _ in range(len(nm[0]))), b"example", b"org"]
                full = proto.build_query(rng.getrandbits(16) or 1, nm2, rng.choice([1, 28, 16]), edns0=True)
                qend = 12 + len(proto.encode_name(nm2)) + 4
                cnt = rng.choice([(1, 0, 0, 1), (1, 0, 0, 2), (1, 1, 0, 0), (2, 0, 0, 0), (1, 0, 1, 1)])
                d = full[:4] + struct.pack(">HHHH", *cnt) + full[12:qend + rng.choice([0, 0, 1, 2, 3])]
                k.transmit(("10.77.0.10", 4101), (scen.SERVER_IP, 53), d)
                k.run(k.now + 3000)
                fwd.got[:] = []
            # "another client" first leaves a long datagram in the buffer ...
            long_frame = proto.make_frame(Bc.tun_ip, "10.9.0.1", 5000 + i, rng.choice([100, 150]), "random", rng)
            Bc.up_seq = (Bc.up_seq + 1) & 7
            Bc.query(Bc.data_labels(Bc.up_seq, 0, 1, proto.deflate(long_frame)[:110]))
            k.run(k.now + 3000)
            if rng.random() < 0.5:
                # ... or a third party's stateless case-check query whose name is a unique canary: no later answer to a
                # datagram that does not itself contain the canary may carry it
                can = bytes(rng.choice(b"abcdefghijklmnopqrstuvwxyz234567") for _ in range(rng.choice([24, 40])))
                canaries.append(can)
                k.transmit(("10.66.0.8", 5555), (scen.SERVER_IP, 53),
                           proto.build_query(rng.getrandbits(16) or 1, [b"z" + can] + list(dl), rng.choice(list(proto.QTYPES.values()))))
                k.run(k.now + 3000)
            # ... then a short / truncated / pointer-ending datagram arrives
            kind = rng.randrange(7)
            if kind == 6:
                # the lingering datagram is a genuine raw-mode login; what follows is too short to be one
                A.raw_login()
                k.run(k.now + 3000)
                n = rng.choice([0, 1, 2, 3, 3, 3, 4, 4, 5, 10, 19])
                d = (proto.RAW_MAGIC + bytes([proto.RAW_LOGIN | (A.userid & 15)]) + bytes(rng.getrandbits(8) for _ in range(16)))[:n]
                k.transmit(("10.66.0.9", 4444), (scen.SERVER_IP, 53), d)
                k.run(k.now + 3000)
                continue
            if kind == 0:
                d = hostile.dns_malformed(rng, dl)
            elif kind == 1:
                full = proto.build_query(rng.getrandbits(16) or 1, A.ping_labels(), A.qtype, edns0=rng.random() < 0.5)
                d = full[:rng.randint(12, len(full))]
            elif kind == 2:
                # name = few labels, then a pointer to (or just beyond) the end of the datagram
                lab = b"\x05" + bytes(rng.choice(b"abcdefpz0123") for _ in range(5))
                body = lab if rng.random() < 0.6 else b""         # (or the pointer is the very first thing of the name)
                tgt = 12 + len(body) + 2 + rng.choice([-1, 0, 0, 1, 2, 4, 5])
                d = struct.pack(">HHHHHH", rng.getrandbits(16) or 1, 0x0100, 1, 0, 0, 0) + body + struct.pack(">H", 0xC000 | (tgt & 0x3FFF))
                if rng.random() < 0.5:
                    d += struct.pack(">HH", A.qtype, 1)[:rng.randint(0, 4)]
                elif rng.random() < 0.5:
                    # the pointer bytes themselves read as a tunnelled query type (0xFF77 = PRIVATE), class IN follows
                    d = d[:-2] + b"\xff\x77\x00\x01"
            elif kind == 3:
                d = proto.RAW_MAGIC[:rng.randint(0, 3)] + bytes(rng.getrandbits(8) for _ in range(rng.randint(0, 3)))
            elif kind == 4:
                d = hostile.tunnel_shaped(rng, dl, userids=(A.userid,))
                d = d[:rng.randint(12, len(d))]
            else:
                d = proto.build_query(rng.getrandbits(16) or 1, A.ping_labels(), A.qtype)
            src = rng.choice([A, Bc])
            k.transmit((src.ip, src.sport), (scen.SERVER_IP, 53), d)
            k.run(k.now + 3000)
        if params.get("ns_auto"):
            A.ask(list(dl), proto.T_NS, timeout_us=300000)       # (the glue record shows which address the server took for its own)
            A.ask([b"ns"] + list(dl), proto.T_A, timeout_us=300000)
        k.run(k.now + 200000)
        trace = []
        rcvd = {}
        for ev in k.log:
            if ev[2] == "srv" and ev[1] == "recv":
                rcvd[ev[3]["id"]] = bytes(ev[3]["data"]).lower()
            if ev[2] == "srv" and ev[1] == "send" and canaries:
                cause = rcvd.get(ev[3].get("cause"))
                low = bytes(ev[3]["data"]).lower()
                if cause is not None:
                    for can in canaries:
                        if can in low and can not in cause:
                            echoes.append({"canary": can.decode(), "caused_by": cause.hex()[:200], "reply_to": repr(ev[3].get("dst")),
                                           "reply": low.hex()[:300], "time_us": ev[0]})
                            break
            if ev[2] == "srv" and ev[1] in ("send", "tun_write"):
                trace.append((ev[1], ev[3].get("dst"), bytes(ev[3]["data"])))
        trace.append(("canaries", len(canaries), echoes[:2]))
        trace.append(("alive", srv.alive(), sim.health(srv)))
        trace.append(("table", repr([sorted((kk, vv) for kk, vv in r.items() if kk != "heap_kb") for r in srv.snapshot])))
        return trace
    finally:
        sim.close()


def _client_run(params, residue):
    import zlib
    from simnet import hostile_cli, mserver, proto, scen
    from simnet.scen import US
    rng = random.Random(params["rseed"])
    sim = scen.Sim("c12c-%d-%s" % (params["idx"], residue[0]), params["seed"])
    try:
        k = sim.k
        ctx = {"downenc": "T", "password": sim.password, "userid": 3}
        state = {"n": 0}

        def hook(step, q, default, src):
            ctx["downenc"] = hs.downenc
            if step == "RAW" and default is None and params.get("raw") and hs.raw_seen:
                # raw UDP mode: after an intact data frame (it lingers in the buffer) comes the same frame cut short by a
                # few bytes, a runt (the magic alone or less), a bare header, or a frame with a foreign command
                last = hs.raw_seen[-1]
                uid = last[3] & 15 if len(last) > 3 else 0
                if rng.random() < params["p"]:
                    state["n"] += 1
                    fr = proto.make_frame("10.9.0.1", "10.9.0.2", 7000 + state["n"], rng.choice([40, 120, 300]), rng.choice(["random", "text"]), rng)
                    z = zlib.compress(fr)
                    full = proto.raw_frame(proto.RAW_DATA, uid, z)
                    how = rng.randrange(5)
                    if how == 0:
                        short = full[:len(full) - rng.choice([1, 2, 3, 4, 4, 5, 9])]
                    elif how == 1:
                        short = full[:rng.choice([0, 1, 2, 3, 3, 3])]
                    elif how == 2:
                        short = full[:4]
                    elif how == 3:
                        short = full[:3] + bytes([rng.choice([0x00, 0x10, 0x30, 0xF0]) | uid]) + full[4:rng.randint(4, len(full))]
                    else:
                        short = full[:rng.randint(4, len(full))]
                    return [full, short]
                return default
            if step == "RAW" and default is not None and params.get("raw") and rng.random() < 0.5:
                # the raw-mode login is answered by a frame of another kind that happens to carry the expected login hash (it is
                # not a login reply and lingers in the buffer), then by a login frame that breaks off after 4..19 bytes: whether
                # the client goes into raw mode follows from the frames' own bytes - neither is a complete login reply
                other = default[:3] + bytes([rng.choice([proto.RAW_PING, proto.RAW_DATA, 0x40]) | (default[3] & 15)]) + default[4:]
                short = default[:rng.choice([4, 4, 5, 12, 19])]
                return [other, short] + ([] if rng.random() < 0.5 else [short])
            if q is None or default is None:
                return default
            state["n"] += 1
            r = rng.random()
            if r < params["p"]:
                cls = rng.choice(["truncate", "truncate", "rdlen_lie", "name_tricks", "txt_chunks"])
                d = hostile_cli.gen(rng, q, cls, step, ctx)
                if d is not None:
                    # a longer well-formed datagram first (it will linger in the buffer), then the short one, then the real answer
                    filler = mserver.build_answer(q, bytes(rng.getrandbits(8) for _ in range(120)), hs.downenc, qid=(q.id + 1) & 0xFFFF)
                    return [filler, d, default]
            return default

        hs = mserver.HandshakeServer(scen.SERVER_IP, sim.domain, sim.password, hook=hook)
        k.add_actor(hs.ip, hs)
        opts = ([] if params.get("raw") else ["-r"]) + (["-T", params["qtype"]] if params["qtype"] else [])
        c = sim.client("cli0", "10.53.1.1", scen.SERVER_IP, opts)
        c.residue = (residue[1], residue[2])
        sim.run_until(lambda: sim.client_in_tunnel(c) or not c.alive(), 100 * US)
        for i in range(20 if params.get("raw") else 6):
            if c.alive():
                k.offer_tun("cli0", proto.make_frame("10.9.0.2", "10.9.0.1", i + 1, 60, "random", rng), i + 1)
                k.run(k.now + US)
        trace = []
        for ev in k.log:
            if ev[2] == "cli0" and ev[1] in ("send", "tun_write", "system"):
                trace.append((ev[1], bytes(ev[3].get("data", ev[3].get("cmd", b"")))))
        h = sim.health(c)
        trace.append(("health", h if not h.startswith("sanitizer") else "sanitizer"))
        return trace
    finally:
        sim.close()


def scn(params):
    out = {"violations": [], "nontrivial": [], "stats": {"residue_runs": 0, "traces_compared": 0, "trace_events_compared": 0}, "evaluations": 0, "sets": {}}
    fn = _server_run if params["side"] == "server" else _client_run
    base = None
    for residue in RESIDUES:
        tr = fn(params, residue)
        out["stats"]["residue_runs"] += 1
        if tr is None:
            out["inconclusive"] = "setup-failed"
            return out
        if any(x[0] in ("health",) and x[1] == "sanitizer" for x in tr if len(x) > 1):
            out["inconclusive"] = "sanitizer-abort"          # C05/C06 judge those
            return out
        for x in tr:
            if x[0] == "canaries":
                out["stats"]["canary_queries"] = out["stats"].get("canary_queries", 0) + x[1]
                if x[2] and not out["violations"]:
                    out["violations"].append(("C12:earlier-traffic-echoed:server",
                                              "a reply caused by a datagram that does not contain it carries the unique name of an earlier query from another sender",
                                              dict(x[2][0], seed=params["seed"], params=params, residue=residue[0])))
        if out["violations"]:
            break
        if base is None:
            base = (residue[0], tr)
            continue
        out["stats"]["traces_compared"] += 1
        out["stats"]["trace_events_compared"] += len(tr)
        if tr != base[1]:
            i = 0
            while i < min(len(tr), len(base[1])) and tr[i] == base[1][i]:
                i += 1
            a = base[1][i] if i < len(base[1]) else None
            b_ = tr[i] if i < len(tr) else None
            out["violations"].append(("C12:system-output-depends-on-residue:%s" % params["side"],
                                      "the %s's outputs differ between receive-buffer residue '%s' and '%s' (first difference at output #%d)"
                                      % (params["side"], base[0], residue[0], i),
                                      {"seed": params["seed"], "with_" + base[0]: repr(a)[:500], "with_" + residue[0]: repr(b_)[:500]}))
            break
    out["evaluations"] = out["stats"]["residue_runs"]
    if base is not None and len(base[1]) > 10:
        out["nontrivial"].append(repr(("system", params["side"], params.get("qtype"), bool(params.get("raw")), len(base[1]) // 50)))
    if params["idx"] < 2:
        out["sample"] = {"engine": "A", "side": params["side"], "outputs_per_run": len(base[1]) if base else 0, "residues": [r[0] for r in RESIDUES]}
    return out


def run(ctx):
    res = core.Result()
    res.rule = ("differential over receive-buffer residues: the tree's dns_decode() is run on the same datagram followed "
                "by 6 different residues (zeros, 0xFF, ascending bytes, repeated C0 0C, a plausible continuation with "
                "labels/domain/RR tails, the tail of a previous longer datagram of another client); return value, "
                "decoded name/type/id/rcode and output bytes must be identical. Datagrams: valid queries cut at every "
                "byte, names ending in pointers that target offsets around the datagram end, label lengths exceeding "
                "the bytes present, answers of all 7 record types (built by the tree's own encoder) cut at every byte, "
                "with RDLENGTH / TXT string length inflated, CNAME targets replaced by pointers to the end region. "
                "Engine A confirmation: the real server (two model-client sessions, each short/truncated/pointer-ending "
                "datagram preceded by a longer one from the other client) and the real client (model server sending a longer "
                "answer, a truncated / RDLENGTH-lying / pointer-tricked one, then the real one) are each run under 6 residue "
                "policies of the simulated recv (keep = true stale bytes, zeros, 0xFF, C0 0C, a plausible continuation, ascending "
                "bytes); every datagram sent, every tun write, every system() command and the final users[] table must be "
                "identical; in the server runs half of the lingering datagrams are a third party's stateless case-check query with a unique "
                "canary name, and no datagram sent because of a datagram without the canary may contain it. evaluations = decode calls + whole-program runs; non-trivial = distinct (datagram kind, decode "
                "outcome) classes + system traces compared.")
    res.assumptions = ["a read past the end that cannot influence any output is not a violation (property as stated)",
                       "sanitizers cannot see this class: the 64 KB buffer is fully addressable"]
    res.min_nontrivial = 12
    rounds = ctx.pick(30 * 16, 3000 * 16)
    with core.Build() as b:
        drv = b.unit("residue", ["residue.c"], objs=["dns", "read", "encoding", "base32", "base64", "base64u", "base128"], libs=())
        sh = ctx.jobs
        unitrun.run_sharded(res, "C12", drv, sh, lambda i: [i, sh, ctx.seed, rounds])
        # Engine A confirmation: whole-program output traces under different receive-buffer residues
        rng = random.Random(ctx.seed * 1213 + 12)
        n = ctx.pick(96, 6000)
        plist = [{"idx": i, "seed": ctx.seed * 100000 + i, "rseed": rng.getrandbits(32), "side": "server" if i % 2 == 0 else "client",
                  "n": rng.randint(20, 60), "p": rng.choice([0.2, 0.5]), "qtype": rng.choice([None, "NULL", "TXT", "CNAME", "MX", "SRV", "A"]),
                  "raw": i % 8 == 3}
                 for i in range(n)]
        for p_ in plist:
            if p_["side"] == "server" and (p_["idx"] // 2) % 4 == 2:
                p_["bind"] = True
            if p_["side"] == "server" and (p_["idx"] // 2) % 6 == 1:
                p_["ns_auto"] = rng.choice([["notresponse", "cut", "full"], ["notresponse", "cut", "cut"], ["cut", "notresponse", "cut"], ["full"],
                                            ["silent", "notresponse", "cut"]])
                p_["ns_auto_cut"] = rng.choice([0, 0, 0, 1, 2, 5, 11])
                p_["n"] = min(p_["n"], 25)
        if ctx.replay and "params" in (ctx.replay.get("witness") or {}):
            plist = [ctx.replay["witness"]["params"]]
        sysres = core.Result()
        simrun.run_scenarios(sysres, b, scn, plist, jobs=ctx.jobs)
        simrun.finalize_sets(sysres)
        res.violations += sysres.violations
        res.harness_errors += sysres.harness_errors
        res.evaluations += sysres.evaluations
        res.inconclusive += sysres.inconclusive
        for kk, vv in sysres.inconclusive_why.items():
            res.inconclusive_why[kk] = res.inconclusive_why.get(kk, 0) + vv
        for sig in sysres.nontrivial:
            res.nt(sig)
        for kk, vv in sysres.extra.items():
            res.extra["system_" + kk] = vv
        res.samples += sysres.samples[:2]
    return res
