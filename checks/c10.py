"""C10 - every emitted DNS message is well-formed and answers echo their question (Engine A)."""
from checks import _sess


def run(ctx):
    return _sess.run_generic(
        ctx, "C10",
        "strict RFC 1035 parser applied to every DNS-mode datagram sent by the real server (and, in the real-client "
        "scenarios, by the real client): counts == records present, labels 1..63, names <=255, pointers backwards to "
        "a label boundary, RDLENGTH == typed RDATA size, TXT tiled by its strings; answers echo id/name/type/class of a "
        "query received from their destination; NS and A auxiliary answers. Workload: model-client sessions (all 7 "
        "query types x downstream codecs x fragment sizes, handshake commands incl. error answers, fragment-size "
        "probes, cache replays, NS/A queries, wildcard domain, -n) and real-client tunnel runs through the relay. "
        "non-trivial = scenario with >20 judged answers; distinct over (kind, qtype, downstream codec, big fragsize, "
        "wildcard, -n | negotiated settings).",
        300, 20000, 60, 400)
