"""C16 - re-delivered queries are never processed twice (Engine A).

One seeded, strictly time-scripted model-client session against the real iodined is executed twice:
S0 as is, S1 with re-deliveries of queries the server has recently seen (among the last few answered,
the last 12 data / 25 ping queries, or currently held), 1-5 copies each, with the same or a new DNS
id, from the same or another port (with -c: another address), with the letter case of the name changed
when the upstream codec is Base32.

Oracles
  differential  server tun writes, the packets delivered to the client, and the transfer counters at the
                quiescent end are identical in S0 and S1 (nothing appended twice, downstream neither
                advanced nor rewound);
  invariant     in S1, across every select() iteration in which the server handled nothing but a re-delivered
                copy and emitted nothing but answers to it, the session's inpacket.{seqno,fragment,len} and
                outpacket.{seqno,fragment,offset} are unchanged;
  cache         a byte-identical repeat (same name and type) of one of the session's three most recently
                answered ping/data queries is answered with the same decoded payload as the original.
"""
import random
import struct

from vflib import core, simrun
from simnet import authmon, mclient, proto, scen
from simnet.scen import US
from checks.c04 import Scripted, first_diff

COUNTERS = ("in_seq", "in_frag", "in_len", "out_seq", "out_frag", "out_offset")
FINAL = ("in_seq", "in_frag", "in_len", "in_offset", "out_seq", "out_frag", "out_len", "out_offset", "outpacketq_filled")
HEX = b"0123456789abcdefABCDEF"


def is_pd(labels):
    c = labels[0][:1]
    return c in (b"p", b"P") or c in HEX


def run_one(params, with_dups, faults=False):
    seed = params["seed"]
    rng = random.Random(params["rseed"])
    sim = scen.Sim("c16-%d-%d" % (params["idx"], int(with_dups)), seed)
    k = sim.k
    k.keep_snaps = True
    if params.get("latency"):
        # a slow path: several of the client's queries are under way at any time, so most of them do not yet acknowledge the
        # fragment the server has just sent (it re-sends it, counting its re-sends)
        k.latency_us = params["latency"]
    srv = sim.server(tun="10.9.0.1/24", extra=["-c"] if params["check_ip_off"] else [])
    R = {"ok": False, "sim": sim}
    if not srv.alive():
        R["why"] = "server-died-at-start"
        return R
    dom = sim.domain
    V = mclient.ModelClient("10.53.2.1", (scen.SERVER_IP, 53), dom, sim.password, random.Random(rng.getrandbits(32)), qtype=params["qtype"])
    k.add_actor(V.ip, V)
    alt = mclient.ModelClient("10.53.2.9", (scen.SERVER_IP, 53), dom, sim.password, random.Random(1), qtype=params["qtype"])
    k.add_actor(alt.ip, alt)        # "another relay address" (only used with -c)
    if not V.connect():
        R["why"] = "model-login-failed"
        return R
    V.switch_codec(proto.CODECS[params["up"]])
    if params["down"]:
        V.option(params["down"].encode())
    if params["lazy"]:
        V.option(b"l")
    V.set_frag(params["frag"])
    V.strict_match = True
    W = None
    if params.get("bystander"):
        # a second established session (both runs) whose pings interleave with the judged session's at the server
        W = mclient.ModelClient("10.53.2.5", (scen.SERVER_IP, 53), dom, sim.password, random.Random(rng.getrandbits(32)), qtype=params["qtype"])
        k.add_actor(W.ip, W)
        if not W.connect():
            R["why"] = "model-login-failed"
            return R
        if params["bystander"] == "lazy":
            W.option(b"l")
    T0 = 2 * US
    if k.now >= T0:
        T0 = k.now + 100000
    k.run(T0)
    sv = Scripted(V, random.Random(rng.getrandbits(32)))
    step, nticks = params["step"], params["nticks"]
    end = T0 + nticks * step + 3 * US
    frng = random.Random(rng.getrandbits(32))
    trng = random.Random(rng.getrandbits(32))
    ident = [0]

    def frame(src, dst, size, style):
        ident[0] += 1
        return proto.make_frame(src, dst, (0xC16 << 36) | (params["idx"] << 16) | ident[0], size, style, frng)

    for i in range(nticks):
        k.at(T0 + i * step, sv.tick)
    if W is not None:
        def wtick():
            W.drain()
            W.query(W.ping_labels())
        wstep = max(step * 2 // 3, 20000)
        for i in range(nticks * step // wstep):
            k.at(T0 + i * wstep + step // 3 + 1, wtick)
    for _ in range(params["nup"]):
        sizes = [32, 36, 40, 48] if params.get("many_small_up") else [40, 100, 300, 600]
        f = frame(V.tun_ip, "10.9.0.1", trng.choice(sizes), trng.choice(["random", "text"]))
        k.at(T0 + trng.randrange(nticks * step) + 17, sv.frames.append, f)
    tdown = T0 + 13
    for _ in range(params["ndown"]):
        f = frame("10.9.0.1", V.tun_ip, trng.choice([60, 90, 120] if params.get("many_down") else [2100, 3000, 3600, 4000, 900] if params.get("big_down") else [40, 100, 400, 900]),
                  "random" if params.get("big_down") else trng.choice(["random", "text"]))
        nfr = (len(proto.deflate(f)) + params["frag"] - 1) // params["frag"]
        tdown += 0 if params.get("many_down") else trng.randrange(3 * step)
        if tdown >= T0 + nticks * step or nfr > 14:
            continue
        k.at(tdown, k.offer_tun, "srv", f, ident[0])
        tdown += (nfr + (trng.choice([0, 1, 1]) if params.get("many_down") else 3)) * step
    # re-deliveries (S1 only), from their own PRNG
    drng = random.Random(params["dseed"])
    dups = []      # (time, datagram bytes sent, kind, original datagram)

    def redeliver():
        cand = [d for d in V.dgrams[-40:]]
        pings = [d for d in cand if _first(d)[:1] in (b"p", b"P")][-25:]
        datas = [d for d in cand if _first(d)[:1] in HEX][-12:]
        pool = pings + datas
        if not pool:
            return
        r = drng.random()
        if params.get("many_down") and pings and r < 0.5:
            d = drng.choice(pings[:6])           # the oldest pings still inside the server's ping window
        elif r < 0.4:
            d = V.dgrams[-drng.randint(1, min(4, len(V.dgrams)))]     # very recent: answer cache / pending
            if not is_pd([_first(d)]):
                d = drng.choice(pool)
        else:
            d = drng.choice(pool)
        for _ in range(drng.randint(3, 9) if params.get("storm") else drng.randint(1, 5)):
            out = d
            kind = []
            oid = struct.unpack_from(">H", d, 0)[0]
            pending_now = oid not in V.answered_ids
            if params["up"] == "Base32" and drng.random() < 0.3 and (params["pending_case"] or not pending_now):
                try:
                    labels, off = proto.read_name(d, 12)
                    nd = len(V.domain)
                    nl = [l.swapcase() for l in labels[:len(labels) - nd]] + labels[len(labels) - nd:]
                    out = d[:12] + proto.encode_name(nl) + d[off:]
                    kind.append("case")
                except (proto.ParseError, ValueError):
                    pass
            if drng.random() < 0.5:
                # an id the relay made up: never one the client itself has used or is about to use (a relay keeps its own
                # ids apart from its clients'; a collision would make the model client take the copy's answer for its own)
                nid = drng.randint(1, 65535)
                own_next = {(V.next_id + 7727 * j) & 0xFFFF for j in range(1, 400)}
                while nid in V.my_ids or nid in own_next:
                    nid = drng.randint(1, 65535)
                out = struct.pack(">H", nid) + out[2:]
                kind.append("newid")
            sport = V.sport
            src_ip = V.ip
            if drng.random() < 0.4:
                sport = drng.randint(1025, 65000)
                kind.append("newport")
            if params["check_ip_off"] and drng.random() < 0.4:
                src_ip = alt.ip
                kind.append("newaddr")
            if not kind:
                kind.append("verbatim")
            dups.append((k.now, out, "+".join(kind), d))
            k.emit("dup", "harness", data=out, orig=d, how="+".join(kind))
            k.transmit((src_ip, sport), V.server, out, delay_us=k.latency_us + drng.choice([0, 0, 300, 7000]))

    for _ in range(params["ndup"]):
        t = T0 + step + drng.randrange(nticks * step) + 7
        if with_dups:
            k.at(t, redeliver)
    # the client changes its downstream fragment size in mid-session (both runs); in S1 the queries answered just before the
    # change are re-delivered right after it: what the answer cache replays is what was sent, whatever the size is now
    def refrag(size):
        V.query(proto.msg_setfrag(V.domain, V.userid, size, V.new_cmc()))
        V.fragsize = size

    def redeliver_recent():
        n = 0
        for d in reversed(V.dgrams[-8:]):
            if not is_pd([_first(d)]) or n >= 4:
                continue
            n += 1
            nid = drng.randint(1, 65535)
            own_next = {(V.next_id + 7727 * j) & 0xFFFF for j in range(1, 400)}
            while nid in V.my_ids or nid in own_next:
                nid = drng.randint(1, 65535)
            out = struct.pack(">H", nid) + d[2:] if drng.random() < 0.7 else d
            dups.append((k.now, out, "newid" if out is not d else "verbatim", d))
            k.emit("dup", "harness", data=out, orig=d, how="after-refrag")
            k.transmit((V.ip, V.sport), V.server, out, delay_us=k.latency_us + 300 * n)
    for (tick, size) in params.get("refrag", ()):
        k.at(T0 + tick * step + 9, refrag, size)
        if with_dups:
            k.at(T0 + tick * step + 9 + 2500, redeliver_recent)
    if faults:
        # now and then the operating system refuses one of the server's sendto() calls: the query concerned was processed
        # all the same, and a later copy of it is still a copy
        xrng = random.Random(params["dseed"] ^ 0x5E2D)

        def arm():
            k.send_faults[:] = [f for f in k.send_faults if f["count"] > 0]
            if len(k.send_faults) < 2:
                k.send_faults.append({"proc": "srv", "dst_port": None, "errno": xrng.choice([105, 1, 11]), "count": 1,
                                      "skip": xrng.choice([0, 0, 1, 2])})
        for _ in range(xrng.randint(4, 14)):
            k.at(T0 + xrng.randrange(nticks * step), arm)
    k.run(end)
    R.update(ok=True, k=k, srv=srv, V=V, dups=dups)
    return R


def _first(d):
    try:
        labels, _ = proto.read_name(d, 12)
        return labels[0] if labels else b""
    except proto.ParseError:
        return b""


def projection(R):
    k, V = R["k"], R["V"]
    tunw = [ev[3]["data"].hex() for ev in k.log if ev[1] == "tun_write" and ev[2] == "srv"]
    V.drain()
    frames = [(fr.hex() if fr is not None else None) for _t, fr in V.delivered]
    last = None
    for ev in k.log:
        if ev[1] == "wait" and ev[2] == "srv" and "rows" in ev[3] and V.userid < len(ev[3]["rows"]):
            last = ev[3]["rows"][V.userid]
    final = [tuple((f, last[f]) for f in FINAL)] if last else []
    return tunw, frames, final


def invariant_and_cache(R, domain):
    """Within S1: counters unchanged across iterations that handled only a re-delivered copy; cache rule."""
    k, V = R["k"], R["V"]
    uid = V.userid
    dupset = {}
    for (_t, out, kind, orig) in R["dups"]:
        dupset.setdefault(out, []).append((kind, orig))
    viol = []
    st = {"dups_delivered": 0, "dup_iterations_judged": 0, "dup_iterations_skipped": 0, "cache_repeats_judged": 0,
          "dup_answers_x": 0, "dup_answers_cached": 0, "dup_remembered_or_silent": 0}
    kinds = set()
    dl = authmon._domain_labels(domain)
    orig_sent = {e[3]["data"] for e in k.log if e[1] == "asend" and e[2] == "actor:" + V.ip}
    first_seen = set()
    prev = None            # counters at the previous wait
    inputs = []            # inputs handled since the previous wait: ("dup"|"other", ev)
    sends = []
    recent = []            # [(name, type, payload)] of the session's distinct answered ping/data names, oldest first
    seen_names = set()
    expect = {}            # (dst, id, name, type) -> payload expected for an identical repeat
    for ev in k.log:
        kind, who, kw = ev[1], ev[2], ev[3]
        if who != "srv":
            continue
        if kind == "recv":
            d = kw["data"]
            pair = (kw["src"], d)
            if d in orig_sent and kw["src"] == (V.ip, V.sport) and pair not in first_seen:
                isdup = False           # the client's own copy (arrives once, before any re-delivery of it)
                first_seen.add(pair)
            else:
                isdup = d in dupset
            inputs.append(("dup" if isdup else "other", ev))
            if isdup:
                st["dups_delivered"] += 1
                try:
                    m = proto.parse_msg(d)
                    nm = (tuple(m.qd[0][0]), m.qd[0][1])
                    for (n2, t2, pl) in recent[-3:]:
                        if (n2, t2) == nm:
                            expect[(kw["src"], m.id, n2, t2)] = pl
                except (proto.ParseError, IndexError):
                    pass
        elif kind == "tun_read":
            inputs.append(("other", ev))
        elif kind == "send" or (kind == "send_error" and kw.get("injected") and kw.get("data") is not None):
            # (an answer the OS refused to send was still produced and entered the server's answer cache)
            if kind == "send":
                sends.append(ev)
            d = kw["data"]
            if d[:3] == proto.RAW_MAGIC:
                continue
            try:
                m = proto.parse_msg(d)
                if not m.qr or not m.qd or authmon.data_text(m.qd[0][0], dl) is None or not is_pd(m.qd[0][0]):
                    continue
                p = proto.extract_payload(m)
            except (proto.ParseError, proto.Undecodable, IndexError, struct.error):
                continue
            nm = (tuple(m.qd[0][0]), m.qd[0][1])
            key = (kw["dst"], m.id) + nm
            if key in expect:
                want = expect.pop(key)
                st["cache_repeats_judged"] += 1
                if p != want:
                    viol.append(("C16:cached-repeat-answered-differently",
                                 "an identical repeat of one of the three most recently answered queries got payload %s, the original got %s"
                                 % (p[:24].hex(), want[:24].hex()), {"time_us": ev[0], "query": b".".join(nm[0])[:80].decode("latin1")}))
                else:
                    kinds.add(("cache-repeat-same-payload",))
            if nm not in seen_names and len(p) >= 2 and p not in (b"BADIP", b"x"):
                seen_names.add(nm)
                recent.append((nm[0], nm[1], p))
        elif kind == "wait" and "rows" in kw and uid < len(kw["rows"]):
            r = kw["rows"][uid]
            cur = tuple(r[f] for f in COUNTERS)
            if prev is not None and inputs:
                only_dups = all(x[0] == "dup" for x in inputs)
                if only_dups:
                    dup_keys = set()
                    for _x, e in inputs:
                        try:
                            mm = proto.parse_msg(e[3]["data"])
                            dup_keys.add((e[3]["src"], mm.id))
                        except proto.ParseError:
                            pass
                    foreign = False
                    for s_ev in sends:
                        dd = s_ev[3]["data"]
                        try:
                            mm = proto.parse_msg(dd)
                            if (s_ev[3]["dst"], mm.id) not in dup_keys:
                                foreign = True
                            else:
                                try:
                                    pp = proto.extract_payload(mm)
                                    if pp == b"x":
                                        st["dup_answers_x"] += 1
                                        kinds.add(("suppressed-with-x",))
                                    else:
                                        st["dup_answers_cached"] += 1
                                except Exception:
                                    pass
                        except proto.ParseError:
                            foreign = True
                    if not sends:
                        st["dup_remembered_or_silent"] += 1
                        kinds.add(("remembered-or-dropped",))
                    if foreign:
                        st["dup_iterations_skipped"] += 1
                    else:
                        st["dup_iterations_judged"] += 1
                        if cur != prev:
                            viol.append(("C16:redelivery-changed-transfer-state",
                                         "handling only a re-delivered query changed the session's counters %r from %r to %r" % (COUNTERS, prev, cur),
                                         {"time_us": ev[0], "redelivered": inputs[0][1][3]["data"].hex()[:200],
                                          "kind": dupset.get(inputs[0][1][3]["data"], [("?", b"")])[0][0]}))
                        else:
                            for _x, e in inputs:
                                for (kk, _o) in dupset.get(e[3]["data"], []):
                                    kinds.add(("unchanged", kk))
            prev = cur
            inputs = []
            sends = []
    return viol, st, kinds


def scn(params):
    out = {"violations": [], "nontrivial": [], "stats": {}, "evaluations": 0, "sets": {}}
    R0 = run_one(params, False)
    R1 = None
    try:
        if not R0["ok"]:
            out["inconclusive"] = R0["why"]
            return out
        R1 = run_one(params, True)
        if not R1["ok"]:
            out["inconclusive"] = R1["why"]
            return out
        for R in (R0, R1):
            h = R["sim"].health(R["srv"])
            if h != "running":
                out["inconclusive"] = "server-" + h.split(":")[0]
                out["stats"]["server_died"] = 1
                return out
        wit = {"seed": params["seed"]}
        p0, p1 = projection(R0), projection(R1)
        # A copy with changed letter case of a query that is still being held back is, by design (strcmp), a new
        # query to the server: it becomes the carrier of later downstream data, so a client that only listens to
        # its own ids sees a different stream.  The property's clauses (nothing appended twice, stream position
        # not moved) are still judged for such pairs by the invariant oracle; the differential is not applicable.
        for part, label in zip(range(3), ("server-tun-writes", "delivered-packets", "final-transfer-state")):
            if params["pending_case"]:
                break
            d = first_diff(p0[part], p1[part])
            if d is not None:
                out["violations"].append(("C16:redelivery-changed:%s" % label,
                                          "%s differ between the run with and the run without re-delivered queries (first difference at index %d)" % (label, d[0]),
                                          dict(wit, without=repr(d[1])[:400], with_redeliveries=repr(d[2])[:400],
                                               redeliveries=[(t, kk) for t, _o, kk, _d in R1["dups"][:30]])))
                break
        v, st, kinds = invariant_and_cache(R1, R1["sim"].domain)
        for (key, what, w) in v[:3]:
            out["violations"].append((key, what, dict(w, seed=params["seed"])))
        out["stats"].update(st)
        if params.get("sendfaults") and not out["violations"]:
            # third run: re-deliveries plus occasional sendto() failures on the server; the victim's own course may differ
            # from the other two runs, so only the oracles that look at this run alone apply
            R2 = run_one(params, True, faults=True)
            try:
                if R2["ok"] and R2["sim"].health(R2["srv"]) == "running":
                    v2, st2, kinds2 = invariant_and_cache(R2, R2["sim"].domain)
                    for (key, what, w) in v2[:3]:
                        out["violations"].append((key, what, dict(w, seed=params["seed"], with_sendto_failures=True)))
                    out["stats"]["sendfault_runs"] = 1
                    out["stats"]["sendfault_failures_injected"] = sum(1 for e in R2["k"].log if e[1] == "send_error" and e[3].get("injected"))
                    out["stats"]["sendfault_dup_iterations_judged"] = st2["dup_iterations_judged"]
                    kinds |= {tuple(x) + ("sendfaults",) for x in kinds2}
            finally:
                R2["sim"].close()
        out["stats"]["server_tun_writes_compared"] = len(p0[0])
        out["stats"]["delivered_packets_compared"] = len(p0[1])
        out["evaluations"] = len(R1["dups"])
        out["sets"]["c16_kinds"] = {repr(x) for x in kinds}
        if len(R1["dups"]) >= 5 and len(p0[0]) >= 1 and len(p0[1]) >= 1 and st["dup_iterations_judged"] >= 3:
            for x in kinds:
                out["nontrivial"].append(repr(tuple(x) + (params["qtype"], params["lazy"], params["up"], params["check_ip_off"], params["pending_case"])))
        if params["idx"] < 3:
            out["sample"] = {"qtype": params["qtype"], "lazy": params["lazy"], "up": params["up"], "frag": params["frag"],
                             "redeliveries": [(t, kk) for t, _o, kk, _d in R1["dups"][:8]], "monitor": dict(st),
                             "tun_writes": len(p0[0]), "delivered": len(p0[1])}
        return out
    finally:
        R0["sim"].close()
        if R1 is not None:
            R1["sim"].close()


def run(ctx):
    res = core.Result()
    res.rule = ("pair = one time-scripted model-client session (all 7 query types, 4 upstream codecs, downstream codecs, lazy and "
                "immediate, fragment sizes 20..1000, multi-fragment frames both ways) run with and without 5-60 re-deliveries of "
                "queries from the answer-cache / query-memory / pending windows (1-5 copies; same or new id, same or new port, "
                "another address with -c, swapped letter case with Base32). Oracles: differential (server tun writes, packets "
                "delivered to the client, final transfer counters), per-iteration invariant on the users[] snapshot (counters "
                "unchanged when only a re-delivered copy was handled), and same-payload rule for identical repeats of the three "
                "most recently answered queries; a third of the pairs get a third run with occasional sendto() failures on the server, judged "
                "by the invariant and the same-payload rule only. evaluations = re-delivered datagrams; distinct non-trivial = (outcome class, "
                "re-delivery kind, qtype, lazy, upstream codec, -c) of pairs with >=5 re-deliveries, >=3 judged iterations and "
                "traffic delivered both ways.")
    res.assumptions = ["the client only accepts the first answer to an id it issued from its own port (as a stub resolver would)",
                       "re-deliveries are drawn from inside the server's documented windows (4 answers, 15 data / 30 ping fingerprints, pending queries)"]
    n = ctx.pick(400, 30000)
    rng = random.Random(ctx.seed * 7877 + 16)
    plist = []
    for i in range(n):
        qt = list(proto.QTYPES.values())[i % 7]
        big = qt in (proto.T_NULL, proto.T_PRIVATE, proto.T_TXT, proto.T_SRV, proto.T_MX)
        down = None
        if qt == proto.T_TXT:
            down = rng.choice([None, "s", "u", "v", "r"])
        elif qt in (proto.T_NULL, proto.T_PRIVATE):
            down = rng.choice([None, "r"])
        else:
            down = rng.choice([None, "s", "u", "v"])
        plist.append({"idx": i, "seed": ctx.seed * 100000 + i, "rseed": rng.getrandbits(32), "dseed": rng.getrandbits(32),
                      "qtype": qt, "up": rng.choice(["Base32", "Base32", "Base64", "Base64u", "Base128"]), "down": down,
                      "lazy": rng.random() < 0.65, "frag": rng.choice([20, 50, 100, 200, 1000] if big else [20, 50, 100]),
                      "check_ip_off": rng.random() < 0.3, "step": rng.choice([40000, 100000, 250000]),
                      "nticks": rng.randint(80, 160), "nup": rng.randint(1, 6), "ndown": rng.randint(1, 7),
                      "ndup": rng.randint(5, 60), "pending_case": rng.random() < 0.25, "sendfaults": i % 3 == 0})
        if i % 4 == 3:
            # many single-fragment upstream packets: copies of data queries that are several *packets* old but still
            # inside the 15-entry data fingerprint window
            plist[-1].update(many_small_up=True, nup=rng.randint(12, 30), up="Base32" if rng.random() < 0.7 else plist[-1]["up"],
                             ndup=rng.randint(30, 80))
        if i % 8 == 1:
            # long downloads: many multi-fragment downstream packets, so that the 3-bit sequence number wraps while pings
            # from one wrap earlier are still inside the 30-entry ping window
            plist[-1].update(many_down=True, ndown=rng.randint(12, 22), nticks=rng.randint(180, 260), frag=50,
                             lazy=rng.random() < 0.8, ndup=rng.randint(50, 90), nup=rng.randint(0, 2))
        if i % 16 == 11:
            # a client that asks rarely (iodine -I 6..9: one query every 6-9 s): in lazy mode each query waits at the server for
            # seconds; many one-fragment upstream packets, and copies of data queries that are several packets old
            plist[-1].update(many_small_up=True, lazy=True, step=rng.choice([6000000, 7000000, 9000000]), nticks=rng.randint(36, 48),
                             nup=rng.randint(24, 34), ndup=rng.randint(40, 70), up="Base32" if rng.random() < 0.7 else plist[-1]["up"], ndown=rng.randint(0, 3))
        if i % 8 == 2:
            # a slow path and a relay that repeats itself many times ("any number of times"): downloads of many fragments with
            # two or three queries under way, 3-9 copies per re-delivery
            plist[-1].update(storm=True, latency=rng.choice([30000, 60000]), step=40000, lazy=True, frag=rng.choice([20, 50]),
                             ndown=rng.randint(4, 8), nticks=rng.randint(160, 240), ndup=rng.randint(40, 80), nup=rng.randint(0, 3))
        if i % 3 == 1:
            plist[-1]["bystander"] = "lazy" if i % 6 == 1 else "immediate"
            if i % 6 == 1:
                plist[-1]["lazy"] = True
        if i % 8 == 5 and not plist[-1].get("many_down"):
            # the downstream fragment size is lowered (and raised again) while larger fragments are still in the answer cache
            nt_ = plist[-1]["nticks"]
            plist[-1].update(frag=rng.choice([200, 1000] if big else [100]), ndown=rng.randint(4, 8),
                             refrag=[(nt_ // 3, rng.choice([20, 50])), (2 * nt_ // 3, rng.choice([100, 30]))])
        if i % 16 in (7, 14):
            # the largest answers the server's answer cache holds: fragments of 2 .. 4 KB (record types that carry them)
            plist[-1].update(big_down=True, qtype=[proto.T_NULL, proto.T_PRIVATE][(i // 16) % 2], down=rng.choice([None, "r"]),
                             frag=rng.choice([2047, 2100, 3000, 4093, 4094]), ndown=rng.randint(3, 7), ndup=rng.randint(30, 60))
            plist[-1].pop("many_small_up", None)
    if ctx.replay:
        plist = [ctx.replay["witness"]["params"]]
    res.min_evaluations = 0 if ctx.replay else 1500
    res.min_nontrivial = 0 if ctx.replay else ctx.pick(60, 200)
    with core.Build() as b:
        simrun.run_scenarios(res, b, scn, plist, jobs=ctx.jobs)
    dead = res.inconclusive_why.get("server-sanitizer", 0)
    if dead > len(plist) // 5 and not res.violations:
        # The server is killed by a sanitizer report in so many of these ordinary sessions that this property cannot be judged on
        # the instrumented build (the report itself is C05's business and C02's).  What re-delivered queries do to the program
        # as it is shipped is still a question with an answer: the same pairs are run on a build without sanitizers.
        res2 = core.Result()
        res2.rule, res2.assumptions = res.rule, res.assumptions + ["judged on a build without sanitizers: the instrumented server died of a sanitizer report in %d of %d pairs" % (dead, len(plist))]
        res2.min_evaluations, res2.min_nontrivial = res.min_evaluations, res.min_nontrivial
        with core.Build(sanitize=False) as b2:
            simrun.run_scenarios(res2, b2, scn, plist[:max(60, len(plist) // 4)], jobs=ctx.jobs)
        res2.min_evaluations = min(res2.min_evaluations, 300)
        res2.min_nontrivial = min(res2.min_nontrivial, 20)
        res2.extra["sanitizer_deaths_on_the_instrumented_build"] = dead
        simrun.finalize_sets(res2)
        return res2
    simrun.finalize_sets(res)
    return res
