"""C17 - tunnel domain validation and query-name matching follow label boundaries exactly
(Engine B, unit/domain.c linked against the tree's common.o under ASan/UBSan)."""
import re

from vflib import core, unitrun

QUICK_MATCHLEN = 8   # the whole enumeration costs ~5 s on 16 cores, so the quick tier does it too
THOROUGH_MATCHLEN = 8
QUICK_RANDOM = 100000
THOROUGH_RANDOM = 1000000


def run(ctx):
    res = core.Result()
    res.rule = (
        "check_topdomain() and query_datalen() from the tree's common.o are compared, input by input, with a "
        "reference written from the property text that works on labels (split on '.', compare labels from the "
        "right with ASCII case folding) instead of the code's backward character scan. "
        "validate(s, allow_wildcard) accepts iff 3 <= len <= 128, every char is in [A-Za-z0-9.-] except a leading "
        "'*.' when allow_wildcard, there are >= 2 labels and every label has 1..63 chars. "
        "match(name, domain): plain domain with k labels matches iff the name has >= k labels and its last k labels "
        "equal the domain's; data length = offset of the first matched label (= strlen(name)-strlen(domain), so it "
        "includes the separating dot, as tests/common.c expects). Wildcard domain '*.rest': the last k labels equal "
        "rest and the label before them is non-empty and star-free; data length = offset of that label. "
        "A violation is any difference in accept/reject or in the data length, or a sanitizer report. "
        "In scope: every name without two consecutive dots, including names with a leading dot (empty first label: "
        "'.a.b' carries one data char for domain 'a.b', as tests/common.c expects) and with a trailing dot (never "
        "equal to / ending with a domain, so rejected). Names containing '..' are not generated for matching "
        "(outside the quantifier). Workload per run: (1) validation boundary cases: label lengths 1/2/62..65 in 2-3 "
        "labels, every total length 0..140 for 13 label sizes, every byte value 1..255 at 4 positions of 3 domains, "
        "'*' at every position of a 128-char domain, all with and without a '*.' prefix and with allow_wildcard 0 "
        "and 1; (2) every string of length 0..7 over {a,A,b,-,.,*,0} x allow_wildcard {0,1}; (3) every string of "
        "length 0..L over that alphabet without '..' against 16 accepted domains (9 plain, 7 wildcard, 1-3 literal "
        "labels, mixed case), L=8 in both tiers; (4) seeded random cases: a random accepted domain of 3..128 "
        "chars (validated both ways; one in four also as a damaged copy), and a random name of up to 255 chars "
        "that with probability 1/2 ends in the case-randomised domain or a near miss (one char changed, label "
        "boundary shifted, '*' in or as the wildcard label, first label dropped, trailing dot, bare domain, domain "
        "in the middle, padded to exactly 255). distinct_nontrivial = outcome classes derived from the reference's "
        "reason codes that were actually exercised with real code and reference in agreement.")
    res.assumptions = [
        "a label matched by the wildcard must be non-empty: the text says 'exactly one star-free label' and an empty "
        "string is not taken to be a label ('.a.b' is outside '*.a.b'); the only in-scope name this decides is "
        "'.'+rest, which cannot arrive in DNS wire format",
        "case-insensitive means ASCII letters A-Z/a-z only; bytes >= 0x80 in names compare by value (C locale)",
        "query_datalen is only specified for domains accepted by the validator (with wildcard allowed); "
        "other domains are not passed to it",
        "ASan red zones around exact-size heap copies detect reads before/after the name and the domain",
        "the dispatch consequence in iodined.c (tunnel handling vs forwarding) is not observed by this unit check",
    ]
    res.min_nontrivial = 12
    matchlen = ctx.pick(QUICK_MATCHLEN, THOROUGH_MATCHLEN)
    nrandom = ctx.pick(QUICK_RANDOM, THOROUGH_RANDOM)
    seed = ctx.seed
    if ctx.replay:
        # a witness from the random phase names its seed and case number; the enumerations are seed-independent
        matchlen = THOROUGH_MATCHLEN
        nrandom = QUICK_RANDOM
        text = str((ctx.replay.get("witness") or {}).get("driver_output", ""))
        m = re.search(r"seed=(\d+) case=(\d+)", text)
        if m:
            seed = int(m.group(1))
            nrandom = max(QUICK_RANDOM, min(THOROUGH_RANDOM, int(m.group(2))))
    res.min_evaluations = 10000000 if matchlen < 8 else 80000000
    with core.Build(jobs=ctx.jobs) as b:
        drv = b.unit("domain", ["domain.c"], objs=["common"], libs=())
        sh = ctx.jobs
        unitrun.run_sharded(res, "C17", drv, sh, lambda i: [i, sh, seed, matchlen, nrandom], jobs=ctx.jobs)
    res.exhaustive = bool(matchlen >= 8)
    res.extra["exhaustive_subspace"] = (
        "validation: all strings of length 0..7 over {a,A,b,-,.,*,0} x allow_wildcard {0,1}; "
        "matching: all strings of length 0..%d over that alphabet without '..' x 16 domains%s"
        % (matchlen, "" if matchlen >= 8 else " (length 8 only in the thorough tier)"))
    return res
