"""C17 - tunnel domain validation and query-name matching follow label boundaries exactly
(Engine B, unit/domain.c linked against the tree's common.o under ASan/UBSan)."""
import random
import re

from vflib import core, simrun, unitrun

QUICK_MATCHLEN = 8   # the whole enumeration costs ~5 s on 16 cores, so the quick tier does it too
THOROUGH_MATCHLEN = 8
QUICK_RANDOM = 100000
THOROUGH_RANDOM = 1000000


# ---------------------------------------------------------------------------
# Engine A: the dispatch consequence in the real server - names inside the domain are tunnel traffic,
# names outside are never handled as tunnel traffic (with -b: forwarded; without: ignored)

def ref_inside(labels, dom):
    """Reference matcher on label lists (case-insensitive); dom may start with b'*'."""
    d = [x.lower() for x in dom]
    n = [x.lower() for x in labels]
    if d and d[0] == b"*":
        rest = d[1:]
        if len(n) < len(rest) + 1 or n[len(n) - len(rest):] != rest:
            return False
        w = n[len(n) - len(rest) - 1]
        return len(w) > 0 and b"*" not in w
    return len(n) >= len(d) and n[len(n) - len(d):] == d


def scn_dispatch(params):
    from simnet import kernel, proto, scen
    rng = random.Random(params["rseed"])
    out = {"violations": [], "nontrivial": [], "stats": {"dispatch_queries": 0, "dispatch_inside": 0, "dispatch_outside": 0,
                                                        "dispatch_ns_answers": 0, "dispatch_forwarded": 0}, "evaluations": 0, "sets": {}}
    sim = scen.Sim("c17d-%d" % params["idx"], params["seed"])
    try:
        k = sim.k
        dom = params["domain"]
        extra = ["-b", "5353"] if params["bind"] else []
        srv = sim.server(domain=dom, extra=extra)
        if not srv.alive():
            out["inconclusive"] = "server-died-at-start"
            return out

        class Sink(kernel.Actor):
            def __init__(self, ip):
                kernel.Actor.__init__(self, ip)
                self.got = []

            def on_datagram(self, src, dst, data):
                self.got.append((src, dst, data))

        res_ = Sink("127.0.0.1")
        cli = Sink("10.77.1.1")
        k.add_actor(res_.ip, res_)
        k.add_actor(cli.ip, cli)
        dl = proto.labels_from_dotted(dom.encode())
        base = dl[1:] if dl[0] == b"*" else dl
        wit = {"seed": params["seed"], "domain": dom, "bind": params["bind"]}

        def rcase(l):
            return bytes((c ^ 0x20) if (65 <= c <= 90 or 97 <= c <= 122) and rng.random() < 0.5 else c for c in l)

        def some_label():
            return bytes(rng.choice(b"abcxyz019-") for _ in range(rng.randint(1, 12)))

        for i in range(params["n"]):
            kind = rng.randrange(10)
            if kind == 0:
                labels = list(base)                                   # the (literal part of the) domain itself
            elif kind == 1:
                labels = [some_label()] + list(base)                  # one label in front
            elif kind == 2:
                labels = [some_label(), some_label()] + list(base)
            elif kind == 3:
                labels = [some_label() + base[0]] + list(base[1:])    # ends with the domain text, but not at a label boundary
            elif kind == 4:
                labels = list(base[1:]) or [b"com"]                   # the parent zone
            elif kind == 5:
                labels = list(base) + [some_label()]                  # domain in the middle
            elif kind == 6:
                labels = [rng.choice([b"*", b"a*", b"*a", b"a*b"])] + list(base)   # star in the label a wildcard would match
            elif kind == 7:
                labels = [some_label(), some_label()]                 # unrelated
            elif kind == 8:
                lb = bytearray(base[0])
                lb[rng.randrange(len(lb))] = ord("q")
                labels = [some_label(), bytes(lb)] + list(base[1:])   # one character of the domain changed
            else:
                labels = [rng.choice([b"ns", b"www", b"NS", b"vaaaaaaa"])] + list(base)
            if i % 7 == 3:
                # names of (nearly) the maximum length, 253 characters = 255 octets on the wire: inside the domain, and outside it
                # by one trailing character
                tail = list(base) if rng.random() < 0.5 else list(base[:-1]) + [base[-1] + b"x"]
                room = rng.choice([253, 253, 252, 251, 250, 249]) - len(b".".join(tail)) - 1
                front = []
                while room > 0:
                    l = min(63, room, rng.choice([63, 63, 40, 9]))
                    if room - l == 1:
                        l -= 1
                    if l <= 0:
                        break
                    front.append(bytes(rng.choice(b"abcxyz019-") for _ in range(l)))
                    room -= l + 1
                labels = front + tail
            labels = [rcase(l) for l in labels]
            if sum(len(l) + 1 for l in labels) + 1 > 255:
                continue
            qt = rng.choice([proto.T_NS, proto.T_NS, proto.T_A, proto.T_NULL, proto.T_TXT])
            if rng.random() < 0.3:
                # record types iodine does not tunnel over (AAAA, SOA, PTR, DNSKEY, HTTPS, ANY ...) and the remaining ones it does:
                # where a name belongs does not depend on the type asked for
                qt = rng.choice([28, 6, 12, 48, 65, 255, 2000, proto.T_MX, proto.T_SRV, proto.T_CNAME, proto.T_PRIVATE])
            inside = ref_inside(labels, dl)
            qid = rng.randint(1, 65535)
            n_res, n_cli = len(res_.got), len(cli.got)
            cli.send(40000 + i % 7, (scen.SERVER_IP, 53), proto.build_query(qid, labels, qt))
            k.run(k.now + 30000)
            out["stats"]["dispatch_queries"] += 1
            out["stats"]["dispatch_inside" if inside else "dispatch_outside"] += 1
            fwd = res_.got[n_res:]
            ans = cli.got[n_cli:]
            name = b".".join(labels).decode("latin1")
            if params["bind"]:
                out["stats"]["dispatch_forwarded"] += len(fwd)
                if inside and fwd:
                    out["violations"].append(("C17:dispatch:inside-name-forwarded", "query for %r (type %d), which is inside the tunnel domain %s, was forwarded to the other DNS server"
                                              % (name, qt, dom), wit))
                if not inside and len(fwd) != 1:
                    out["violations"].append(("C17:dispatch:outside-name-not-forwarded", "query for %r (type %d), outside %s, was not forwarded (%d datagrams)"
                                              % (name, qt, dom, len(fwd)), wit))
            if not inside and ans:
                out["violations"].append(("C17:dispatch:outside-name-handled", "query for %r (type %d), outside the tunnel domain %s, was answered by the tunnel server"
                                          % (name, qt, dom), wit))
            if inside and qt == proto.T_NS:
                ok = False
                for (_s, _d, data) in ans:
                    try:
                        m = proto.parse_msg(data)
                        ok = ok or (m.qr and m.id == qid and len(m.an) == 1 and m.an[0][1] == proto.T_NS)
                    except proto.ParseError:
                        pass
                out["stats"]["dispatch_ns_answers"] += int(ok)
                if not ok:
                    out["violations"].append(("C17:dispatch:inside-ns-query-not-answered", "NS query for %r, inside the tunnel domain %s, got no NS answer"
                                              % (name, dom), wit))
            out["nontrivial"].append(repr(("dispatch", kind, inside, qt == proto.T_NS, params["bind"], dl[0] == b"*")))
            if i % 6 == 5:
                # a question whose name is no name at all - only a compression pointer to itself, or to somewhere behind the end of
                # the datagram - right after a query the server handled: it names nothing, so it is not inside the domain, whatever
                # the server decoded last
                import struct as _st
                ptr = rng.choice([b"\xc0\x0c", b"\xc0\x0c", b"\xff\x77", b"\xc0\xff", b"\xc1\x00"])
                qt2 = rng.choice([proto.T_NS, proto.T_NULL, proto.T_TXT, proto.T_A, proto.T_PRIVATE])
                d = _st.pack(">HHHHHH", rng.randint(1, 65535), 0x0100, 1, 0, 0, 0) + ptr + (_st.pack(">HH", qt2, 1) if rng.random() < 0.8 else b"")
                n_cli = len(cli.got)
                cli.send(40000 + rng.randrange(9), (scen.SERVER_IP, 53), d)
                k.run(k.now + 30000)
                out["stats"]["dispatch_pointer_only_names"] = out["stats"].get("dispatch_pointer_only_names", 0) + 1
                if cli.got[n_cli:]:
                    out["violations"].append(("C17:dispatch:nameless-query-handled", "a query whose name is only the compression pointer %s (after a query for %r) was answered by the tunnel server"
                                              % (ptr.hex(), name), wit))
        out["evaluations"] = out["stats"]["dispatch_queries"]
        h = sim.health(srv)
        if h != "running":
            out["inconclusive"] = "server-" + h.split(":")[0]
        if params["idx"] < 2:
            out["sample"] = {"engine": "A dispatch", "domain": dom, "bind": params["bind"], "stats": dict(out["stats"])}
        return out
    finally:
        sim.close()


def ref_valid_domain(d, allow_wildcard):
    """The property's acceptance rule, written from its text."""
    if not (3 <= len(d) <= 128):
        return False
    body = d
    if d.startswith("*"):
        if not allow_wildcard or not d.startswith("*."):
            return False
        body = d[2:]
    if any(not (c.isascii() and (c.isalnum() or c in "-.")) for c in body):
        return False
    labels = d.split(".")
    return len(labels) >= 2 and all(1 <= len(x) <= 63 for x in labels)


def scn_startup(params):
    """Engine A: the two programs themselves, started with a domain on their command line: iodined <net> <domain> serves
    (reaches its main loop) exactly for accepted domains incl. a leading '*.'; iodine <nameserver> <domain> starts talking
    (sends its first query) exactly for accepted domains without wildcard, whatever the name server argument looks like."""
    from simnet import scen
    from simnet.scen import US
    out = {"violations": [], "nontrivial": [], "stats": {"startup_server_runs": 0, "startup_client_runs": 0}, "evaluations": 1, "sets": {}}
    sim = scen.Sim("c17s-%d" % params["idx"], params["seed"])
    try:
        k = sim.k
        dom = params["domain"]
        wit = {"seed": params["seed"], "params": params}
        if params["who"] == "server":
            srv = sim.server(domain=dom)
            k.run(k.now + 100000)
            accepted = srv.alive() and srv.nwaits > 0
            want = ref_valid_domain(dom, True)
            out["stats"]["startup_server_runs"] = 1
            who = "iodined"
        else:
            srv = sim.server()      # (something that answers, on the default domain)
            c = sim.client("cli0", "10.53.1.1" if ":" not in params["ns"] else "fd53::1:1", params["ns"], ["-r"], domain=dom)
            k.run(k.now + 3 * US)
            accepted = any(ev[1] == "send" and ev[2] == "cli0" for ev in k.log)
            want = ref_valid_domain(dom, False)
            out["stats"]["startup_client_runs"] = 1
            who = "iodine (name server argument %s)" % params["ns"]
        if accepted != want:
            out["violations"].append(("C17:startup:%s:%s" % (params["who"], "accepted-invalid" if accepted else "refused-valid"),
                                      "%s %s the domain %r (%d characters), which the rule %s" % (who, "went on with" if accepted else "refused", dom[:70], len(dom),
                                                                                                     "rejects" if accepted else "accepts"), wit))
        else:
            out["nontrivial"].append(repr(("startup", params["who"], params["kind"], want)))
        return out
    finally:
        sim.close()


def startup_params(ctx, rng):
    def lab(n):
        # (never a leading '-': on a command line that would be an option, which is getopt's business, not the rule's)
        return rng.choice("abcdefghijklmnopqrstuvwxyz") + "".join(rng.choice("abcdefghijklmnopqrstuvwxyzABCDEFGHIJ0123456789-") for _ in range(n - 1))

    def dom_of_len(n):
        parts = []
        left = n
        while left > 0:
            m = min(left, rng.choice([1, 3, 10, 40, 63]))
            if left - m == 1:
                m = left if left <= 63 else m - 1
            parts.append(lab(m))
            left -= m + 1
        if len(parts) < 2:
            parts = [lab(max(1, n - 2)), lab(1)] if n >= 3 else parts
        return ".".join(parts)

    cases = []
    for n in (3, 4, 64, 100, 126, 127, 128, 129, 130, 150, 201, 255):
        cases.append(("len%d" % n, dom_of_len(n)))
    cases += [("wild", "*." + dom_of_len(20)), ("wild-129", "*." + dom_of_len(127)), ("label63", lab(63) + ".example.com"),
              ("label64", lab(64) + ".example.com"), ("badchar", "bad_domain!.example.com"), ("nodots", "nodots"),
              ("dots2", "t..example.com"), ("leading-dot", ".t.example.com"), ("trailing-dot", "t.example.com."),
              ("star-inside", "t.*.example.com"), ("star-nodot", "*t.example.com"), ("plain", "t.example.com"), ("mixed", "T-1.Example.COM")]
    plist = []
    i = 0
    n = ctx.pick(60, 1500)
    while len(plist) < n:
        kind, dom = cases[i % len(cases)] if i < 3 * len(cases) else (lambda x: ("len%d" % x, dom_of_len(x)))(rng.choice([rng.randint(1, 140), 128, 129]))
        who = "server" if i % 2 == 0 else "client"
        plist.append({"idx": i, "seed": ctx.seed * 100000 + 50000 + i, "who": who, "kind": kind, "domain": dom,
                      "ns": rng.choice(["10.53.0.1", "10.53.0.1", "fd53::1"])})
        i += 1
    return plist


def run(ctx):
    res = core.Result()
    res.rule = (
        "check_topdomain() and query_datalen() from the tree's common.o are compared, input by input, with a "
        "reference written from the property text that works on labels (split on '.', compare labels from the "
        "right with ASCII case folding) instead of the code's backward character scan. "
        "validate(s, allow_wildcard) accepts iff 3 <= len <= 128, every char is in [A-Za-z0-9.-] except a leading "
        "'*.' when allow_wildcard, there are >= 2 labels and every label has 1..63 chars. "
        "match(name, domain): plain domain with k labels matches iff the name has >= k labels and its last k labels "
        "equal the domain's; data length = offset of the first matched label (= strlen(name)-strlen(domain), so it "
        "includes the separating dot, as tests/common.c expects). Wildcard domain '*.rest': the last k labels equal "
        "rest and the label before them is non-empty and star-free; data length = offset of that label. "
        "A violation is any difference in accept/reject or in the data length, or a sanitizer report. "
        "In scope: every name without two consecutive dots, including names with a leading dot (empty first label: "
        "'.a.b' carries one data char for domain 'a.b', as tests/common.c expects) and with a trailing dot (never "
        "equal to / ending with a domain, so rejected). Names containing '..' are not generated for matching "
        "(outside the quantifier). Workload per run: (1) validation boundary cases: label lengths 1/2/62..65 in 2-3 "
        "labels, every total length 0..140 for 13 label sizes, every byte value 1..255 at 4 positions of 3 domains, "
        "'*' at every position of a 128-char domain, all with and without a '*.' prefix and with allow_wildcard 0 "
        "and 1; (2) every string of length 0..7 over {a,A,b,-,.,*,0} x allow_wildcard {0,1}; (3) every string of "
        "length 0..L over that alphabet without '..' against 16 accepted domains (9 plain, 7 wildcard, 1-3 literal "
        "labels, mixed case), L=8 in both tiers; (4) seeded random cases: a random accepted domain of 3..128 "
        "chars (validated both ways; one in four also as a damaged copy), and a random name of up to 255 chars "
        "that with probability 1/2 ends in the case-randomised domain or a near miss (one char changed, label "
        "boundary shifted, '*' in or as the wildcard label, first label dropped, trailing dot, bare domain, domain "
        "in the middle, padded to exactly 255). distinct_nontrivial = outcome classes derived from the reference's "
        "reason codes that were actually exercised with real code and reference in agreement.")
    res.assumptions = [
        "a label matched by the wildcard must be non-empty: the text says 'exactly one star-free label' and an empty "
        "string is not taken to be a label ('.a.b' is outside '*.a.b'); the only in-scope name this decides is "
        "'.'+rest, which cannot arrive in DNS wire format",
        "case-insensitive means ASCII letters A-Z/a-z only; bytes >= 0x80 in names compare by value (C locale)",
        "query_datalen is only specified for domains accepted by the validator (with wildcard allowed); "
        "other domains are not passed to it",
        "ASan red zones around exact-size heap copies detect reads before/after the name and the domain",
        "start-up (Engine A part): 'accepted' = iodined reaches its main loop / iodine sends its first query; domains are given as the last command-line argument, the client's name server as IPv4 or IPv6 literal",
        "dispatch (Engine A part): a query is 'handled as tunnel traffic' when the server answers it itself; with -b a name outside the domain must be forwarded exactly once and a name inside never",
    ]
    res.min_nontrivial = 12
    matchlen = ctx.pick(QUICK_MATCHLEN, THOROUGH_MATCHLEN)
    nrandom = ctx.pick(QUICK_RANDOM, THOROUGH_RANDOM)
    seed = ctx.seed
    if ctx.replay:
        # a witness from the random phase names its seed and case number; the enumerations are seed-independent
        matchlen = THOROUGH_MATCHLEN
        nrandom = QUICK_RANDOM
        text = str((ctx.replay.get("witness") or {}).get("driver_output", ""))
        m = re.search(r"seed=(\d+) case=(\d+)", text)
        if m:
            seed = int(m.group(1))
            nrandom = max(QUICK_RANDOM, min(THOROUGH_RANDOM, int(m.group(2))))
    res.min_evaluations = 10000000 if matchlen < 8 else 80000000
    with core.Build(jobs=ctx.jobs) as b:
        drv = b.unit("domain", ["domain.c"], objs=["common"], libs=())
        sh = ctx.jobs
        unitrun.run_sharded(res, "C17", drv, sh, lambda i: [i, sh, seed, matchlen, nrandom], jobs=ctx.jobs)
        # Engine A: dispatch in the real server
        rng = random.Random(ctx.seed * 1709 + 17)
        doms = ["t.example.com", "*.example.com", "T.Example.COM", "tun.ab.example.org", "*.a-b.example.org", "x.yy"]
        plist = [{"idx": i, "seed": ctx.seed * 100000 + i, "rseed": rng.getrandbits(32), "domain": doms[i % len(doms)],
                  "bind": i % 2 == 0, "n": rng.randint(60, 120)} for i in range(ctx.pick(96, 4000))]
        if ctx.replay and "params" in (ctx.replay.get("witness") or {}):
            plist = [ctx.replay["witness"]["params"]]
        dres = core.Result()
        simrun.run_scenarios(dres, b, scn_dispatch, plist, jobs=ctx.jobs)
        res.violations += dres.violations
        res.harness_errors += dres.harness_errors
        res.evaluations += dres.evaluations
        res.inconclusive += dres.inconclusive
        for sig in dres.nontrivial:
            res.nt(sig)
        for kk, vv in dres.extra.items():
            res.extra[kk] = vv
        res.samples += dres.samples[:1]
        if not ctx.replay or (ctx.replay.get("witness") or {}).get("params", {}).get("who"):
            sp = startup_params(ctx, random.Random(ctx.seed * 1721 + 17))
            if ctx.replay:
                sp = [ctx.replay["witness"]["params"]]
            sres = core.Result()
            simrun.run_scenarios(sres, b, scn_startup, sp, jobs=ctx.jobs)
            res.violations += sres.violations
            res.harness_errors += sres.harness_errors
            res.evaluations += sres.evaluations
            res.inconclusive += sres.inconclusive
            for sig in sres.nontrivial:
                res.nt(sig)
            for kk, vv in sres.extra.items():
                res.extra[kk] = vv
    res.exhaustive = bool(matchlen >= 8)
    res.extra["exhaustive_subspace"] = (
        "validation: all strings of length 0..7 over {a,A,b,-,.,*,0} x allow_wildcard {0,1}; "
        "matching: all strings of length 0..%d over that alphabet without '..' x 16 domains%s"
        % (matchlen, "" if matchlen >= 8 else " (length 8 only in the thorough tier)"))
    return res
