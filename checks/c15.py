"""C15 - downstream fragments never exceed the negotiated size; numbering and last flag (Engine A)."""
from checks import _sess


def run(ctx):
    return _sess.run_generic(
        ctx, "C15",
        "independent decoder applied to every downstream answer to a ping/data query: payload after the 2-byte "
        "header <= F (100 until an N request is acknowledged, then the acknowledged value); sizes 0/1 rejected; per "
        "packet fragments numbered 0,1,2.. (re-sends repeat number and bytes); the last flag appears exactly on the "
        "fragment that completes (inflates to) a frame that was offered on a tun device. Cache replays (identical "
        "repeated query names) and packets of more than 16 fragments are excluded from the numbering rule. "
        "F drawn from {2,3,7,50,100,199,200,500,1200,4093,4094,4095,8000,65535} and random. non-trivial = scenario "
        "with >=5 data fragments and >=1 completed packet; distinct over (qtype, codec, F bucket | negotiated).",
        300, 20000, 50, 150, real_share=0.25)
