"""C11 - automatic negotiation only selects settings that actually work on the path (Engine A).

Real client <-> transforming relay <-> real server.  The relay is a member of the product family of the
property: {case keep/lower/upper/random} x {8-bit clean/strip/reject} x {punctuation keep / '+' mangled / '_' mangled}
on query names and, independently, on names / TXT text / NULL data in answers; refuses record types (every prefix
of the client's preference order, plus random subsets; SERVFAIL or silence); drops answers above a size limit
(none / 4096 / 1232 / 512); honours or ignores EDNS0.

Oracles
  success    with autodetection the client reaches tunnel mode on every member that passes Base32 names and answers
             <= 512 bytes for at least one record type (bounded: 300 virtual s);
  soundness  whenever the handshake completes (autodetected or with one forced -T / -O), 12 packets offered on each
             side through the same relay are delivered exactly once, in order, byte-identical (C02's sequence monitor),
             and both programs keep running.
"""
import random

from vflib import core, simrun
from simnet import proto, relay, scen, tunnelscn
from simnet.scen import US
from checks.c02 import _seq_check, MAXFR

ORDER = ["NULL", "PRIVATE", "TXT", "SRV", "MX", "CNAME", "A"]
TNUM = {"NULL": proto.T_NULL, "PRIVATE": proto.T_PRIVATE, "TXT": proto.T_TXT, "SRV": proto.T_SRV, "MX": proto.T_MX,
        "CNAME": proto.T_CNAME, "A": proto.T_A}
CASES = ["keep", "lower", "upper", "random"]
EIGHT = ["clean", "strip", "reject"]
PUNCT = ["keep", "plus", "under"]
LIMITS = [None, 4096, 1232, 512]
CLEAN = ("keep", "clean", "keep")


def member_valid(p):
    """The family is defined to pass Base32 names and <=512-byte answers for at least one type."""
    return len(p["allowed"]) > 0


def forced_compatible(m, forced, final_qt=None):
    """Can the path carry the forced option at all?  (A forced option the path cannot carry is a user error;
    whatever the client then does is outside the property - it is recorded, not judged.)"""
    case, eight, punct = m["acfg"]
    qt = None
    for i in range(0, len(forced), 2):
        opt, val = forced[i], forced[i + 1]
        if opt == "-T":
            qt = val
            if val not in m["allowed"]:
                return False
    for i in range(0, len(forced), 2):
        opt, val = forced[i], forced[i + 1]
        if opt == "-O":
            val = val.lower()
            eff = qt or final_qt
            if eff in ("NULL", "PRIVATE"):
                continue        # opaque record types are relayed untouched
            if eff is None:
                return False    # cannot tell which record type will carry it: not judged
            if val == "base64" and (case != "keep" or punct == "plus"):
                return False
            if val == "base64u" and (case != "keep" or punct == "under"):
                return False
            if val == "base128" and (case != "keep" or eight != "clean"):
                return False
            if val == "raw" and (case != "keep" or eight != "clean" or punct != "keep"):
                return False
    return True


def gen_member(rng, i):
    """Corner members first (one axis varied at a time), then seeded members of the full product."""
    p = {"qcfg": list(CLEAN), "acfg": list(CLEAN), "allowed": list(ORDER), "limit": None, "edns0": True, "refuse": "servfail"}
    axes = []
    for c in CASES[1:]:
        axes.append(("qcfg", 0, c))
        axes.append(("acfg", 0, c))
    for e in EIGHT[1:]:
        axes.append(("qcfg", 1, e))
        axes.append(("acfg", 1, e))
    for u in PUNCT[1:]:
        axes.append(("qcfg", 2, u))
        axes.append(("acfg", 2, u))
    corners = len(axes) + 7 + 3 + 1
    if i < len(axes):
        k, j, v = axes[i]
        p[k][j] = v
    elif i < len(axes) + 7:
        p["allowed"] = ORDER[i - len(axes):]
        p["chase_cname"] = p["allowed"] == ["A"] or i % 2 == 0
        if i - len(axes) > 0:
            p["refuse"] = ["servfail", "silence", "nodata"][i % 3]
    elif i < len(axes) + 10:
        p["limit"] = LIMITS[1 + i - len(axes) - 7]
    elif i < corners:
        p["edns0"] = False if i % 2 else "formerr"
    else:
        p["qcfg"] = [rng.choice(CASES), rng.choice(EIGHT), rng.choice(PUNCT)]
        p["acfg"] = [rng.choice(CASES), rng.choice(EIGHT), rng.choice(PUNCT)]
        k = rng.randrange(7)
        p["allowed"] = ORDER[k:] if rng.random() < 0.6 else sorted(rng.sample(ORDER, rng.randint(1, 6)), key=ORDER.index)
        p["limit"] = rng.choice(LIMITS)
        p["edns0"] = rng.random() < 0.6
        if not p["edns0"] and rng.random() < 0.4:
            p["edns0"] = "formerr"        # does not honour EDNS0 the loud way: FORMERR to every query with an OPT record
        p["refuse"] = rng.choice(["servfail", "silence", "nodata"])
        p["rr_order"] = rng.choice(["keep", "keep", "rotate", "reverse"])      # (resolvers rotate RRsets; the protocol numbers its records)
        p["chase_cname"] = rng.random() < 0.3          # (recursive resolvers chase the CNAME they get for an A question -> NXDOMAIN + record)
        if not member_valid(p):
            p["allowed"] = sorted(set(p["allowed"]) | {rng.choice(["TXT", "SRV", "MX", "CNAME", "A"])}, key=ORDER.index)
    return p


def scn(params):
    seed = params["seed"]
    rng = random.Random(params["rseed"])
    out = {"violations": [], "nontrivial": [], "stats": {"handshakes_completed": 0, "handshakes_failed": 0, "frames_judged": 0},
           "evaluations": 1, "sets": {}}
    sim = scen.Sim("c11-%d" % params["idx"], seed)
    try:
        k = sim.k
        if params.get("long_domain"):
            # the longest tunnel domains iodined accepts (128 characters): the least room for data in a query name
            lrng = random.Random(params["rseed"] ^ 0xD0)
            lab = lambda n: "".join(lrng.choice("abcdefghijklmnopqrstuvwxyz0123456789") for _ in range(n))
            total = params["long_domain"]
            parts, left = [], total - 4
            while left > 0:
                n_ = min(left, 63)
                if left - n_ == 1:
                    n_ -= 1
                parts.append(lab(n_))
                left -= n_ + 1
            sim.domain = ".".join(parts + ["org"])
        srv = sim.server()
        if not srv.alive():
            out["inconclusive"] = "server-died-at-start"
            return out
        m = params["member"]
        rl = relay.XformRelay(scen.RELAY_IP, (scen.SERVER_IP, 53), random.Random(rng.getrandbits(32)), tuple(m["qcfg"]), tuple(m["acfg"]),
                              [TNUM[t] for t in m["allowed"]], m["limit"], m["edns0"], refuse_mode=m["refuse"])
        rl.rr_order = m.get("rr_order", "keep")
        rl.chase_cname = bool(m.get("chase_cname"))
        k.add_actor(scen.RELAY_IP, rl)
        if params.get("pred"):
            # somebody else used the server (directly, with non-default codecs) and vanished more than a minute ago
            tunnelscn.predecessor(sim, random.Random(params["rseed"] ^ 0x5EED))
            out["stats"]["with_predecessor"] = 1
        if params.get("crowd"):
            # the server is busy: that many other sessions logged in (directly) just before, so the client under test gets one
            # of the upper slots (user ids 10..15 are the letters a..f in data names)
            from simnet import mclient
            for j in range(params["crowd"]):
                mc = mclient.ModelClient("10.53.5.%d" % (j + 1), (scen.SERVER_IP, 53), sim.domain, sim.password, random.Random(params["rseed"] + j), qtype=proto.T_NULL)
                k.add_actor(mc.ip, mc)
                mc.connect()
            out["stats"]["with_crowd"] = 1
        opts = ["-r"]
        if params.get("try_raw"):
            # default options: the client first tries to reach the server directly (raw UDP mode) - in vain, the path to the
            # server leads through the relay only - and gives that up after ten seconds
            opts = []
            cli_ip = "10.53.1.1"

            def no_direct_path(src, dst, data):
                if (src[0] == cli_ip and dst[0] in (scen.SERVER_IP, scen.SERVER_IP6)) or (dst[0] == cli_ip and src[0] in (scen.SERVER_IP, scen.SERVER_IP6)):
                    return []
                return None
            k.link_policy = no_direct_path
            out["stats"]["with_raw_attempt"] = 1
        forced = params.get("forced")
        judged = True
        if forced:
            opts += list(forced)
            judged = forced_compatible(m, forced, "NULL")      # provisional; re-evaluated with the negotiated type below
        if params.get("lazy0"):
            opts += ["-L", "0"]
        c = sim.client("cli0", "10.53.1.1", scen.RELAY_IP, opts)
        sim.run_until(lambda: sim.client_in_tunnel(c) or not c.alive(), 300 * US)
        wit = {"seed": seed, "member": m, "client_options": opts}
        h = sim.health(c)
        hs = sim.health(srv)
        for hh, who in ((h, "client"), (hs, "server")):
            if hh.startswith("sanitizer") or hh == "stalled" or hh.startswith("signal") or hh.startswith("shimfail"):
                out["inconclusive"] = "process-" + hh.split(":")[0]        # C05/C06 judge those
                out["stats"]["sanitizer_aborts"] = 1
                return out
        if not sim.client_in_tunnel(c):
            out["stats"]["handshakes_failed"] = 1
            out["sets"]["failures"] = {repr((tuple(forced or ()), h))}
            if not forced:
                out["violations"].append(("C11:negotiation-failed",
                                          "autodetecting client did not complete the handshake (%s) on a path that passes Base32 and 512-byte answers for %s"
                                          % (h, [t for t in m["allowed"]]),
                                          dict(wit, stderr=k.stderr_text(c, 1500), relay=dict(rl.stats))))
            elif h == "running":
                out["inconclusive"] = "forced-handshake-still-running"
            elif "-T" not in forced and m["allowed"] == ORDER and forced_compatible(m, forced, "TXT") and forced_compatible(m, forced, "CNAME"):
                # only the downstream codec was forced, every record type passes and the path carries that codec in names and in
                # TXT text: nothing stands in the way of the setting the user asked for
                out["violations"].append(("C11:forced-codec-failed:%s:%s" % (forced[1].lower(), "/".join(m["acfg"])),
                                          "the client started with %s did not complete the handshake (%s) although the path carries that codec" % (" ".join(forced), h),
                                          dict(wit, stderr=k.stderr_text(c, 1500), relay=dict(rl.stats))))
            else:
                out["nontrivial"].append(repr(("forced-option-refused-cleanly", tuple(forced), m["limit"], m["edns0"])))
            return out
        out["stats"]["handshakes_completed"] = 1
        last_qt = None
        for ev in reversed(k.log):
            if ev[1] == "send" and ev[2] == "cli0":
                try:
                    last_qt = proto.QTYPE_NAMES.get(proto.parse_msg(ev[3]["data"]).qd[0][1])
                except (proto.ParseError, IndexError):
                    pass
                break
        if forced:
            judged = forced_compatible(m, forced, last_qt)
            out["stats"]["forced_compatible" if judged else "forced_incompatible"] = 1
        if not judged:
            out["stats"]["incompatible_forced_option_completed_handshake"] = 1
            out["sets"]["unjudged"] = {repr(tuple(forced))}
            return out
        neg = {}
        for u in srv.snapshot:
            if u["active"] and u["authenticated"]:
                neg = {"enc": u["encbits"], "down": chr(u["downenc"]), "frag": u["fragsize"], "lazy": u["lazy"]}
        qtypes = set()
        for ev in k.log[-400:]:
            if ev[1] == "send" and ev[2] == "cli0":
                try:
                    qtypes.add(proto.parse_msg(ev[3]["data"]).qd[0][1])
                except (proto.ParseError, IndexError):
                    pass
        neg["qtype"] = sorted(proto.QTYPE_NAMES.get(t, str(t)) for t in qtypes)
        wit["negotiated"] = neg
        # soundness: 12 frames each way through the same relay
        ctip = tunnelscn.client_tun_ip(k, "cli0")
        stip = sim.tun_net.split("/")[0]
        if ctip is None:
            out["inconclusive"] = "no-ifconfig"
            return out
        import re as _re
        told_mtu = None
        for ev in k.log:
            if ev[1] == "system" and ev[2] == "cli0":
                mm = _re.search(rb" mtu (\d+)", ev[3]["cmd"])
                if mm:
                    told_mtu = int(mm.group(1))
        t0 = k.now + US
        tt = t0
        frag = neg.get("frag", 100)
        ident = 0
        for i in range(12):
            for side in ("srv", "cli"):
                ident += 1
                size = rng.choice([40, 100, 300, 600, 1000, 1134])
                style = rng.choice(["random", "random", "text", "zeros"])
                if i in (3, 8) and told_mtu:
                    # a packet as large as the interface the client was told to configure lets through, and incompressible
                    size, style = told_mtu + 4, "random"
                fid = (params["idx"] << 20) | ident
                f = proto.make_frame(stip, ctip, fid, size, style, rng) if side == "srv" else proto.make_frame(ctip, stip, fid, size, style, rng)
                k.at(tt + (0 if side == "srv" else 3000), k.offer_tun, "srv" if side == "srv" else "cli0", f, ident)
            # leave room for slow paths (small fragments over a 40 ms round trip)
            tt += max(2 * US, int(1134.0 / max(frag, 1) * 150000))
        if params["idx"] % 4 == 2 and frag >= 40 and neg.get("lazy"):
            # downstream length sweep: one-fragment packets of every compressed length up to the negotiated fragment size (random
            # contents: the compressed length grows with the size byte by byte), so every answer length the settled record type
            # and codec can be asked to carry occurs once
            nsw = 0
            for size in range(24, min(frag, 1300) - 10):
                ident += 1
                fid = (params["idx"] << 20) | ident
                k.at(tt, k.offer_tun, "srv", proto.make_frame(stip, ctip, fid, size, "random", rng), ident)
                tt += 150000          # (lazy mode only: the server can hand a packet out at once, the client asks again at once)
                nsw += 1
            out["stats"]["down_length_sweep_packets"] = nsw
        k.run(tt + 120 * US)
        for p_, who in ((c, "client"), (srv, "server")):
            hh = sim.health(p_)
            if hh.startswith("sanitizer") or hh == "stalled" or hh.startswith("signal") or hh.startswith("shimfail"):
                out["inconclusive"] = "process-" + hh.split(":")[0]
                return out
            if hh != "running":
                out["violations"].append(("C11:tunnel-died-after-negotiation", "%s exited (%s) while carrying packets with the negotiated settings" % (who, hh),
                                          dict(wit, stderr=k.stderr_text(p_, 1200))))
                return out
        cap = tunnelscn.up_capacity(k, "cli0", sim.domain, neg.get("enc", 5))
        down_ok = lambda f: tunnelscn.est_down_frags(f, frag) <= MAXFR
        # (what fits the interface MTU the server announced is a packet the tunnel is there to carry, however many fragments)
        up_ok = lambda f: tunnelscn.est_up_frags(f, cap) <= MAXFR or (told_mtu is not None and len(f) <= told_mtu + 4 and cap >= 70)
        for (reader, writer, elig, d) in (("srv", "cli0", down_ok, "down"), ("cli0", "srv", up_ok, "up")):
            prob, nr, nw = _seq_check(k, reader, writer, elig)
            out["stats"]["frames_judged"] += nr
            out["stats"]["%s_delivered" % d] = nw
            if prob:
                # fingerprint: direction, failure, the record type / codecs that were settled on, and the answer-side
                # (for downstream) or query-side (for upstream) transformation of the path
                side = m["acfg"] if d == "down" else m["qcfg"]
                codec = neg.get("down") if d == "down" else {5: "Base32", 6: "Base64", 26: "Base64u", 7: "Base128"}.get(neg.get("enc"), "?")
                out["violations"].append(("C11:unsound:%s:%s:%s:%s:%s" % (d, prob[0], last_qt, codec, "/".join(side)),
                                          "after a successful handshake (%s), %sstream through the same path: %s" % (neg, d, prob[1]),
                                          dict(wit, relay=dict(rl.stats))))
        fb = "<=60" if frag <= 60 else "<=130" if frag <= 130 else "<=600" if frag <= 600 else ">600"
        out["sets"]["negotiated"] = {repr((tuple(neg["qtype"]), neg.get("enc"), neg.get("down"), fb, neg.get("lazy")))}
        if out["stats"].get("down_delivered", 0) >= 6 and out["stats"].get("up_delivered", 0) >= 6:
            out["nontrivial"].append(repr((tuple(neg["qtype"]), neg.get("enc"), neg.get("down"), fb, neg.get("lazy"), m["edns0"], m["limit"],
                                           tuple(forced or ()))))
        if params["idx"] < 4:
            out["sample"] = {"member": m, "client_options": opts, "negotiated": neg, "relay": dict(rl.stats),
                             "delivered": (out["stats"].get("down_delivered"), out["stats"].get("up_delivered"))}
        return out
    finally:
        sim.close()


def scn_stock(params):
    """The real client against a server written from doc/proto_00000502.txt (simnet/mserver.py) - not built from this tree -
    through a member of the relay family: what the client negotiates must also work with a peer that merely follows the
    document (e.g. 'after N all downstream payloads will be max fragsize + 2 bytes').  Downstream only: frames queued at the
    model server must reach the client's tun intact."""
    from simnet import mserver
    seed = params["seed"]
    rng = random.Random(params["rseed"])
    out = {"violations": [], "nontrivial": [], "stats": {"stock_runs": 1, "stock_frames_delivered": 0, "stock_handshakes_completed": 0},
           "evaluations": 1, "sets": {}}
    sim = scen.Sim("c11k-%d" % params["idx"], seed)
    try:
        k = sim.k
        m = params["member"]
        hs = mserver.HandshakeServer(scen.SERVER_IP, sim.domain, sim.password, userid=rng.choice([0, 3, 15]))
        hs.serve_down = True
        k.add_actor(hs.ip, hs)
        rl = relay.XformRelay(scen.RELAY_IP, (scen.SERVER_IP, 53), random.Random(rng.getrandbits(32)), tuple(m["qcfg"]), tuple(m["acfg"]),
                              [TNUM[t] for t in m["allowed"]], m["limit"], m["edns0"], refuse_mode=m["refuse"])
        rl.rr_order = m.get("rr_order", "keep")
        k.add_actor(scen.RELAY_IP, rl)
        opts = ["-r"] + list(params.get("forced") or [])
        c = sim.client("cli0", "10.53.1.1", scen.RELAY_IP, opts)
        sim.run_until(lambda: sim.client_in_tunnel(c) or not c.alive(), 300 * US)
        wit = {"seed": seed, "member": m, "client_options": opts, "params": params}
        h = sim.health(c)
        if h.startswith("sanitizer") or h == "stalled" or h.startswith("signal") or h.startswith("shimfail"):
            out["inconclusive"] = "process-" + h.split(":")[0]
            return out
        if not sim.client_in_tunnel(c):
            out["inconclusive"] = "handshake-with-model-server-failed"     # (the real-server scenarios judge negotiation failures)
            return out
        out["stats"]["stock_handshakes_completed"] = 1
        ctip = tunnelscn.client_tun_ip(k, "cli0")
        if ctip is None:
            out["inconclusive"] = "no-ifconfig"
            return out
        frames = []
        upframes = []
        for i in range(6):
            f = proto.make_frame("10.9.0.1", ctip, (0xC11 << 28) | (params["idx"] << 8) | i, rng.choice([300, 600, 1000]), rng.choice(["random", "random", "text"]), rng)
            frames.append(f)
            hs.down_queue.append(f)
            u = proto.make_frame(ctip, "10.9.0.1", (0xC11 << 28) | (params["idx"] << 8) | (64 + i), rng.choice([60, 300, 600]), rng.choice(["random", "text"]), rng)
            upframes.append(u)
            k.at(k.now + (i + 1) * 4 * US, k.offer_tun, "cli0", u, 64 + i)
        k.run(k.now + 150 * US)
        h = sim.health(c)
        if h != "running":
            if h.startswith("sanitizer") or h == "stalled" or h.startswith("signal"):
                out["inconclusive"] = "process-" + h.split(":")[0]
                return out
        got = [bytes(ev[3]["data"]) for ev in k.log if ev[1] == "tun_write" and ev[2] == "cli0"]
        # frames of more than 16 fragments are outside what the protocol can carry
        judged = [f for f in frames if tunnelscn.est_down_frags(f, max(hs.fragsize, 1)) <= 14]
        missing = [f for f in judged if f not in got]
        out["stats"]["stock_frames_delivered"] = sum(1 for f in judged if f in got)
        last_qt = proto.QTYPE_NAMES.get(hs.steps[-1][1]) if hs.steps else None
        if missing:
            out["violations"].append(("C11:stock-peer:down:lost:%s:%s:%s" % (last_qt, hs.downenc, "/".join(m["acfg"])),
                                      "after a successful handshake with a server that follows the protocol document (type %s, downstream %s, fragment size %d as set by the client), %d of %d queued packets never reached the client (%d fragments sent)"
                                      % (last_qt, hs.downenc, hs.fragsize, len(missing), len(judged), hs.down_fragments_sent),
                                      dict(wit, stderr=k.stderr_text(c, 800))))
        # upstream: what the model server reassembled, in the codec the client told it, must be the packets the client accepted
        accepted = []
        pending = None
        for ev in k.log:
            if ev[2] != "cli0":
                continue
            if ev[1] == "tun_read":
                pending = bytes(ev[3]["data"])
            elif ev[1] == "send" and pending is not None:
                accepted.append(pending)
                pending = None
            elif ev[1] == "wait":
                pending = None
        up_missing = [u for u in upframes if u in accepted and u not in hs.up_frames]
        out["stats"]["stock_up_frames_delivered"] = sum(1 for u in upframes if u in hs.up_frames)
        if up_missing and not out["violations"]:
            out["violations"].append(("C11:stock-peer:up:lost:%s:%s:%s" % (last_qt, hs.upcodec.name, "/".join(m["qcfg"])),
                                      "after a successful handshake with a server that follows the protocol document (type %s, upstream %s), %d of %d packets the client took from its tun were not reassembled intact by that server (it reassembled %d, %d of them undecodable)"
                                      % (last_qt, hs.upcodec.name, len(up_missing), len(upframes), len(hs.up_frames), sum(1 for x in hs.up_frames if x is None)),
                                      dict(wit, stderr=k.stderr_text(c, 800))))
        if not out["violations"] and len(judged) >= 3:
            out["nontrivial"].append(repr(("stock-peer", last_qt, hs.downenc, "F<=130" if hs.fragsize <= 130 else "F<=600" if hs.fragsize <= 600 else "F>600", m["limit"])))
        if params["idx"] % 50 == 0:
            out["sample"] = {"stock_peer": True, "member": m, "qtype": last_qt, "downenc": hs.downenc, "fragsize": hs.fragsize,
                             "delivered": out["stats"]["stock_frames_delivered"], "fragments": hs.down_fragments_sent}
        return out
    finally:
        sim.close()


def run(ctx):
    res = core.Result()
    res.rule = ("scenario = real client through one member of the relay family to the real server; members: every single-axis "
                "corner (24) + seeded members of the full product (case x 8-bit x punctuation on queries and on answers, allowed "
                "record types, size limit, EDNS0, SERVFAIL/silence), each with autodetection and - in further scenarios - with one "
                "forced option (-T type / -O codec / -L 0). Oracle: autodetection completes within 300 virtual s; after every "
                "completed handshake 12 frames each way (40..1134 bytes, random/text/zeros) are delivered exactly once in order. "
                "evaluations = client runs; distinct non-trivial = (negotiated query type, upstream codec, downstream codec, "
                "fragment-size bucket, lazy, EDNS0 honoured, size limit, forced option) of runs with >=6 judged deliveries each way, "
                "plus forced options the path cannot carry that ended in a clean failure.")
    res.assumptions = ["liveness restated as: handshake within 300 virtual s, delivery within 120 s after the last offer",
                       "stock-peer scenarios: the model server (simnet/mserver.py) answers at once (no lazy holding), serves downstream per the protocol document and cuts what a host-name answer cannot hold, like iodined; a handshake that does not complete against it is inconclusive, not a violation",
                       "the family is the stated product, not every conceivable middlebox"]
    n = ctx.pick(400, 40000)
    rng = random.Random(ctx.seed * 5011 + 11)
    plist = []
    for i in range(n):
        member = gen_member(rng, i // 2 if i < 70 else i)
        forced = None
        if i % 2 == 1:
            w = rng.randrange(4)
            if w == 3:
                # the codec forced and the fragment size given (no probing): the handshake has nothing left to find out
                forced = ["-O", rng.choice(["base32", "base64", "base64u", "base128", "Base64u", "BASE64U", "Base128"]), "-m", rng.choice(["100", "80"])]
                if rng.random() < 0.5:
                    forced = ["-T", rng.choice(ORDER[2:])] + forced
            elif w == 0:
                forced = ["-T", rng.choice(ORDER)]
            elif w == 1:
                forced = ["-O", rng.choice(["base32", "base64", "base64u", "base128", "raw"])]
            else:
                forced = ["-T", rng.choice(ORDER), "-O", rng.choice(["base32", "base64", "base64u", "base128"])]
        plist.append({"idx": i, "seed": ctx.seed * 100000 + i, "rseed": rng.getrandbits(32), "member": member, "forced": forced,
                      "lazy0": rng.random() < 0.15, "pred": rng.random() < 0.3})
        if i % 6 == 4 and not (forced and "-T" not in forced and False):
            plist[-1]["try_raw"] = True
        if i % 10 in (2, 5):
            plist[-1]["long_domain"] = rng.choice([128, 128, 127, 124, 120])
            plist[-1]["pred"] = False
        if i in (0, 4, 8, 20) or rng.random() < 0.12:
            plist[-1]["crowd"] = rng.randint(10, 14)
            plist[-1]["pred"] = False
    # paths that carry very little: one host-name record type only, classic 512-byte answers (larger ones vanish), EDNS0 unknown
    for j, (allowed, refuse, try_raw) in enumerate([(["CNAME", "A"], "silence", True), (["A"], "silence", True), (["CNAME", "A"], "nodata", True),
                                                    (["A"], "servfail", False), (["CNAME", "A"], "nodata", False), (["TXT", "SRV", "MX", "CNAME", "A"], "nodata", True)]):
        member = {"qcfg": list(CLEAN), "acfg": list(CLEAN), "allowed": allowed, "limit": 512, "edns0": False, "refuse": refuse, "chase_cname": False}
        plist.append({"idx": n + len(plist), "seed": ctx.seed * 100000 + 70000 + j, "rseed": rng.getrandbits(32), "member": member,
                      "forced": None, "lazy0": False, "pred": False, "try_raw": try_raw})
    # the downstream codec forced, on the paths each codec is there for, with the fragment size given (nothing is probed)
    for j, (codec, acfg) in enumerate([("base64u", ("keep", "clean", "plus")), ("Base64u", ("keep", "strip", "plus")), ("base64", ("keep", "clean", "under")),
                                       ("base128", ("keep", "clean", "plus")), ("base32", ("random", "strip", "plus")), ("BASE64U", ("keep", "reject", "plus"))]):
        for t in (("TXT", "CNAME") if ctx.tier == "quick" else ("TXT", "SRV", "MX", "CNAME", "A")):
            member = {"qcfg": list(CLEAN), "acfg": list(acfg), "allowed": list(ORDER), "limit": None, "edns0": True, "refuse": "servfail"}
            plist.append({"idx": n + len(plist), "seed": ctx.seed * 100000 + 50000 + len(plist), "rseed": rng.getrandbits(32), "member": member,
                          "forced": ["-T", t, "-O", codec, "-m", "100"], "lazy0": False, "pred": False})
    # the same client against a server that merely follows the protocol document (not built from this tree)
    slist = []
    for i in range(ctx.pick(64, 4000)):
        member = gen_member(rng, 40 + i)
        member["chase_cname"] = False
        forced = None
        if rng.random() < 0.5:
            forced = ["-T", rng.choice(["CNAME", "A", "MX", "SRV", "TXT", "NULL"])]
            if not forced_compatible(member, forced, forced[1]):
                forced = None
        slist.append({"idx": i, "seed": ctx.seed * 100000 + 60000 + i, "rseed": rng.getrandbits(32), "member": member, "forced": forced,
                      "stock": True})
    if ctx.replay:
        rp = ctx.replay["witness"]["params"]
        plist, slist = ([], [rp]) if rp.get("stock") else ([rp], [])
    res.min_evaluations = 0 if ctx.replay else n // 2
    res.min_nontrivial = 0 if ctx.replay else ctx.pick(40, 300)
    with core.Build() as b:
        if plist:
            simrun.run_scenarios(res, b, scn, plist, jobs=ctx.jobs)
        if slist:
            simrun.run_scenarios(res, b, scn_stock, slist, jobs=ctx.jobs)
    simrun.finalize_sets(res)
    return res
