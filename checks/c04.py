"""C04 - sessions are isolated: source check, routing by tunnel address, slot ownership (Engine A).

Two scenario kinds against the real iodined (ASan/UBSan):
  pair    - spoof differential: one seeded, strictly time-scripted scenario is executed twice, with and
            without requests that name the victim's userid from foreign addresses; every spoofed request
            must be refused (BADIP/BADLEN/silence) and everything the victim can observe - the decoded
            payload of every answer sent to it, every frame the server writes to its tun, the victim's row
            of the users[] table at every select() - must be identical in both runs.
  history - adversarial multi-session histories (simnet/advhist.py) judged by authmon.mon_c04: routing by
            tunnel address, no slot takeover within 60 s, expiry after 60 s, foreign-source refusal.
"""
import random
import struct

from vflib import core, simrun
from simnet import advhist, authmon, mclient, proto, scen
from simnet.scen import US

SPOOFS = ["L", "I", "S", "O", "N", "R", "P", "data", "rawdata", "rawping", "rawlogin_bad", "replay", "replay"]


class Scripted:
    """A victim whose *timing* is fixed by the script (one query per tick) and whose *content* follows the
    protocol state (acks, next fragment), so that the with/without-spoof runs stay comparable."""

    def __init__(self, mc, rng):
        self.mc = mc
        self.rng = rng
        self.frames = []
        self.chunks = None
        self.ci = 0
        self.sent_cur = False

    def tick(self):
        mc = self.mc
        mc.drain()
        if self.chunks is None and self.frames:
            data = proto.deflate(self.frames.pop(0))
            mc.up_seq = (mc.up_seq + 1) & 7
            n = self.rng.choice([30, 60, 100])
            self.chunks = [data[i:i + n] for i in range(0, len(data), n)][:16]
            self.ci = 0
            self.sent_cur = False
        if self.chunks is not None:
            if self.sent_cur and mc.last_up_ack == (mc.up_seq, self.ci & 15):
                self.ci += 1
                self.sent_cur = False
                if self.ci >= len(self.chunks):
                    self.chunks = None
            if self.chunks is not None:
                mc.query(mc.data_labels(mc.up_seq, self.ci & 15, self.ci == len(self.chunks) - 1, self.chunks[self.ci]))
                self.sent_cur = True
                return
        mc.query(mc.ping_labels())


def run_one(params, with_spoofs):
    seed = params["seed"]
    rng = random.Random(params["rseed"])
    sim = scen.Sim("c04p-%d-%d" % (params["idx"], int(with_spoofs)), seed)
    k = sim.k
    k.keep_snaps = True
    srv = sim.server(tun=params["tun"])
    R = {"ok": False, "sim": sim}
    if not srv.alive():
        R["why"] = "server-died-at-start"
        return R
    dom = sim.domain
    qt = params["qtype"]
    V = mclient.ModelClient("10.53.2.1", (scen.SERVER_IP, 53), dom, sim.password, random.Random(rng.getrandbits(32)), qtype=qt)
    W = mclient.ModelClient("10.53.2.2", (scen.SERVER_IP, 53), dom, sim.password, random.Random(rng.getrandbits(32)), qtype=qt)
    A = [mclient.ModelClient("10.66.0.%d" % (i + 1), (scen.SERVER_IP, 53), dom, sim.password, random.Random(rng.getrandbits(32)), qtype=qt)
         for i in range(2)]
    for a in (V, W) + tuple(A):
        k.add_actor(a.ip, a)
    I = None
    if params.get("insider"):
        # another logged-in session (in both runs; it takes the slot in front of the victim's) which, in the second run, sends
        # traffic of its own - naming its own user id - that no client would send: whatever a session does with its own slot,
        # the neighbour observes nothing
        I = mclient.ModelClient("10.53.2.3", (scen.SERVER_IP, 53), dom, sim.password, random.Random(rng.getrandbits(32)), qtype=qt)
        k.add_actor(I.ip, I)
        if not I.connect():
            R["why"] = "model-login-failed"
            return R
        I.raw_login()
        k.run(k.now + 50000)
    if not V.connect() or not W.connect():
        R["why"] = "model-login-failed"
        return R
    V.switch_codec(proto.CODECS[params["up"]])
    if params["lazy"]:
        V.option(b"l")
    V.set_frag(params["frag"])
    if params["victim_raw"]:
        V.raw_login()
        k.run(k.now + 50000)
    T0 = 3 * US
    if k.now >= T0:
        R["why"] = "setup-too-slow"
        return R
    k.run(T0)
    sv, sw = Scripted(V, random.Random(rng.getrandbits(32))), Scripted(W, random.Random(rng.getrandbits(32)))
    srv_tun = params["tun"].split("/")[0]
    step = params["step"]
    nticks = params["nticks"]
    end = T0 + nticks * step + 2 * US
    ident = [0]

    def frame(src, dst, size):
        ident[0] += 1
        return proto.make_frame(src, dst, (0xC4 << 40) | (params["idx"] << 16) | ident[0], size, "random", frng)

    frng = random.Random(rng.getrandbits(32))
    offered = []
    # schedule: victim/bystander ticks, upstream frames, tun offers
    for i in range(nticks):
        k.at(T0 + i * step, sv.tick)
        if i % 3 == 0:
            k.at(T0 + i * step + 3001, sw.tick)
    trng = random.Random(rng.getrandbits(32))
    for _ in range(params["nup"]):
        f = frame(V.tun_ip, srv_tun, trng.choice([40, 100, 300]))
        k.at(T0 + trng.randrange(nticks * step) + 17, sv.frames.append, f)
    tdown = T0 + 13
    for _ in range(params["ndown"]):
        f = frame(srv_tun, V.tun_ip, trng.choice([40, 100, 400]))
        nfr = (len(proto.deflate(f)) + params["frag"] - 1) // params["frag"]
        tdown += trng.randrange(3 * step)
        if tdown >= T0 + nticks * step:
            break
        offered.append(f)
        k.at(tdown, k.offer_tun, "srv", f, ident[0])
        tdown += (nfr + 3) * step     # time for the victim to fetch it: the server's queue never fills
    # the spoofed requests (second run only); drawn from their own PRNG so that both runs agree on everything else
    srng = random.Random(params["sseed"])
    spoof_log = []

    def spoof(kind, a):
        uid = V.userid
        mc = a
        dl = mc.domain
        snap = srv.snapshot[uid] if uid < len(srv.snapshot) else None
        if kind == "L":
            mc.query(proto.msg_login(dl, uid, proto.login_hash(sim.password, V.challenge), mc.new_cmc()))
        elif kind == "I":
            mc.query(proto.msg_ip(dl, uid, mc.new_cmc()))
        elif kind == "S":
            mc.query(proto.msg_switch_codec(dl, uid, srng.choice([5, 6, 26, 7]), mc.new_cmc()))
        elif kind == "O":
            mc.query(proto.msg_option(dl, uid, srng.choice([b"t", b"s", b"u", b"v", b"r", b"l", b"i"]), mc.new_cmc()))
        elif kind == "N":
            mc.query(proto.msg_setfrag(dl, uid, srng.choice([2, 20, 1000]), mc.new_cmc()))
        elif kind == "R":
            mc.query(proto.msg_fragprobe(dl, uid, srng.choice([50, 200]), proto.BASE32.encode(bytes(20))))
        elif kind == "P":
            # acknowledge exactly what the server is waiting for: would advance the victim's downstream
            ds, dfrag = (snap["out_seq"], snap["out_frag"]) if snap else (0, 0)
            mc.query(proto.msg_ping(dl, uid, ds, dfrag, mc.new_cmc()))
        elif kind == "data":
            seq = ((snap["in_seq"] if snap else 0) + 1) & 7
            f = frame("10.250.0.9", srv_tun, 40)
            hdr = proto.data_header(uid, seq, 0, snap["out_seq"] if snap else 0, snap["out_frag"] if snap else 0, 1, mc.datacmc)
            mc.datacmc += 1
            mc.query(proto.msg_data(dl, hdr, V.up.encode(proto.deflate(f))))
        elif kind == "replay":
            # one of the victim's own recent queries, byte for byte (or with a new id), from the foreign address: the
            # answer cache and the duplicate suppression sit behind the source check
            cand = []
            for dd in V.dgrams[-8:]:
                try:
                    first = proto.read_name(dd, 12)[0][0][:1]
                except (proto.ParseError, IndexError):
                    continue
                if first in b"pP0123456789abcdefABCDEF":       # pings and data queries name the session
                    cand.append(dd)
            if cand:
                d = srng.choice(cand)
                if srng.random() < 0.5:
                    d = struct.pack(">H", srng.randint(1, 65535)) + d[2:]
                mc.send_raw_dgram(d)
        elif kind in ("insider_rawbig", "insider_rawbig_z", "insider_dnsbig"):
            if I is None:
                return
            n = srng.choice([4093, 4097, 5000, 9000, 20000, 44140, 60000, 65000])
            if kind == "insider_rawbig":
                I.send_raw_dgram(proto.raw_frame(proto.RAW_DATA, I.userid, bytes(srng.getrandbits(8) for _ in range(256)) * (n // 256) + bytes(n % 256)))
            elif kind == "insider_rawbig_z":
                # a well-formed one: a huge packet for the server itself
                I.send_raw_dgram(proto.raw_frame(proto.RAW_DATA, I.userid, proto.deflate(proto.make_frame(I.tun_ip, srv_tun, 0x7777, min(n, 60000), "random", srng))))
            else:
                # DNS mode: a stream of final-less fragments for its own slot (up to 16 x ~150 bytes)
                seq = srng.randrange(8)
                for fr_ in range(16):
                    hdr = proto.data_header(I.userid, seq, fr_, 0, 0, 0, I.datacmc)
                    I.datacmc += 1
                    I.query(proto.msg_data(dl, hdr, proto.BASE32.encode(bytes(srng.getrandbits(8) for _ in range(120)))))
            spoof_log.append((k.now, kind, I.ip))
            return
        elif kind == "rawdata":
            mc.send_raw_dgram(proto.raw_frame(proto.RAW_DATA, uid, proto.deflate(frame("10.250.0.8", srv_tun, 40))))
        elif kind == "rawping":
            mc.send_raw_dgram(proto.raw_frame(proto.RAW_PING, uid))
        elif kind == "rawlogin_bad":
            dg = bytearray(proto.login_hash(sim.password, (V.challenge + 1) & 0xFFFFFFFF))
            dg[srng.randrange(16)] ^= 1 << srng.randrange(8)
            mc.send_raw_dgram(proto.raw_frame(proto.RAW_LOGIN, uid, bytes(dg)))
        spoof_log.append((k.now, kind, a.ip))

    for _ in range(params["nspoof"]):
        t = T0 + srng.randrange(nticks * step) + 7
        kind = srng.choice(params["spoof_kinds"])
        a = srng.choice(A)
        if with_spoofs:
            k.at(t, spoof, kind, a)
    k.run(end)
    R.update(ok=True, k=k, srv=srv, V=V, W=W, A=A, I=I, spoofs=spoof_log, offered=offered)
    return R


STABLE = ("active", "authenticated", "authenticated_raw", "options_locked", "disabled", "lazy", "conn", "downenc", "seed",
          "tun_ip", "host_family", "host_port", "host_addr", "fragsize", "encbits", "last_pkt")
FINAL = ("in_seq", "in_frag", "in_len", "in_offset", "out_seq", "out_frag", "out_len", "out_offset", "outpacketq_filled")


def projection(R, mc):
    """What the session `mc` can observe, at a granularity that does not depend on *when within the
    server's 20 ms send-real-soon window* an unrelated datagram happens to wake the server (any datagram
    does that, it is not an effect of naming the session): the packets delivered to it in order, the
    session-state columns of its users[] row over time, its transfer counters at the quiescent end, and
    everything the server wrote to its tun device."""
    k = R["k"]
    rows = []
    tunw = []
    uid = mc.userid
    last = None
    for ev in k.log:
        kind, who, kw = ev[1], ev[2], ev[3]
        if who != "srv":
            continue
        if kind == "tun_write":
            tunw.append(kw["data"].hex())
        elif kind == "wait" and "rows" in kw and uid is not None and uid < len(kw["rows"]):
            r = kw["rows"][uid]
            last = r
            t = tuple((f, r[f]) for f in STABLE)
            if not rows or rows[-1] != t:
                rows.append(t)
    mc.drain()
    frames = [(fr.hex() if fr is not None else None) for _t, fr in mc.delivered]
    for (_t, _s, cmd, _u, pl) in mc.raw_frames_received():
        frames.append(("raw", cmd, pl.hex()))
    final = [tuple((f, last[f]) for f in FINAL)] if last else []
    return frames, rows, tunw, final


def first_diff(a, b):
    for i in range(min(len(a), len(b))):
        if a[i] != b[i]:
            return i, a[i], b[i]
    if len(a) != len(b):
        i = min(len(a), len(b))
        return i, (a[i] if i < len(a) else None), (b[i] if i < len(b) else None)
    return None


def scn_pair(params):
    out = {"violations": [], "nontrivial": [], "stats": {}, "evaluations": 0, "sets": {}}
    RA = run_one(params, False)
    RB = None
    try:
        if not RA["ok"]:
            out["inconclusive"] = RA["why"]
            return out
        RB = run_one(params, True)
        if not RB["ok"]:
            out["inconclusive"] = RB["why"]
            return out
        for R in (RA, RB):
            h = R["sim"].health(R["srv"])
            if h != "running":
                out["inconclusive"] = "server-" + h.split(":")[0]
                out["stats"]["server_died"] = 1
                return out
        wit = {"seed": params["seed"]}
        # 1. every spoofed request refused
        kb = RB["k"]
        att_ips = {a.ip for a in RB["A"]}
        refused = answered = 0
        for ev in kb.log:
            if ev[1] == "send" and ev[2] == "srv" and ev[3]["dst"][0] in att_ips:
                d = ev[3]["data"]
                answered += 1
                p = None
                if d[:3] != proto.RAW_MAGIC:
                    try:
                        p = proto.extract_payload(proto.parse_msg(d))
                    except Exception:
                        p = None
                if p in (b"BADIP", b"BADLEN"):
                    refused += 1
                else:
                    out["violations"].append(("C04:spoofed-request-served", "a request naming the victim's userid from a foreign address was answered with %r"
                                              % ((p or d)[:24],), dict(wit, time_us=ev[0], datagram=d.hex()[:300])))
        out["stats"]["spoofs_sent"] = len(RB["spoofs"])
        out["stats"]["spoofs_refused_with_answer"] = refused
        out["evaluations"] = len(RB["spoofs"])
        # 2. nothing changes for the victim (nor for the bystander)
        for who, name in ((("V", "victim"), ("W", "bystander"))):
            pa = projection(RA, RA[who])
            pb = projection(RB, RB[who])
            if RB.get("I") is not None and RB["I"].tun_ip:
                # (what the insider sends for itself - its own, well-formed packets - legitimately reaches the server's tun)
                import socket as _so
                isrc = _so.inet_aton(RB["I"].tun_ip).hex()
                pa = (pa[0], pa[1], [w for w in pa[2] if w[32:40] != isrc], pa[3])
                pb = (pb[0], pb[1], [w for w in pb[2] if w[32:40] != isrc], pb[3])
            for part, label in zip(range(4), ("delivered-packets", "table-row", "server-tun-writes", "final-transfer-state")):
                if part == 2 and who == "W":
                    continue
                d = first_diff(pa[part], pb[part])
                if d is not None:
                    out["violations"].append(("C04:spoof-changed-%s:%s" % (name, label),
                                              "%s-visible %s differ between the run with and the run without spoofed requests (first difference at index %d)"
                                              % (name, label, d[0]),
                                              dict(wit, without=repr(d[1])[:500], with_spoofs=repr(d[2])[:500],
                                                   spoofs=[(t, kk, ip) for t, kk, ip in RB["spoofs"][:40]])))
                    break
        pa = projection(RA, RA["V"])
        nans = sum(1 for ev in RA["k"].log if ev[1] == "send" and ev[2] == "srv" and ev[3]["dst"][0] == RA["V"].ip)
        out["stats"]["victim_packets_compared"] = len(pa[0])
        out["stats"]["victim_answers_seen"] = nans
        out["stats"]["victim_row_states_compared"] = len(pa[1])
        out["stats"]["server_tun_writes_compared"] = len(pa[2])
        delivered = len(RA["V"].delivered)
        if len(RB["spoofs"]) >= 5 and nans >= 20 and len(pa[2]) >= 1 and len(pa[0]) >= 1:
            for kk in {s[1] for s in RB["spoofs"]}:
                out["nontrivial"].append(repr(("pair", kk, params["qtype"], params["lazy"], params["victim_raw"], params["tun"].split("/")[1])))
        if params["idx"] < 2:
            out["sample"] = {"kind": "pair", "tun": params["tun"], "qtype": params["qtype"], "lazy": params["lazy"],
                             "spoofs": [(t, kk, ip) for t, kk, ip in RB["spoofs"][:8]], "victim_answers": nans, "victim_packets": len(pa[0]),
                             "victim_frames_delivered": delivered, "server_tun_writes": len(pa[2]),
                             "spoofs_answered_BADIP": refused}
        return out
    finally:
        RA["sim"].close()
        if RB is not None:
            RB["sim"].close()


def scn_hist(params):
    seed = params["seed"]
    cfg = params["cfg"]
    out = {"violations": [], "nontrivial": [], "stats": {}, "evaluations": 0, "sets": {}}
    H = advhist.run_history("c04h-%d" % params["idx"], cfg, seed)
    try:
        if not H.ok:
            out["inconclusive"] = H.why
            return out
        k = H.k
        h = H.sim.health(H.srv)
        if h != "running":
            out["stats"]["server_died"] = 1
            out["inconclusive"] = "server-" + h.split(":")[0]
        v, st, kinds = authmon.mon_c04(k, H.domain, not cfg["check_ip_off"], H.offered, H.up_frames, server_tun_ip=H.server_tun_ip)
        out["stats"].update(st)
        out["evaluations"] = sum(1 for ev in k.log if ev[1] == "recv" and ev[2] == "srv")
        for (key, what, wit) in v[:3]:
            out["violations"].append((key, what, dict(wit, seed=seed)))
        # frames for addresses that must not be served: never delivered to anybody
        odd = {f: r for f, r in H.offered.items() if r.get("odd")}
        if odd:
            seen = set()
            for p in H.parties:
                for _t, fr in p.mc.delivered:
                    if fr in odd:
                        seen.add(fr)
                for (_t, _s, cmd, _u, pl) in p.mc.raw_frames_received():
                    if cmd == proto.RAW_DATA:
                        try:
                            fr = proto.inflate(pl)
                        except Exception:
                            continue
                        if fr in odd:
                            seen.add(fr)
            out["stats"]["c04_odd_frames_offered"] = len(odd)
            out["stats"]["c04_odd_frames_dropped"] = len(odd) - len(seen)
        out["sets"]["c04_kinds"] = {repr(x) for x in kinds}
        bits = cfg["tun"].split("/")[1]
        if st["c04_deliveries_checked"] >= 1 and (st["c04_expired_requests_refused"] + st["c04_foreign_requests_refused"]) >= 3:
            for x in kinds:
                out["nontrivial"].append(repr(("hist",) + tuple(x) + (bits, bool(cfg["check_ip_off"]))))
        if params["idx"] < 2:
            out["sample"] = {"kind": "history", "tun": cfg["tun"], "check_ip_off": cfg["check_ip_off"], "ops": H.ops, "monitor": dict(st)}
        return out
    finally:
        H.sim.close()


def scn(params):
    return scn_pair(params) if params["kind"] == "pair" else scn_hist(params)


def run(ctx):
    res = core.Result()
    res.rule = ("pair = strictly time-scripted victim + bystander sessions (one query per tick, content following the protocol "
                "state; upstream frames, server-tun frames for the victim, DNS or raw victim) executed twice from one seed, with "
                "and without 5-60 spoofed requests (L with the correct response, I,S,O,N,R,P acking exactly what the server waits "
                "for, data with the next sequence number, raw data/ping, raw login with a wrong response) naming the victim's "
                "userid from foreign addresses; oracle: every spoof answered BADIP/BADLEN or not at all, and the decoded answers "
                "to the victim, the victim's users[] row at every select() and the server's tun writes are identical in both "
                "runs. history = adversarial multi-session histories (as C03) judged for routing by tunnel address, slot takeover "
                "< 60 s, service after > 60 s silence, service to foreign sources; subnets /8../30, -c on and off. "
                "evaluations = spoofed requests (pairs) + datagrams received by the server (histories); "
                "distinct non-trivial = (spoof kind, qtype, lazy, raw, netmask) of pairs with >=5 spoofs, >=20 victim answers and "
                ">=1 tun write, and (event class, netmask, -c) of histories with >=1 judged delivery and >=3 refusals.")
    res.assumptions = ["behaviour at exactly 60 s of silence is not asserted (the property does not pin the instant)",
                       "a correct raw login from another address is the sanctioned way to rebind a session and is followed, not flagged"]
    npair = ctx.pick(320, 25000)
    nhist = ctx.pick(320, 25000)
    rng = random.Random(ctx.seed * 4567 + 4)
    plist = []
    for i in range(npair):
        qt = list(proto.QTYPES.values())[i % 7]
        big = qt in (proto.T_NULL, proto.T_PRIVATE, proto.T_TXT)
        plist.append({"kind": "pair", "idx": i, "seed": ctx.seed * 100000 + i, "rseed": rng.getrandbits(32), "sseed": rng.getrandbits(32),
                      "tun": rng.choice([t for t in advhist.TUNS if not t.endswith("/30")]), "qtype": qt, "up": rng.choice(["Base32", "Base64", "Base64u", "Base128"]),
                      "lazy": rng.random() < 0.6, "frag": rng.choice([50, 100, 200, 1000] if big else [50, 100]),
                      "victim_raw": rng.random() < 0.15, "step": rng.choice([60000, 100000, 250000]), "nticks": rng.randint(60, 140),
                      "nup": rng.randint(1, 6), "ndown": rng.randint(1, 8), "nspoof": rng.randint(5, 60),
                      "spoof_kinds": SPOOFS if rng.random() < 0.6 else rng.sample(SPOOFS, 3)})
        if i % 5 == 2:
            plist[-1].update(insider=True, spoof_kinds=["insider_rawbig", "insider_rawbig", "insider_rawbig_z", "insider_dnsbig"] + rng.sample(SPOOFS, 2),
                             tun=rng.choice(["10.9.0.1/24", "10.9.0.5/28", "172.20.1.1/16", "10.9.0.1/29", "192.168.77.129/27"]))
    for i in range(nhist):
        plist.append({"kind": "history", "idx": npair + i, "seed": ctx.seed * 100000 + npair + i, "cfg": advhist.gen_cfg(rng, i + ctx.seed)})
    if ctx.replay:
        plist = [ctx.replay["witness"]["params"]]
    res.min_evaluations = 0 if ctx.replay else 2000
    res.min_nontrivial = 0 if ctx.replay else ctx.pick(60, 200)
    with core.Build() as b:
        simrun.run_scenarios(res, b, scn, plist, jobs=ctx.jobs)
    simrun.finalize_sets(res)
    return res
