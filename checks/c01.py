"""C01 - the tunnel never delivers a packet that was not sent (Engine A).

Real iodine client(s) <-> fault relay <-> real iodined; every frame written to a tun device must be
byte-identical to a frame earlier read from another process's tun device.
"""
import random

from vflib import core, simrun
from simnet import proto, scen, tunnelscn
from simnet.scen import US


def _key(frame):
    """The 4 bytes in front of the IP packet are the tun driver's framing (00 00 08 00 on Linux, an address family or zeros on
    the BSDs, nothing on some); every build's write_tun() sets its own there.  Identity is judged on the packet behind them
    (and thereby on the total length)."""
    frame = bytes(frame)
    return frame[4:] if len(frame) >= 4 else frame


def integrity_violations(k, own_ip=None, server_tun_ip=None):
    """Offline monitor over the event log: returns (violations, stats).  own_ip: process name -> its tunnel address."""
    import socket
    own_ip = own_ip or {}
    reads = {}      # frame bytes -> set of reader names (seen so far)
    viol = []
    stats = {"tun_reads": 0, "tun_writes": 0, "repeat_deliveries": 0, "multi_frag_delivered": 0}
    delivered = set()
    for ev in k.log:
        kind = ev[1]
        if kind == "tun_read":
            stats["tun_reads"] += 1
            reads.setdefault(_key(ev[3]["data"]), set()).add(ev[2])
        elif kind == "tun_write":
            stats["tun_writes"] += 1
            w = ev[3]["data"]
            src = reads.get(_key(w))
            if not src:
                viol.append((ev[0], ev[2], w))
            elif ev[2] != "srv" and server_tun_ip is not None and len(w) >= 24 and w[20:24] == socket.inet_aton(server_tun_ip):
                # a packet addressed to the server's own tunnel address was read from a client's tun: "its peer" is the server,
                # and no client's tun is where it belongs (whatever addresses the server handed out)
                viol.append((ev[0], ev[2], w))
            else:
                if not (src - {ev[2]}):
                    # a client's own packet routed back to it by the server: legitimate when it is addressed to
                    # the client's own tunnel address (or is a runt without a complete IP header, which iodined
                    # routes by whatever the buffer holds).  Anything else it once sent coming back to it is
                    # neither "from its peer" nor "from another client": the server mixed up its buffers.
                    me = own_ip.get(ev[2])
                    if len(w) >= 24 and me is not None and w[20:24] != socket.inet_aton(me):
                        viol.append((ev[0], ev[2], w))
                    stats["hairpin_deliveries"] = stats.get("hairpin_deliveries", 0) + 1
                if (ev[2], w) in delivered:
                    stats["repeat_deliveries"] += 1
                delivered.add((ev[2], w))
    return viol, stats


def reassembly_conservation(k, cname):
    """Hooked state at quiescent points: while the client is sending upstream packet s, the bytes the server has put together
    for packet s are never more than the client has handed out so far (its position in the packet plus the chunk under way).
    More means some bytes were appended twice - mis-reassembly, whether or not zlib's checksum later throws the packet away."""
    viol = []
    st = {"reassembly_points_compared": 0}
    cst = None
    cstart = None            # (seq, time the client began that packet)
    srow = None
    ssince = 0               # time at which the server's reassembly last began a packet (sequence number changed / length fell)
    tainted = None           # the client packet (seq, start time) during which the server was seen ahead of the client
    for ev in k.log:
        if ev[1] != "wait":
            continue
        kw = ev[3]
        if ev[2] == cname and "cstate" in kw:
            cst = kw["cstate"]
            if len(cst) >= 14 and (cstart is None or cstart[0] != cst[3]):
                cstart = (cst[3], ev[0])
        elif ev[2] == "srv" and "rows" in kw and cst is not None and len(cst) >= 14:
            uid = cst[13]
            if not (0 <= uid < len(kw["rows"])):
                continue
            row = kw["rows"][uid]
            if srow is None or row["in_seq"] != srow["in_seq"] or row["in_len"] < srow["in_len"]:
                ssince = ev[0]
            srow = row
            if cst[11] != 1 or cst[5] <= 0:          # not DNS mode / no upstream packet in progress
                continue
            if row["in_seq"] != cst[3] or cstart is None or ssince < cstart[1]:
                continue                              # the server is (still) on another packet
            if row["in_frag"] > cst[4]:
                # The server is at a later fragment number than the client has reached: it took a fragment of the packet that
                # had this 3-bit sequence number eight packets ago (a query delayed that long) for a fragment of this one.
                # What it puts together then is not this packet and will not pass zlib's checksum; the property speaks of what
                # is written to the tun device, so this is C01's other oracle's business.  The packet is not judged here (M29).
                tainted = cstart
                st["reassembly_packets_mixed_with_a_stale_fragment"] = st.get("reassembly_packets_mixed_with_a_stale_fragment", 0) + 1
            if tainted == cstart:
                continue
            st["reassembly_points_compared"] += 1
            sent = cst[6] + cst[7]
            if row["in_len"] > sent and not viol:
                viol.append((ev[0], "the server has put together %d bytes of upstream packet %d while the client has handed out only %d (position %d + chunk of %d under way)"
                             % (row["in_len"], cst[3], sent, cst[6], cst[7])))
    return viol, st


def scn(params):
    cfg = params["cfg"]
    seed = params["seed"]
    out = {"violations": [], "nontrivial": [], "stats": {}, "evaluations": 1, "sets": {}}
    D = params.get("duration", 60) * US

    def plan(t, sim, rng):
        k = sim.k
        # switch the relay to the fault profile for the whole run
        prof = tunnelscn.fault_profile(cfg, rng, k.now + 1 * US, D)
        t.relay.p.update(prof)
        if cfg["raw"]:
            cips = {c.addrs[0] for c in t.clients}

            def policy(src, dst, data, _r=random.Random(cfg["rseed"])):
                if not (t.relay.p["fault_from"] <= k.now < t.relay.p["until"]):
                    return None
                if (src[0] in cips and dst[0] == scen.SERVER_IP) or (dst[0] in cips and src[0] == scen.SERVER_IP):
                    x = _r.random()
                    if x < 0.1:
                        return []
                    if x < 0.2:
                        return [k.latency_us, k.latency_us + _r.randint(0, 300000)]
                    if x < 0.4:
                        return [k.latency_us + _r.randint(0, 400000)]
                return None
            k.link_policy = policy
        tt = k.now + 1 * US
        ident = 1
        while tt < t.t0 + D:
            side = rng.choice(["srv", "cli"])
            ci = rng.randrange(len(t.clients))
            to_client = None
            if side == "cli" and len(t.clients) > 1 and rng.random() < 0.4:
                to_client = rng.choice([j for j in range(len(t.clients)) if j != ci])
            sizes = tunnelscn.FRAME_SIZES + ([1, 2, 4, 1500, 3000] if rng.random() < 0.3 else [])
            if rng.random() < 0.25:
                # beyond every MTU iodine would configure: a tun device hands over whatever it is given
                sizes = [4091, 4092, 4093, 4096, 4100, 6000, 9000, 20000, 65000]
            fr = tunnelscn.pick_frame(t, rng, side, (params["idx"] << 20) | ident, ci, sizes, to_client)
            if rng.random() < 0.12 and len(fr) >= 4:
                # what a peer built for another operating system reads from its tun in front of the packet
                fr = rng.choice([b"\0\0\0\0", b"\0\0\0\x02", b"\0\0\x86\xdd", bytes(rng.getrandbits(8) for _ in range(4))]) + fr[4:]
            k.at(tt, k.offer_tun, "srv" if side == "srv" else t.clients[ci].name, fr, ident)
            ident += 1
            tt += rng.choice([20000, 100000, 300000, 700000, 1500000])
        t.noffered = ident - 1
        if cfg.get("tun_write_faults"):
            # the tun device refuses a frame now and then (interface down for a moment: EIO, input queue full: ENOBUFS,
            # EAGAIN): that frame may be lost; what the device is given afterwards is still judged like every other write
            fr_ = random.Random(cfg["tun_write_faults"])
            tf = k.now + 2 * US
            while tf < t.t0 + D:
                who = fr_.choice(["srv"] + [c.name for c in t.clients])
                k.at(tf, k.fail_tun_writes, who, fr_.choice([5, 105, 11, ("short", 1), ("short", 20), ("short", 512)]), fr_.choice([1, 1, 1, 2]))
                tf += fr_.choice([500000, 1500000, 4000000])
        return t.t0 + D + 25 * US

    t = tunnelscn.run_tunnel("c01-%d" % params["idx"], cfg, seed, plan)
    try:
        k = t.sim.k
        if not t.ok:
            out["inconclusive"] = t.why.split(":")[0]
            out["stats"]["inconclusive_" + t.why.split(":")[0]] = 1
            return out
        viol, st = integrity_violations(k, {c.name: ip for c, ip in zip(t.clients, t.tun_ips)}, server_tun_ip=t.server_tun_ip)
        out["stats"].update(st)
        out["stats"]["selects_reporting_several_inputs_at_once"] = k.multi_ready
        out["stats"]["tun_writes_refused_by_injection"] = sum(1 for ev in k.log if ev[1] == "tun_write_error")
        for (ts, who, w) in viol[:3]:
            out["violations"].append(("C01:fabricated-frame:%s" % ("server" if who == "srv" else "client"),
                                      "%s wrote a %d-byte frame to its tun that nobody else ever read from a tun" % (who, len(w)),
                                      {"seed": seed, "cfg": cfg, "time_us": ts, "frame": w.hex()[:400],
                                       "negotiated": t.neg}))
        if cfg.get("snaps") and len(t.clients) == 1:
            rv, rst = reassembly_conservation(k, t.clients[0].name)
            out["stats"].update(rst)
            for (ts, what) in rv[:1]:
                out["violations"].append(("C01:mis-reassembled:server", what, {"seed": seed, "cfg": cfg, "time_us": ts, "negotiated": t.neg}))
        # health is recorded, not judged here (C05/C06/C02 judge it)
        dead = [p.name + "=" + t.sim.health(p) for p in [t.srv] + t.clients if not p.alive()]
        if dead:
            out["stats"]["process_died_during_run"] = 1
            out["sets"]["deaths"] = set(dead)
        rs = t.relay.stats
        for kk in ("q_drop", "a_drop", "q_dup", "a_dup", "reordered", "impatient", "id0"):
            out["stats"]["relay_" + kk] = rs[kk]
        # non-triviality: multi-fragment frames delivered both ways while faults were injected
        frag = t.neg[0]["frag"] if t.neg else 100
        big_down = big_up = 0
        writes = {}
        for ev in k.log:
            if ev[1] == "tun_write":
                writes.setdefault(ev[2], []).append(ev[3]["data"])
        for c in t.clients:
            for w in writes.get(c.name, []):
                if tunnelscn.est_down_frags(w, frag) >= 2:
                    big_down += 1
        cap = tunnelscn.up_capacity(k, t.clients[0].name, t.sim.domain, t.neg[0]["enc"] if t.neg else 5)
        for w in writes.get("srv", []):
            if tunnelscn.est_up_frags(w, cap) >= 2:
                big_up += 1
        out["stats"]["multi_fragment_frames_delivered_down"] = big_down
        out["stats"]["multi_fragment_frames_delivered_up"] = big_up
        faults = rs["q_drop"] + rs["a_drop"] + rs["q_dup"] + rs["a_dup"] + rs["reordered"] + rs["impatient"]
        raw = bool(t.neg and t.neg[0]["conn"] == 0)
        if (big_down and big_up and faults) or (raw and st["tun_writes"] >= 4):
            out["nontrivial"].append(repr(tunnelscn.negotiated_sig(t) + (cfg["fault"], cfg["nclients"])))
        out["sets"]["negotiated"] = {repr(tunnelscn.negotiated_sig(t))}
        if params["idx"] < 3:
            out["sample"] = {"cfg": cfg, "negotiated": t.neg, "offered": t.noffered, "tun_writes": st["tun_writes"],
                             "relay": {kk: rs[kk] for kk in ("q", "a", "q_drop", "a_drop", "q_dup", "a_dup", "reordered")}}
        return out
    finally:
        t.sim.close()


def run(ctx):
    res = core.Result()
    res.rule = ("scenario = real iodine client(s) + real iodined on the simulated OS through a seeded fault relay "
                "(loss/burst/dup/delay/reorder/id-rewrite/impatient re-send, raw-mode link faults) for 60 virtual s "
                "with frames of 1..3000 bytes offered on both tun devices (and client-to-client), in a quarter of the scenarios with "
                "write() on a tun device failing now and then (EIO/ENOBUFS/EAGAIN, short counts); oracle: every "
                "tun_write is byte-identical to a frame read earlier from a tun device (of the peer, another client, or - hairpin via the server - its own). non-trivial = scenario in "
                "which >=1 multi-fragment frame was delivered in each direction while >=1 fault decision was taken "
                "(or a raw-mode run with >=4 deliveries); distinct over (qtype, upstream codec, downstream codec, "
                "fragsize bucket, -M, lazy, raw/dns, fault class, #clients).")
    res.assumptions = ["shim fidelity (DESIGN 3.2)", "zlib adler32 turns most mis-reassembly into drops (C02 catches those)"]
    n = ctx.pick(160, 12000)
    rng = random.Random(ctx.seed * 7717 + 1)
    plist = []
    for i in range(n):
        cfg = tunnelscn.gen_config(rng, i + ctx.seed, faults=True, nclients_max=3)
        if i % 4 == 1:
            cfg["tun_write_faults"] = ctx.seed * 1000003 + i
        if i % 5 == 2:
            # the operator gave iodined an address in the middle of the block it hands out to clients
            cfg["nclients"] = 3
            cfg["tun"] = rng.choice(["10.9.0.2/27", "10.9.0.3/27", "10.9.0.3/24", "10.9.0.2/28", "172.20.0.3/16", "10.9.0.4/27"])
            cfg["raw"] = False
        if cfg["nclients"] == 1 and not cfg["raw"]:
            cfg["snaps"] = True        # single DNS-mode session: the reassembly-conservation monitor compares both ends' transfer state
        plist.append({"idx": i, "seed": ctx.seed * 100000 + i, "cfg": cfg})
    if ctx.replay:
        plist = [ctx.replay["witness"]["params"]]
    res.min_evaluations = max(1, len(plist) // 2)
    res.min_nontrivial = 2 if ctx.replay else ctx.pick(12, 100)
    with core.Build() as b:
        simrun.run_scenarios(res, b, scn, plist, jobs=ctx.jobs)
    simrun.finalize_sets(res)
    if ctx.replay:
        res.min_evaluations = 0
        res.min_nontrivial = 0
    return res
