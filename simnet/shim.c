/* Simulated-OS shim for iodine / iodined (see DESIGN.md 3.2).
 *
 * Linked into the real programs with -Wl,--wrap=<sym> for the libc entry points listed in
 * vflib/core.py WRAPS.  Every wrapped call that touches the outside world becomes a
 * synchronous RPC over the inherited socket $SIMNET_FD to the Python controller
 * (simnet/kernel.py), which owns virtual time, the virtual network, the virtual tun
 * devices and the event log.
 *
 * Built twice: -DSHIM_SERVER (adds a snapshot of users[] to every select()) and
 * -DSHIM_CLIENT.
 */
#define _GNU_SOURCE
#include <errno.h>
#include <fcntl.h>
#include <netdb.h>
#include <stdarg.h>
#include <stdint.h>
#include <stdio.h>
#include <stdlib.h>
#include <string.h>
#include <syslog.h>
#include <time.h>
#include <unistd.h>
#include <sys/ioctl.h>
#include <sys/select.h>
#include <sys/socket.h>
#include <sys/types.h>
#include <sys/uio.h>
#include <netinet/in.h>
#include <arpa/inet.h>
#include <net/if.h>
#include <linux/if_tun.h>
#ifdef __SANITIZE_ADDRESS__
#include <sanitizer/asan_interface.h>
#else   /* memcheck build: no ASan runtime */
#define __asan_poison_memory_region(p, n) ((void)(p), (void)(n))
#define __asan_unpoison_memory_region(p, n) ((void)(p), (void)(n))
#endif

#ifdef SHIM_SERVER
#include "common.h"
#include "encoding.h"
#include "user.h"
extern unsigned usercount;
#endif

enum { OP_HELLO = 1, OP_WAIT, OP_SLEEP, OP_SOCKET, OP_BIND, OP_SEND, OP_RECV, OP_TUN_OPEN,
       OP_TUN_READ, OP_TUN_WRITE, OP_SYSTEM, OP_CLOSE, OP_CONNECT };

ssize_t __real_read(int, void *, size_t);
ssize_t __real_write(int, const void *, size_t);
int __real_open(const char *, int, ...);
int __real_close(int);
int __real_ioctl(int, unsigned long, ...);
int __real_setsockopt(int, int, int, const void *, socklen_t);
int __real_getaddrinfo(const char *, const char *, const struct addrinfo *, struct addrinfo **);

#define MAXFD 1024
enum { V_NONE = 0, V_UDP, V_TUN };
static unsigned char vfd[MAXFD];
static int vfam[MAXFD];
static int ctl = -1;
static uint64_t now_us;

/* pending ASan poison (C12 finder mode) */
static void *poison_p;
static size_t poison_n;

static void unpoison(void)
{
	if (poison_p) {
		__asan_unpoison_memory_region(poison_p, poison_n);
		poison_p = NULL;
	}
}

static void die(const char *m)
{
	char b[128];
	int n = snprintf(b, sizeof(b), "shim: %s (errno %d)\n", m, errno);
	__real_write(2, b, n);
	_exit(99);
}

static void xwrite(const void *p, size_t n)
{
	const char *c = p;
	while (n) {
		ssize_t w = __real_write(ctl, c, n);
		if (w <= 0) { if (w < 0 && errno == EINTR) continue; die("control write"); }
		c += w; n -= w;
	}
}

static void xread(void *p, size_t n)
{
	char *c = p;
	while (n) {
		ssize_t r = __real_read(ctl, c, n);
		if (r == 0) _exit(98);	/* controller went away */
		if (r < 0) { if (errno == EINTR) continue; die("control read"); }
		c += r; n -= r;
	}
}

/* request / reply buffers */
static unsigned char req[70000 + 4096];
static size_t reqn;
static unsigned char rep[70000 + 4096];
static size_t repn, repi;

static void q_begin(int op) { reqn = 4; req[reqn++] = (unsigned char)op; }
static void q_put(const void *p, size_t n) { if (reqn + n > sizeof(req)) die("request too big"); memcpy(req + reqn, p, n); reqn += n; }
static void q_u8(unsigned v) { unsigned char b = v; q_put(&b, 1); }
static void q_u16(unsigned v) { uint16_t b = v; q_put(&b, 2); }
static void q_i32(int32_t v) { q_put(&v, 4); }
static void q_u32(uint32_t v) { q_put(&v, 4); }
static void q_i64(int64_t v) { q_put(&v, 8); }

static void hello(void);

static void q_call(void)
{
	uint32_t n;
	if (ctl < 0) hello();
	n = (uint32_t)(reqn - 4);
	memcpy(req, &n, 4);
	xwrite(req, reqn);
	xread(&n, 4);
	if (n > sizeof(rep)) die("reply too big");
	xread(rep, n);
	repn = n; repi = 0;
	memcpy(&now_us, rep, 8);
	repi = 8;
	unpoison();
}
static void r_get(void *p, size_t n) { if (repi + n > repn) die("short reply"); memcpy(p, rep + repi, n); repi += n; }
static int32_t r_i32(void) { int32_t v; r_get(&v, 4); return v; }
static unsigned r_u16(void) { uint16_t v; r_get(&v, 2); return v; }
static unsigned r_u8(void) { unsigned char v; r_get(&v, 1); return v; }

static void hello(void)
{
	const char *e = getenv("SIMNET_FD");
	uint32_t n;
	unsigned char h[4 + 1 + 1 + 4];
	int32_t pid = getpid();
	if (!e) die("SIMNET_FD not set");
	ctl = atoi(e);
	n = 6;
	memcpy(h, &n, 4);
	h[4] = OP_HELLO;
#ifdef SHIM_SERVER
	h[5] = 0;
#else
	h[5] = 1;
#endif
	memcpy(h + 6, &pid, 4);
	xwrite(h, sizeof(h));
	xread(&n, 4);
	if (n != 8) die("bad hello reply");
	xread(&now_us, 8);
}

/* Descriptor numbers are the operating system's choice: SIMNET_FDMODE=desc hands them out from 200 downwards (the first one
   opened - the tun device - then has the highest number, as under socket activation), =high from 500 upwards. */
static int reserve_fd(void)
{
	static int mode = -1, next_desc = 200, next_high = 500;
	int fd = __real_open("/dev/null", O_RDWR), nfd;
	if (fd < 0 || fd >= MAXFD) die("cannot reserve fd");
	if (mode < 0) {
		const char *m = getenv("SIMNET_FDMODE");
		mode = !m ? 0 : !strcmp(m, "desc") ? 1 : !strcmp(m, "high") ? 2 : 0;
	}
	if (mode == 0) return fd;
	for (;;) {
		int want = mode == 1 ? next_desc-- : next_high++;
		if (want < 8 || want >= MAXFD - 1) { mode = 0; return fd; }
		if (fcntl(want, F_GETFD) != -1) continue;	/* in use */
		nfd = fcntl(fd, F_DUPFD, want);
		if (nfd == want) { close(fd); return nfd; }
		if (nfd >= 0) close(nfd);
	}
}

/* ------------------------------------------------------------------ time */

time_t __wrap_time(time_t *t)
{
	time_t v;
	if (ctl < 0) hello();
	unpoison();
	v = (time_t)(now_us / 1000000ULL);
	if (t) *t = v;
	return v;
}

unsigned int __wrap_sleep(unsigned int s)
{
	q_begin(OP_SLEEP);
	q_i64((int64_t)s * 1000000LL);
	q_call();
	return 0;
}

#ifdef SHIM_SERVER
struct snap_user {
	uint8_t active, authenticated, authenticated_raw, options_locked, disabled, lazy, conn, downenc;
	int64_t last_pkt;
	int32_t seed;
	uint32_t tun_ip;
	uint16_t host_family, host_port;
	uint8_t host_addr[16];
	uint16_t q_id, q_id2, qs_id, qs_id2;
	int32_t in_len, in_offset;
	int8_t in_seq, in_frag;
	int32_t out_len, out_offset, out_sentlen;
	int8_t out_seq, out_frag;
	int32_t outfragresent, fragsize, outpacketq_filled;
	uint8_t encbits;
	uint16_t inv;		/* structural invariants of the slot that do not hold (bit set), see table_invariants() */
	uint32_t heap_kb;	/* (the same in every row) heap bytes currently allocated by the process, in KB */
} __attribute__((packed));

/* heap in use: the sanitizer runtime's own counter when there is one, glibc's otherwise (valgrind runs) */
extern size_t __sanitizer_get_current_allocated_bytes(void) __attribute__((weak));
#include <malloc.h>
static uint32_t heap_in_use_kb(void)
{
	if (__sanitizer_get_current_allocated_bytes)
		return (uint32_t)(__sanitizer_get_current_allocated_bytes() >> 10);
	{
		struct mallinfo2 mi = mallinfo2();
		return (uint32_t)((mi.uordblks + mi.hblkhd) >> 10);
	}
}

static struct snap_user last_snap[USERS];
static unsigned last_snap_n = 0xffffffffu;

/* Structural invariants of a users[] slot at a quiescent point.  A write that strays inside struct tun_user (from one member
   array into the next member) is invisible to red-zone tools; it shows here as an index, length or pointer out of its range. */
static unsigned table_invariants(const struct tun_user *u)
{
	unsigned bad = 0;
	int j;
	if (u->qmemping_lastfilled < 0 || u->qmemping_lastfilled >= QMEMPING_LEN) bad |= 1;
	if (u->qmemdata_lastfilled < 0 || u->qmemdata_lastfilled >= QMEMDATA_LEN) bad |= 2;
#ifdef OUTPACKETQ_LEN
	if (u->outpacketq_nexttouse < 0 || u->outpacketq_nexttouse >= OUTPACKETQ_LEN) bad |= 4;
	if (u->outpacketq_filled < 0 || u->outpacketq_filled > OUTPACKETQ_LEN) bad |= 8;
	for (j = 0; j < OUTPACKETQ_LEN; j++)
		if (u->outpacketq[j].len < 0 || u->outpacketq[j].len > (int)sizeof(u->outpacketq[j].data)) bad |= 16;
#endif
	if (u->outpacket.len < 0 || u->outpacket.len > (int)sizeof(u->outpacket.data)) bad |= 32;
	if (u->outpacket.offset < 0 || u->outpacket.offset > (int)sizeof(u->outpacket.data) ||
	    u->outpacket.sentlen < 0 || u->outpacket.sentlen > (int)sizeof(u->outpacket.data)) bad |= 64;
	if (u->inpacket.len < 0 || u->inpacket.len > (int)sizeof(u->inpacket.data) ||
	    u->inpacket.offset < 0 || u->inpacket.offset > (int)sizeof(u->inpacket.data)) bad |= 128;
#ifdef DNSCACHE_LEN
	if (u->dnscache_lastfilled < 0 || u->dnscache_lastfilled >= DNSCACHE_LEN) bad |= 256;
	for (j = 0; j < DNSCACHE_LEN; j++)
		if (u->dnscache_answerlen[j] < 0 || u->dnscache_answerlen[j] > (int)sizeof(u->dnscache_answer[j])) bad |= 512;
#endif
	if (u->conn != CONN_RAW_UDP && u->conn != CONN_DNS_NULL) bad |= 1024;
	if (u->active && u->encoder != &base32_ops && u->encoder != &base64_ops && u->encoder != &base64u_ops &&
	    u->encoder != &base128_ops) bad |= 2048;
	if (u->active != 0 && u->active != 1) bad |= 4096;
	if ((u->authenticated != 0 && u->authenticated != 1) || (u->authenticated_raw != 0 && u->authenticated_raw != 1)) bad |= 8192;
	return bad;
}

static void put_snapshot(void)
{
	static struct snap_user s[USERS];
	unsigned i, n = users ? usercount : 0;
	uint32_t heap_now = heap_in_use_kb();
	if (n > USERS) n = USERS;
	memset(s, 0, sizeof(s));
	for (i = 0; i < n; i++) {
		struct tun_user *u = &users[i];
		s[i].active = !!u->active; s[i].authenticated = !!u->authenticated;
		s[i].authenticated_raw = !!u->authenticated_raw; s[i].options_locked = !!u->options_locked;
		s[i].disabled = !!u->disabled; s[i].lazy = !!u->lazy; s[i].conn = (uint8_t)u->conn;
		s[i].downenc = (uint8_t)u->downenc;
		s[i].last_pkt = (int64_t)u->last_pkt; s[i].seed = u->seed; s[i].tun_ip = u->tun_ip;
		s[i].host_family = u->host.ss_family;
		if (u->host.ss_family == AF_INET) {
			struct sockaddr_in *a = (struct sockaddr_in *)&u->host;
			memcpy(s[i].host_addr, &a->sin_addr, 4); s[i].host_port = ntohs(a->sin_port);
		} else if (u->host.ss_family == AF_INET6) {
			struct sockaddr_in6 *a = (struct sockaddr_in6 *)&u->host;
			memcpy(s[i].host_addr, &a->sin6_addr, 16); s[i].host_port = ntohs(a->sin6_port);
		}
		s[i].q_id = u->q.id; s[i].q_id2 = u->q.id2;
		s[i].qs_id = u->q_sendrealsoon.id; s[i].qs_id2 = u->q_sendrealsoon.id2;
		s[i].in_len = u->inpacket.len; s[i].in_offset = u->inpacket.offset;
		s[i].in_seq = u->inpacket.seqno; s[i].in_frag = u->inpacket.fragment;
		s[i].out_len = u->outpacket.len; s[i].out_offset = u->outpacket.offset;
		s[i].out_sentlen = u->outpacket.sentlen;
		s[i].out_seq = u->outpacket.seqno; s[i].out_frag = u->outpacket.fragment;
		s[i].outfragresent = u->outfragresent; s[i].fragsize = u->fragsize;
#ifdef OUTPACKETQ_LEN
		s[i].outpacketq_filled = u->outpacketq_filled;
#endif
		if (!u->active) {
			/* fields of never-initialised slots are calloc zeros; encoder may be NULL */
			s[i].encbits = 0;
		} else if (u->encoder == &base32_ops) s[i].encbits = 5;
		else if (u->encoder == &base64_ops) s[i].encbits = 6;
		else if (u->encoder == &base64u_ops) s[i].encbits = 26;
		else if (u->encoder == &base128_ops) s[i].encbits = 7;
		else s[i].encbits = 0;
		s[i].inv = (uint16_t)table_invariants(u);
		s[i].heap_kb = heap_now;
	}
	if (n == last_snap_n && memcmp(s, last_snap, n * sizeof(s[0])) == 0) {
		q_u32(0);	/* unchanged */
		return;
	}
	memcpy(last_snap, s, sizeof(s));
	last_snap_n = n;
	q_u32(n * sizeof(s[0]));
	q_put(s, n * sizeof(s[0]));
}
#endif

#ifndef SHIM_SERVER
#define CSTATE_N 14
extern void iodine_verif_client_state(int *v) __attribute__((weak));
#endif

int __wrap_select(int nfds, fd_set *rfds, fd_set *wfds, fd_set *efds, struct timeval *tv)
{
	int fd, cnt = 0, i, nready;
	int64_t to = -1;
	int list[64];

	if (tv) to = (int64_t)tv->tv_sec * 1000000LL + tv->tv_usec;
	for (fd = 0; fd < nfds && fd < MAXFD && rfds; fd++)
		if (FD_ISSET(fd, rfds) && vfd[fd] != V_NONE && cnt < 64)
			list[cnt++] = fd;
	q_begin(OP_WAIT);
	q_i64(to);
	q_u16(cnt);
	for (i = 0; i < cnt; i++) q_i32(list[i]);
#ifdef SHIM_SERVER
	put_snapshot();
#else
	if (iodine_verif_client_state) {
		/* guarded hook in client.c (-DIODINE_VERIF): the client's transfer state at this quiescent point */
		int v[CSTATE_N];
		memset(v, 0, sizeof(v));
		iodine_verif_client_state(v);
		q_u32((uint32_t)sizeof(v));
		q_put(v, sizeof(v));
	} else {
		q_u32(0);
	}
#endif
	q_call();
	nready = r_u16();
	if (rfds) FD_ZERO(rfds);
	if (wfds) FD_ZERO(wfds);
	if (efds) FD_ZERO(efds);
	for (i = 0; i < nready; i++) {
		fd = r_i32();
		if (rfds && fd >= 0 && fd < MAXFD) FD_SET(fd, rfds);
	}
	return nready;
}

/* --------------------------------------------------------------- sockets */

int __wrap_socket(int domain, int type, int protocol)
{
	int fd = reserve_fd();
	vfd[fd] = V_UDP;
	vfam[fd] = domain;
	q_begin(OP_SOCKET);
	q_i32(fd); q_i32(domain);
	q_call();
	return fd;
}

static void put_addr(const struct sockaddr *sa, socklen_t len)
{
	unsigned char a[16];
	memset(a, 0, sizeof(a));
	if (sa && len >= sizeof(struct sockaddr_in) && sa->sa_family == AF_INET) {
		const struct sockaddr_in *s4 = (const struct sockaddr_in *)sa;
		q_u16(AF_INET); q_u16(ntohs(s4->sin_port));
		memcpy(a, &s4->sin_addr, 4);
	} else if (sa && len >= sizeof(struct sockaddr_in6) && sa->sa_family == AF_INET6) {
		const struct sockaddr_in6 *s6 = (const struct sockaddr_in6 *)sa;
		q_u16(AF_INET6); q_u16(ntohs(s6->sin6_port));
		memcpy(a, &s6->sin6_addr, 16);
	} else {
		q_u16(sa && len >= 2 ? sa->sa_family : 0); q_u16(0);
	}
	q_put(a, 16);
}

int __wrap_bind(int fd, const struct sockaddr *addr, socklen_t len)
{
	int rc;
	if (fd < 0 || fd >= MAXFD || vfd[fd] != V_UDP) { errno = EBADF; return -1; }
	q_begin(OP_BIND);
	q_i32(fd);
	put_addr(addr, len);
	q_call();
	rc = r_i32();
	if (rc < 0) { errno = -rc; return -1; }
	return 0;
}

/* connect() on a UDP socket: fixes the peer (datagrams from anybody else are dropped by the simulated OS) and makes the socket
   report ICMP errors (a closed port at the peer: ECONNREFUSED from the next call) as Linux does */
int __real_connect(int fd, const struct sockaddr *addr, socklen_t len);
int __wrap_connect(int fd, const struct sockaddr *addr, socklen_t len)
{
	int rc;
	if (fd < 0 || fd >= MAXFD || vfd[fd] != V_UDP) return __real_connect(fd, addr, len);
	q_begin(OP_CONNECT);
	q_i32(fd);
	put_addr(addr, len);
	q_call();
	rc = r_i32();
	if (rc < 0) { errno = -rc; return -1; }
	return 0;
}

int __wrap_setsockopt(int fd, int level, int name, const void *val, socklen_t len)
{
	if (fd >= 0 && fd < MAXFD && vfd[fd] != V_NONE) return 0;
	return __real_setsockopt(fd, level, name, val, len);
}

ssize_t __wrap_sendto(int fd, const void *buf, size_t n, int flags, const struct sockaddr *addr, socklen_t alen)
{
	int rc;
	if (fd < 0 || fd >= MAXFD || vfd[fd] != V_UDP) { errno = EBADF; return -1; }
	if (n > 65507) { errno = EMSGSIZE; return -1; }
	q_begin(OP_SEND);
	q_i32(fd);
	put_addr(addr, addr ? alen : 0);		/* no address: the peer of a connected socket (EDESTADDRREQ otherwise) */
	q_u32(alen);
	q_put(buf, n);
	q_call();
	rc = r_i32();
	if (rc < 0) { errno = -rc; return -1; }
	return rc;
}

struct rcv { int rc; unsigned sfam, sport, dfam; unsigned char saddr[16], daddr[16]; };

/* common receive path; copies at most cap bytes into buf and applies the residue policy */
static int do_recv(int fd, void *buf, size_t cap, struct rcv *r)
{
	unsigned mode, patn;
	size_t dn, cp;
	q_begin(OP_RECV);
	q_i32(fd); q_u32((uint32_t)cap);
	q_call();
	r->rc = r_i32();
	if (r->rc < 0) { errno = -r->rc; return -1; }
	r->sfam = r_u16(); r->sport = r_u16(); r_get(r->saddr, 16);
	r->dfam = r_u16(); r_get(r->daddr, 16);
	mode = r_u8();
	patn = r_u16();
	dn = (size_t)r->rc;
	cp = dn < cap ? dn : cap;
	memcpy(buf, rep + repi, cp);
	repi += dn;
	if (cp < cap) {
		unsigned char *tail = (unsigned char *)buf + cp;
		size_t tn = cap - cp;
		if (mode == 1 && patn > 0) {
			size_t i;
			const unsigned char *pat = rep + repi;
			for (i = 0; i < tn; i++) tail[i] = pat[i % patn];
		} else if (mode == 2) {
			__asan_poison_memory_region(tail, tn);
			poison_p = tail; poison_n = tn;
		}
		/* mode 0: keep whatever an earlier datagram left there */
	}
	return (int)cp;
}

static void fill_from(struct sockaddr *sa, socklen_t *slen, const struct rcv *r)
{
	if (!sa || !slen) return;
	if (r->sfam == AF_INET) {
		struct sockaddr_in s4;
		memset(&s4, 0, sizeof(s4));
		s4.sin_family = AF_INET; s4.sin_port = htons(r->sport);
		memcpy(&s4.sin_addr, r->saddr, 4);
		memcpy(sa, &s4, *slen < sizeof(s4) ? *slen : sizeof(s4));
		*slen = sizeof(s4);
	} else {
		struct sockaddr_in6 s6;
		memset(&s6, 0, sizeof(s6));
		s6.sin6_family = AF_INET6; s6.sin6_port = htons(r->sport);
		memcpy(&s6.sin6_addr, r->saddr, 16);
		memcpy(sa, &s6, *slen < sizeof(s6) ? *slen : sizeof(s6));
		*slen = sizeof(s6);
	}
}

ssize_t __wrap_recvfrom(int fd, void *buf, size_t cap, int flags, struct sockaddr *sa, socklen_t *slen)
{
	struct rcv r;
	int n;
	if (fd < 0 || fd >= MAXFD || vfd[fd] != V_UDP) { errno = EBADF; return -1; }
	n = do_recv(fd, buf, cap, &r);
	if (n < 0) return -1;
	fill_from(sa, slen, &r);
	return n;
}

ssize_t __wrap_recv(int fd, void *buf, size_t cap, int flags)
{
	return __wrap_recvfrom(fd, buf, cap, flags, NULL, NULL);
}

ssize_t __wrap_recvmsg(int fd, struct msghdr *msg, int flags)
{
	struct rcv r;
	int n;
	socklen_t nl;
	if (fd < 0 || fd >= MAXFD || vfd[fd] != V_UDP) { errno = EBADF; return -1; }
	if (msg->msg_iovlen < 1) { errno = EINVAL; return -1; }
	n = do_recv(fd, msg->msg_iov[0].iov_base, msg->msg_iov[0].iov_len, &r);
	if (n < 0) return -1;
	nl = msg->msg_namelen;
	fill_from((struct sockaddr *)msg->msg_name, &nl, &r);
	msg->msg_namelen = nl;
	msg->msg_flags = 0;
	if (msg->msg_control) {
		struct cmsghdr *c = (struct cmsghdr *)msg->msg_control;
		if (r.dfam == AF_INET && msg->msg_controllen >= CMSG_SPACE(sizeof(struct in_pktinfo))) {
			struct in_pktinfo pi;
			memset(&pi, 0, sizeof(pi));
			memcpy(&pi.ipi_addr, r.daddr, 4);
			memcpy(&pi.ipi_spec_dst, r.daddr, 4);
			pi.ipi_ifindex = 1;
			c->cmsg_level = IPPROTO_IP; c->cmsg_type = IP_PKTINFO;
			c->cmsg_len = CMSG_LEN(sizeof(pi));
			memcpy(CMSG_DATA(c), &pi, sizeof(pi));
			msg->msg_controllen = CMSG_SPACE(sizeof(pi));
		} else if (r.dfam == AF_INET6 && msg->msg_controllen >= CMSG_SPACE(sizeof(struct in6_pktinfo))) {
			struct in6_pktinfo pi;
			memset(&pi, 0, sizeof(pi));
			memcpy(&pi.ipi6_addr, r.daddr, 16);
			pi.ipi6_ifindex = 1;
			c->cmsg_level = IPPROTO_IPV6; c->cmsg_type = IPV6_PKTINFO;
			c->cmsg_len = CMSG_LEN(sizeof(pi));
			memcpy(CMSG_DATA(c), &pi, sizeof(pi));
			msg->msg_controllen = CMSG_SPACE(sizeof(pi));
		} else {
			msg->msg_controllen = 0;
		}
	}
	return n;
}

/* access(): the host may lack some of the tools the programs look for (SIMNET_ABSENT = colon-separated paths that do not exist) */
int __real_access(const char *path, int mode);
int __wrap_access(const char *path, int mode)
{
	const char *ab = getenv("SIMNET_ABSENT");
	if (ab && path) {
		size_t n = strlen(path);
		const char *p = ab;
		while (*p) {
			const char *e = strchr(p, ':');
			size_t l = e ? (size_t)(e - p) : strlen(p);
			if (l == n && memcmp(p, path, n) == 0) { errno = ENOENT; return -1; }
			p += l;
			if (*p == ':') p++;
		}
	}
	return __real_access(path, mode);
}

/* ------------------------------------------------------------------- tun */

/* chroot(): nothing is really changed (the sanitizer log files must stay reachable); afterwards the usual paths outside an
   empty jail - /dev, /etc, /proc, /sys - are gone for open(). */
static int jailed;

int __wrap_chroot(const char *path)
{
	(void)path;
	jailed = 1;
	return 0;
}

int __wrap_open(const char *path, int flags, ...)
{
	mode_t mode = 0;
	if (flags & O_CREAT) {
		va_list ap;
		va_start(ap, flags);
		mode = va_arg(ap, mode_t);
		va_end(ap);
	}
	if (jailed && path && (!strncmp(path, "/dev/", 5) || !strncmp(path, "/etc/", 5) || !strncmp(path, "/proc/", 6) || !strncmp(path, "/sys/", 5))) {
		errno = ENOENT;
		return -1;
	}
	if (path && (!strcmp(path, "/dev/net/tun") || !strcmp(path, "/dev/tun"))) {
		int fd = reserve_fd();
		vfd[fd] = V_TUN;
		q_begin(OP_TUN_OPEN);
		q_i32(fd);
		q_call();
		return fd;
	}
	return __real_open(path, flags, mode);
}

int __wrap_ioctl(int fd, unsigned long reqno, ...)
{
	void *arg;
	va_list ap;
	va_start(ap, reqno);
	arg = va_arg(ap, void *);
	va_end(ap);
	if (fd >= 0 && fd < MAXFD && vfd[fd] == V_TUN) {
		if (reqno == TUNSETIFF) return 0;	/* ifr_name already holds the requested name */
		errno = EINVAL;
		return -1;
	}
	return __real_ioctl(fd, reqno, arg);
}

ssize_t __wrap_read(int fd, void *buf, size_t n)
{
	int rc;
	size_t cp;
	if (fd < 0 || fd >= MAXFD || vfd[fd] != V_TUN) return __real_read(fd, buf, n);
	q_begin(OP_TUN_READ);
	q_i32(fd); q_u32((uint32_t)n);
	q_call();
	rc = r_i32();
	if (rc < 0) { errno = -rc; return -1; }
	cp = (size_t)rc < n ? (size_t)rc : n;
	memcpy(buf, rep + repi, cp);
	return (ssize_t)cp;
}

ssize_t __wrap_write(int fd, const void *buf, size_t n)
{
	int rc;
	if (fd < 0 || fd >= MAXFD || vfd[fd] != V_TUN) return __real_write(fd, buf, n);
	if (n > 69000) { errno = EINVAL; return -1; }
	q_begin(OP_TUN_WRITE);
	q_i32(fd);
	q_put(buf, n);
	q_call();
	rc = r_i32();
	if (rc < 0) { errno = -rc; return -1; }
	return rc;
}

int __wrap_close(int fd)
{
	if (fd >= 0 && fd < MAXFD && vfd[fd] != V_NONE) {
		q_begin(OP_CLOSE);
		q_i32(fd);
		q_call();
		vfd[fd] = V_NONE;
	}
	return __real_close(fd);
}

/* ------------------------------------------------------------------ misc */

int __wrap_system(const char *cmd)
{
	q_begin(OP_SYSTEM);
	q_put(cmd, strlen(cmd));
	q_call();
	return r_i32();
}

void __wrap_syslog(int pri, const char *fmt, ...) { (void)pri; (void)fmt; }
void __wrap_openlog(const char *ident, int opt, int fac) { (void)ident; (void)opt; (void)fac; }
uid_t __wrap_geteuid(void) { return 0; }
int __wrap_daemon(int a, int b) { (void)a; (void)b; return 0; }

int __wrap_getaddrinfo(const char *node, const char *service, const struct addrinfo *hints, struct addrinfo **res)
{
	struct addrinfo h;
	if (hints) h = *hints; else memset(&h, 0, sizeof(h));
	h.ai_flags &= ~AI_ADDRCONFIG;
	h.ai_flags |= AI_NUMERICHOST | AI_NUMERICSERV;	/* the sandbox has no resolver */
	/* the simulated hosts file: the one name the programs look up themselves (iodined -n auto / -l external) */
	if (node && !strcmp(node, "resolver1.opendns.com")) node = "208.67.222.222";
	return __real_getaddrinfo(node, service, &h, res);
}
