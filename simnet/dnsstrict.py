"""Strict RFC 1035 well-formedness checker (C10 oracle).  Written from the RFC.

check(data) -> (info, problems): problems is a list of short strings (empty = well-formed);
info carries id, flags, question (labels, type, class) and the decoded records.
"""
import struct

T_A, T_NS, T_CNAME, T_NULL, T_MX, T_TXT, T_SRV, T_OPT = 1, 2, 5, 10, 15, 16, 33, 41


class _P:
    def __init__(self, data):
        self.d = data
        self.problems = []
        self.label_starts = set()   # offsets at which a label (or the root) of an already parsed name starts

    def bad(self, s):
        if len(self.problems) < 8:
            self.problems.append(s)

    def name(self, off, what):
        """Parse a (possibly compressed) name at off. Returns (labels, next_off) or (None, None)."""
        d = self.d
        labels = []
        wire = 0
        nxt = None
        cur = off
        first = True
        own_starts = []
        while True:
            if cur >= len(d):
                self.bad("%s: name runs past the end of the message" % what)
                return None, None
            l = d[cur]
            if l & 0xC0 == 0xC0:
                if cur + 1 >= len(d):
                    self.bad("%s: truncated compression pointer" % what)
                    return None, None
                tgt = ((l & 0x3F) << 8) | d[cur + 1]
                if nxt is None:
                    nxt = cur + 2
                if tgt >= cur:
                    self.bad("%s: compression pointer at %d does not point backwards (target %d)" % (what, cur, tgt))
                    return None, None
                if tgt not in self.label_starts:
                    self.bad("%s: compression pointer target %d is not a label boundary of an earlier name" % (what, tgt))
                    return None, None
                cur = tgt
                first = False
                continue
            if l & 0xC0:
                self.bad("%s: reserved label type 0x%02x" % (what, l))
                return None, None
            if nxt is None:
                own_starts.append(cur)
            if l == 0:
                wire += 1
                if nxt is None:
                    nxt = cur + 1
                break
            if l > 63:
                self.bad("%s: label longer than 63" % what)
                return None, None
            if cur + 1 + l > len(d):
                self.bad("%s: label runs past the end" % what)
                return None, None
            labels.append(bytes(d[cur + 1:cur + 1 + l]))
            wire += 1 + l
            cur += 1 + l
        if wire > 255:
            self.bad("%s: name is %d bytes on the wire (>255)" % (what, wire))
        self.label_starts.update(own_starts)
        return labels, nxt


def check(data, expect_qr=None):
    p = _P(data)
    info = {"id": None, "qr": None, "question": None, "answers": [], "authority": [], "additional": [], "rcode": None}
    if len(data) < 12:
        p.bad("message shorter than a header (%d bytes)" % len(data))
        return info, p.problems
    mid, flags, qd, an, ns, ar = struct.unpack_from(">HHHHHH", data, 0)
    info["id"] = mid
    info["qr"] = flags >> 15
    info["rcode"] = flags & 15
    info["flags"] = flags
    info["counts"] = (qd, an, ns, ar)
    if expect_qr is not None and info["qr"] != expect_qr:
        p.bad("QR bit is %d, expected %d" % (info["qr"], expect_qr))
    off = 12
    for i in range(qd):
        labels, off2 = p.name(off, "question")
        if labels is None:
            return info, p.problems
        if off2 + 4 > len(data):
            p.bad("question section truncated")
            return info, p.problems
        t, c = struct.unpack_from(">HH", data, off2)
        if i == 0:
            info["question"] = (labels, t, c)
        off = off2 + 4
    for sec, cnt in (("answers", an), ("authority", ns), ("additional", ar)):
        for i in range(cnt):
            labels, off2 = p.name(off, "%s[%d] owner" % (sec, i))
            if labels is None:
                return info, p.problems
            if off2 + 10 > len(data):
                p.bad("%s[%d]: record header truncated (counts exceed records present)" % (sec, i))
                return info, p.problems
            t, c, ttl, rdl = struct.unpack_from(">HHIH", data, off2)
            rd0 = off2 + 10
            if rd0 + rdl > len(data):
                p.bad("%s[%d]: RDLENGTH %d exceeds the message" % (sec, i, rdl))
                return info, p.problems
            rec = {"owner": labels, "type": t, "class": c, "ttl": ttl, "rdata": bytes(data[rd0:rd0 + rdl])}
            end = rd0 + rdl
            if t in (T_CNAME, T_NS):
                tl, e = p.name(rd0, "%s[%d] target" % (sec, i))
                if tl is None:
                    return info, p.problems
                rec["target"] = tl
                if e != end:
                    p.bad("%s[%d]: RDLENGTH %d but name occupies %d bytes" % (sec, i, rdl, e - rd0))
            elif t == T_MX:
                if rdl < 3:
                    p.bad("%s[%d]: MX RDATA too short" % (sec, i))
                else:
                    rec["pref"] = struct.unpack_from(">H", data, rd0)[0]
                    tl, e = p.name(rd0 + 2, "%s[%d] exchange" % (sec, i))
                    if tl is None:
                        return info, p.problems
                    rec["target"] = tl
                    if e != end:
                        p.bad("%s[%d]: RDLENGTH %d but MX data occupies %d bytes" % (sec, i, rdl, e - rd0))
            elif t == T_SRV:
                if rdl < 7:
                    p.bad("%s[%d]: SRV RDATA too short" % (sec, i))
                else:
                    rec["pref"] = struct.unpack_from(">H", data, rd0)[0]
                    tl, e = p.name(rd0 + 6, "%s[%d] srv target" % (sec, i))
                    if tl is None:
                        return info, p.problems
                    rec["target"] = tl
                    if e != end:
                        p.bad("%s[%d]: RDLENGTH %d but SRV data occupies %d bytes" % (sec, i, rdl, e - rd0))
            elif t == T_TXT:
                j = rd0
                strings = []
                if rdl == 0:
                    p.bad("%s[%d]: TXT RDATA empty" % (sec, i))
                while j < end:
                    l = data[j]
                    if j + 1 + l > end:
                        p.bad("%s[%d]: TXT character-string overruns RDATA" % (sec, i))
                        break
                    strings.append(bytes(data[j + 1:j + 1 + l]))
                    j += 1 + l
                rec["strings"] = strings
            elif t == T_A:
                if rdl != 4:
                    p.bad("%s[%d]: A record with RDLENGTH %d" % (sec, i, rdl))
            elif t == T_OPT:
                if labels:
                    p.bad("OPT owner is not the root name")
            info[sec].append(rec)
            off = end
    if off != len(data):
        p.bad("%d trailing bytes after the last record" % (len(data) - off))
    return info, p.problems


def lower_labels(labels):
    return tuple(l.lower() for l in labels)
