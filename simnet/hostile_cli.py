"""Hostile answers for the real client (C06): structurally hostile DNS answers for every record type,
hostile handshake payloads for every handshake step, hostile tunnel-phase data answers and raw frames.

All builders take the client's parsed query (proto.Msg) and return one datagram (bytes) or a list."""
import struct
import zlib

from . import mserver, proto

CLASSES = ["arbitrary", "truncate", "rdlen_lie", "huge_rdata", "many_records", "bad_prefs", "txt_chunks", "name_tricks",
           "codec_letters", "empty", "boundary_payload", "step_payload", "counts_lie", "wrong_type", "rcode", "zlib", "raw", "frag_flood", "compressed_many", "names_fill_exactly", "cut_after_records", "cross_type_fill"]


def rb(rng, n):
    return bytes(rng.getrandbits(8) for _ in range(n))


def rr(owner, rtype, rdata, rdlen=None, rclass=1, ttl=0):
    return owner + struct.pack(">HHIH", rtype, rclass, ttl, len(rdata) if rdlen is None else rdlen & 0xFFFF) + rdata


def answer(q, body_rrs, ancount=None, qid=None, rcode=0, extra=b"", qdcount=1, qname=None, qtype=None):
    labels, t, c = q.qd[0]
    flags = 0x8400 | (rcode & 15)
    qn = proto.encode_name(labels) if qname is None else qname
    hdr = struct.pack(">HHHHHH", (q.id if qid is None else qid) & 0xFFFF, flags, qdcount,
                      len(body_rrs) if ancount is None else ancount & 0xFFFF, 0, 0)
    return hdr + qn + struct.pack(">HH", t if qtype is None else qtype, c) + b"".join(body_rrs) + extra


PTR = b"\xc0\x0c"


def host_name(rng, n, letter=b"h", alphabet=proto.B32):
    """A legal encoded host name of about n chars: letter + data, dotted, + '.xy'."""
    body = letter + bytes(rng.choice(alphabet) for _ in range(max(n - 4, 0)))
    labels = proto.dotsplit(body, 57) + [b"xy"]
    return proto.encode_name(labels)


def name_of_len(rng, n, first=None):
    """Wire form of a host name whose dotted presentation form has exactly n characters (1 <= n <= 253)."""
    n = max(1, min(253, n))
    labels = []
    left = n
    while left > 0:
        l = min(63, left)
        if left - l == 1:
            l -= 1
        labels.append(bytes(rng.choice(proto.B32) for _ in range(l)))
        left -= l
        if left > 0:
            left -= 1
    if first is not None:
        labels[0] = bytes([first]) + labels[0][1:]
    return proto.encode_name(labels)


def gen(rng, q, cls, step, ctx):
    """ctx: dict with downenc letter, password, challenge, userid ... Returns bytes | [bytes] | None."""
    labels, qt, _c = q.qd[0]
    down = ctx.get("downenc", "T")
    big = rng.choice([4093, 4094, 4095, 4096, 4097, 5000, 8192, 16384, 40000, 65000])
    if cls == "arbitrary":
        n = rng.choice([0, 1, 2, 11, 12, 13, 17, 40, 100, 512, 4096, 65507])
        d = rb(rng, min(n, 3000)) + b"\0" * max(0, n - 3000)
        if rng.random() < 0.5 and n >= 2:
            d = struct.pack(">H", q.id) + d[2:]
        return d
    if cls == "truncate":
        full = mserver.build_answer(q, rb(rng, rng.choice([2, 50, 300, 1200])), down if qt not in (proto.T_NULL, proto.T_PRIVATE) else "T")
        return full[:rng.randint(0, len(full))]
    if cls == "rdlen_lie":
        data = rb(rng, rng.choice([0, 1, 2, 10, 100, 1000]))
        lie = rng.choice([0, 1, len(data) + 1, len(data) + 2, len(data) + 255, 4096, 65535, max(len(data) - 1, 0)])
        t = qt if qt != proto.T_A else proto.T_CNAME
        if t in (proto.T_CNAME,):
            data = host_name(rng, rng.choice([5, 60, 250]))
        elif t == proto.T_MX:
            data = struct.pack(">H", 10) + host_name(rng, 100)
        elif t == proto.T_SRV:
            data = struct.pack(">HHH", 10, 0, 5060) + host_name(rng, 100)
        elif t == proto.T_TXT:
            data = bytes([min(len(data), 255)]) + data[:255]
        return answer(q, [rr(PTR, t, data, rdlen=lie)])
    if cls == "huge_rdata":
        n = big
        if qt in (proto.T_NULL, proto.T_PRIVATE):
            return answer(q, [rr(PTR, qt, rb(rng, 64) + b"\xaa" * (n - 64))])
        if qt == proto.T_TXT:
            text = rng.choice([b"t", b"s", b"u", b"v", b"r", b"T", b"R"]) + bytes(rng.choice(proto.B32) for _ in range(64)) + b"a" * (n - 65)
            rd = b"".join(bytes([len(text[i:i + 255])]) + text[i:i + 255] for i in range(0, len(text), 255))
            return answer(q, [rr(PTR, qt, rd)])
        # host-name types: as many maximal names as needed
        t = qt if qt != proto.T_A else proto.T_CNAME
        nrec = min(n // 200 + 1, 260)
        rrs = []
        for i in range(nrec):
            nm = host_name(rng, 250, rng.choice([b"h", b"i", b"j", b"k"]), proto.B128 if rng.random() < 0.3 else proto.B32)
            if t == proto.T_MX:
                rrs.append(rr(PTR, t, struct.pack(">H", 10 * (i + 1)) + nm))
            elif t == proto.T_SRV:
                rrs.append(rr(PTR, t, struct.pack(">HHH", 10 * (i + 1), 0, 5060) + nm))
            else:
                rrs.append(rr(PTR, t, nm))
        return answer(q, rrs)
    if cls in ("many_records", "bad_prefs"):
        t = qt if qt in (proto.T_MX, proto.T_SRV) else rng.choice([proto.T_MX, proto.T_SRV])
        n = rng.choice([1, 2, 10, 249, 250, 251, 255, 300]) if cls == "many_records" else rng.choice([3, 10, 40])
        rrs = []
        tidy = rng.random() < 0.5        # every record present, short and non-empty: the decoder's table gets filled completely
        for i in range(n):
            pref = 10 * (i + 1)
            if tidy and cls == "many_records":
                nm = host_name(rng, rng.choice([5, 6, 12]))
                rrs.append(rr(PTR, t, (struct.pack(">H", pref) if t == proto.T_MX else struct.pack(">HHH", pref, 0, 5060)) + nm))
                continue
            if cls == "bad_prefs":
                pref = rng.choice([0, 1, 5, 9, 10, 10, 11, 15, 20, 25, 2490, 2499, 2500, 2501, 2510, 65535, 10 * (n - i), 10 * (i + 2)])
            nm = host_name(rng, rng.choice([5, 8, 100, 250, 253]))
            if rng.random() < 0.05:
                nm = b"\x00"
            if t == proto.T_MX:
                rrs.append(rr(PTR, t, struct.pack(">H", pref) + nm))
            else:
                rrs.append(rr(PTR, t, struct.pack(">HHH", pref, rng.getrandbits(16), rng.getrandbits(16)) + nm))
        return answer(q, rrs, qtype=t if rng.random() < 0.3 else None)
    if cls == "txt_chunks":
        kind = rng.randrange(6)
        if kind == 0:
            rd = b"\xff" + b"tabc"                       # string length beyond RDATA
        elif kind == 1:
            rd = b"\x00" * rng.choice([1, 2, 100])        # empty strings
        elif kind == 2:
            rd = b"".join(b"\x01" + bytes([rng.choice(b"tsuvr")]) for _ in range(rng.choice([1, 10, 2000])))
        elif kind == 3:
            rd = b"\xff" + b"t" + b"a" * 254 + b"\xff" + b"b" * 100      # last string cut
        elif kind == 4:
            rd = b""
        else:
            text = b"r" + rb(rng, rng.choice([1, 252, 253, 254, 255, 256, 4093, 4094, 4095, 4096]))
            rd = b"".join(bytes([len(text[i:i + 255])]) + text[i:i + 255] for i in range(0, len(text), 255))
        return answer(q, [rr(PTR, proto.T_TXT, rd)], qtype=proto.T_TXT if rng.random() < 0.2 else None)
    if cls == "name_tricks":
        kind = rng.randrange(8)
        t = qt if qt in (proto.T_CNAME, proto.T_MX, proto.T_SRV) else proto.T_CNAME
        pre = {proto.T_CNAME: b"", proto.T_MX: struct.pack(">H", 10), proto.T_SRV: struct.pack(">HHH", 10, 0, 1)}[t]
        qn = proto.encode_name(labels)
        off_rd = 12 + len(qn) + 4 + 2 + 10 + len(pre)           # offset of the target name inside the message
        if kind == 0:
            tgt = struct.pack(">H", 0xC000 | off_rd)               # pointer to itself
        elif kind == 1:
            tgt = b"\x03abc" + struct.pack(">H", 0xC000 | off_rd)  # loop through a label
        elif kind == 2:
            tgt = struct.pack(">H", 0xC000 | 0x3FFF)               # far beyond the end
        elif kind == 3:
            tgt = struct.pack(">H", 0xC000 | (off_rd + 2))         # pointer to the byte after itself = end of message
        elif kind == 4:
            tgt = bytes([rng.randint(0x40, 0xBF)]) + rb(rng, 10)   # reserved label type
        elif kind == 5:
            tgt = b"\x3f" + b"h" * 10                               # label longer than what is present
        elif kind == 6:
            tgt = b"".join(b"\x3f" + b"h" + b"a" * 62 for _ in range(rng.choice([4, 5, 8]))) + b"\x00"   # > 255 bytes
        else:
            tgt = b"\x05hello" + PTR                                 # ends in a pointer to the question (long expansion)
        owner = rng.choice([PTR, struct.pack(">H", 0xC000 | 12), struct.pack(">H", 0xC000 | (12 + len(qn) + 4)), b"\xc0"])
        return answer(q, [rr(owner, t, pre + tgt)])
    if cls == "codec_letters":
        letter = bytes([rng.choice(b"tsuvrhijklTSUVRHIJKLxyz0\x00\xff")])
        body = rb(rng, rng.choice([0, 1, 3, 50, 200]))
        if qt == proto.T_TXT:
            text = letter + body
            return answer(q, [rr(PTR, qt, bytes([len(text)]) + text)])
        if qt in (proto.T_NULL, proto.T_PRIVATE):
            return answer(q, [rr(PTR, qt, letter + body)])
        nm = proto.encode_name(proto.dotsplit(letter.replace(b"\x00", b"a") + bytes(rng.choice(proto.B128) for _ in range(rng.choice([0, 1, 2, 3, 4, 100]))), 57) + ([b"xy"] if rng.random() < 0.7 else []))
        t = qt if qt != proto.T_A else proto.T_CNAME
        pre = {proto.T_CNAME: b"", proto.T_MX: struct.pack(">H", 10), proto.T_SRV: struct.pack(">HHH", 10, 0, 1)}[t]
        return answer(q, [rr(PTR, t, pre + nm)])
    if cls == "empty":
        kind = rng.randrange(4)
        if kind == 0:
            return answer(q, [])
        if kind == 1:
            return answer(q, [rr(PTR, qt, b"")])
        if kind == 2:
            return answer(q, [], ancount=rng.choice([1, 2, 65535]))
        return mserver.build_answer(q, b"", down)
    if cls == "boundary_payload":
        # decoded payload sizes around every fixed buffer the handshake parsers use
        n = rng.choice([1, 2, 3, 4, 5, 8, 9, 16, 17, 63, 64, 65, 100, 255, 256, 511, 512, 1023, 1024, 2047, 2048, 4093, 4094, 4095, 4096, 4097])
        pl = rb(rng, 8) + bytes([rng.choice([0x41, 0x00, 0xff])]) * max(n - 8, 0)
        pl = pl[:n]
        try:
            return mserver.build_answer(q, pl, down if qt not in (proto.T_NULL, proto.T_PRIVATE) else "T")
        except ValueError:
            return answer(q, [rr(PTR, qt, pl)])
    if cls == "step_payload":
        return step_payload(rng, q, step, ctx)
    if cls == "counts_lie":
        base = mserver.build_answer(q, rb(rng, 20), down)
        return base[:4] + struct.pack(">HHHH", rng.choice([0, 1, 2, 65535]), rng.choice([0, 1, 2, 300, 65535]), rng.getrandbits(16), rng.getrandbits(16)) + base[12:]
    if cls == "wrong_type":
        t = rng.choice([1, 2, 5, 6, 10, 12, 15, 16, 28, 33, 41, 255, 65399, rng.getrandbits(16)])
        return answer(q, [rr(PTR, t, rb(rng, rng.choice([0, 4, 16, 100])))], qtype=rng.choice([None, t]))
    if cls == "rcode":
        return answer(q, [], rcode=rng.choice([1, 2, 3, 4, 5, 15]))
    if cls == "zlib":
        # tunnel-phase data answers: headers of every shape, bodies that inflate to too much / garbage / nothing
        kind = rng.randrange(5)
        if kind == 0:
            body = zlib.compress(b"\0" * rng.choice([65536, 70000, 200000, 1 << 20]), 9)
        elif kind == 1:
            body = rb(rng, rng.choice([1, 2, 100, 1000]))
        elif kind == 2:
            body = zlib.compress(rb(rng, 300))[:-rng.randint(1, 8)]
        elif kind == 3:
            body = b"\x78\xda" + b"\xff" * 50
        else:
            body = zlib.compress(ctx["frame"]()) if "frame" in ctx else b"x"
        hdr = bytes([rng.getrandbits(8), rng.getrandbits(8)])
        if rng.random() < 0.5:
            hdr = bytes([0x80 | (ctx.get("up_seq", 0) << 4), (rng.randrange(8) << 5) | (rng.randrange(16) << 1) | rng.randrange(2)])
        try:
            return mserver.build_answer(q, hdr + body, down if qt not in (proto.T_NULL, proto.T_PRIVATE) else "T")
        except ValueError:
            return answer(q, [rr(PTR, qt, hdr + body)])
    if cls == "frag_flood":
        # a coherent stream of non-final fragments of one downstream packet, each as large as the answer format
        # allows: the reassembly buffer must not overflow however many arrive
        ff = ctx.setdefault("ff", {"seq": rng.randrange(8), "frag": 0})
        if ff["frag"] > 15 or rng.random() < 0.05:
            ff["seq"] = (ff["seq"] + 1) & 7
            ff["frag"] = 0
        n = rng.choice([4094, 30000, 33000, 60000]) if qt in (proto.T_MX, proto.T_SRV) else rng.choice([1000, 4094])
        hdr = bytes([0x80 | ((ctx.get("up_seq", 0) & 7) << 4), (ff["seq"] << 5) | (ff["frag"] << 1)])
        ff["frag"] += 1
        while True:
            body = hdr + bytes([0x5a]) * n
            try:
                d = mserver.build_answer(q, body, down if qt not in (proto.T_NULL, proto.T_PRIVATE) else "T")
            except ValueError:
                return answer(q, [rr(PTR, qt, body[:4096])])
            if len(d) <= 65000 or n < 2000:
                return d
            n = n * 3 // 4
    if cls == "compressed_many":
        # a small datagram that decodes to a lot: many MX/SRV/CNAME records whose names are one short label plus a
        # compression pointer into a shared ~190..250-character chain (in the first record or in the question)
        t = qt if qt in (proto.T_MX, proto.T_SRV, proto.T_CNAME) else rng.choice([proto.T_MX, proto.T_SRV])
        letter = rng.choice([b"h", b"i", b"j", b"k"])
        alpha = proto.B128 if letter == b"k" else proto.B32

        def pre(i):
            return {proto.T_CNAME: b"", proto.T_MX: struct.pack(">H", 10 * (i + 1)), proto.T_SRV: struct.pack(">HHH", 10 * (i + 1), 0, 5060)}[t]
        qn = proto.encode_name(labels)
        nlab = rng.choice([3, 3, 4])
        chain = b"".join(bytes([len(c)]) + c for c in [bytes(rng.choice(alpha) for _ in range(rng.choice([57, 60, 63]))) for _ in range(nlab)]) + b"\x02xy\x00"
        first_lab = letter + bytes(rng.choice(alpha) for _ in range(rng.choice([1, 3, 7])))
        off_chain = 12 + len(qn) + 4 + 2 + 10 + len(pre(0)) + 1 + len(first_lab)      # where the shared chain starts
        rrs = [rr(PTR, t, pre(0) + bytes([len(first_lab)]) + first_lab + chain)]
        use_q = rng.random() < 0.25            # point into the question name instead
        n = rng.choice([5, 17, 18, 20, 30, 60, 120, 200, 249, 250])
        for i in range(1, n):
            lab = letter + bytes(rng.choice(alpha) for _ in range(rng.choice([1, 3, 7, 40])))
            tgt = bytes([len(lab)]) + lab + (PTR if use_q else struct.pack(">H", 0xC000 | off_chain))
            rrs.append(rr(PTR, t, pre(i) + tgt))
            if sum(len(x) for x in rrs) > rng.choice([3900, 3900, 8000, 60000]):
                break
        return answer(q, rrs, qtype=t if t != qt and rng.random() < 0.5 else None)
    if cls == "names_fill_exactly":
        # MX/SRV names whose decoded list ("name\0name\0...") ends exactly at, one short of, or one past the end of the buffers
        # the client decodes into (4096 and 4095 bytes during the handshake)
        t = qt if qt in (proto.T_MX, proto.T_SRV) else rng.choice([proto.T_MX, proto.T_SRV])
        total = rng.choice([4096, 4096, 4095, 4095, 4094, 4097, 4098, 4093])
        per = rng.choice([254, 254, 64, 128, 200, 32])           # strlen + 1 of the regular names
        lens = [per - 1] * (total // per)
        rest = total - per * len(lens)
        if rest == 1:
            lens[-1] -= 1
            rest = 2
        if rest:
            lens.append(rest - 1)
        rrs = []
        for i, n in enumerate(lens):
            rrs.append(rr(PTR, t, (struct.pack(">H", 10 * (i + 1)) if t == proto.T_MX else struct.pack(">HHH", 10 * (i + 1), 0, 5060)) + name_of_len(rng, n)))
        if rng.random() < 0.3:
            rng.shuffle(rrs)
        return answer(q, rrs, qtype=t if t != qt else None)
    if cls == "cross_type_fill":
        # question and answer record disagree on the type, and the record data fills (or overfills) the buffer the client decodes
        # into without a single NUL byte: opaque data asked for, a host-name list (MX/SRV) or text delivered - and the reverse
        n = rng.choice([4094, 4095, 4096, 4097, 5000, 9000])
        letter = rng.choice(b"hijktsuvr")
        fill = bytes([letter]) + bytes(rng.choice(proto.B32) for _ in range(n - 1))
        if rng.random() < 0.3:
            fill = bytes([letter]) + bytes(rng.randrange(1, 256) for _ in range(n - 1))
        rt = rng.choice([proto.T_MX, proto.T_SRV, proto.T_NULL, proto.T_PRIVATE, proto.T_CNAME, proto.T_TXT])
        if rt == qt:
            rt = proto.T_MX if qt != proto.T_MX else proto.T_NULL
        qtype_field = rng.choice([None, None, proto.T_NULL, proto.T_PRIVATE, proto.T_TXT, proto.T_MX])
        if rt == proto.T_TXT or qtype_field == proto.T_TXT and rng.random() < 0.5:
            fill = b"".join(bytes([len(fill[i:i + 255])]) + fill[i:i + 255] for i in range(0, len(fill), 255))
        return answer(q, [rr(PTR, rt, fill)], qtype=qtype_field)
    if cls == "cut_after_records":
        # an MX/SRV answer that breaks off after some complete records (ANCOUNT larger than what is there, the datagram cut inside
        # a later record, or a later RDLENGTH pointing behind the end): useless as a whole; whatever was read from the records in
        # front of the break must not survive into the decoding of later answers
        t = qt if qt in (proto.T_MX, proto.T_SRV) else rng.choice([proto.T_MX, proto.T_SRV])
        n = rng.choice([3, 4, 6, 12, 40])
        rrs = []
        for i in range(n):
            nm = name_of_len(rng, rng.choice([20, 60, 150, 253]), first=rng.choice(b"hijk"))
            rrs.append(rr(PTR, t, (struct.pack(">H", 10 * (i + 1)) if t == proto.T_MX else struct.pack(">HHH", 10 * (i + 1), 0, 5060)) + nm))
        how = rng.randrange(3)
        keep = rng.randint(2, n - 1)
        if how == 0:
            return answer(q, rrs[:keep], ancount=keep + rng.choice([1, 2, 50]), qtype=t if t != qt else None)
        if how == 1:
            d = answer(q, rrs[:keep + 1], ancount=n, qtype=t if t != qt else None)
            return d[:len(d) - rng.randint(1, len(rrs[keep]) - 1)]
        bad = rrs[keep]
        bad = bad[:10] + struct.pack(">H", rng.choice([300, 4096, 65535])) + bad[12:]
        return answer(q, rrs[:keep] + [bad], qtype=t if t != qt else None)
    if cls == "raw":
        cmd = rng.choice([0x10, 0x20, 0x30, 0x00, 0x40, 0xF0])
        n = rng.choice([0, 1, 2, 12, 15, 16, 17, 100, 1200, 4096, 9000, 65000])
        d = (proto.RAW_MAGIC + bytes([cmd | (ctx.get("userid", 0) & 15)]) + rb(rng, min(n, 1500)) + b"\0" * max(0, n - 1500))[:65507]
        if rng.random() < 0.3:
            d = d[:rng.choice([0, 1, 2, 3, 3, 3, 4, 5])]         # runt frames: the magic alone, or cut inside it
        elif rng.random() < 0.2 and "frame" in ctx:
            # a genuine-looking data frame whose zlib stream is cut short by a few bytes
            z = zlib.compress(ctx["frame"]())
            d = proto.RAW_MAGIC + bytes([0x20 | (ctx.get("userid", 0) & 15)]) + z[:len(z) - rng.choice([1, 2, 3, 4, 5, 8])]
        return d
    return None


def step_payload(rng, q, step, ctx):
    """Well-formed answers whose *payload* is hostile for the handshake step being answered."""
    labels, qt, _c = q.qd[0]
    down = ctx.get("downenc", "T")
    enc = down if qt not in (proto.T_NULL, proto.T_PRIVATE) else "T"
    pl = None
    if step == "V":
        kind = rng.choice([0, 0, 0, 1, 2, 3, 4, 5])
        ch = rng.choice([0, 1, 0x7FFFFFFF, 0x80000000, 0xFFFFFFFF, 0xFFFFFFFE, rng.getrandbits(32)])
        uid = rng.choice([0, 1, 15, 16, 17, 31, 32, 127, 128, 129, 0x90, 0xC5, 0xF0, 0xFE, 255, rng.randrange(256)])
        if kind == 0:
            pl = b"VACK" + struct.pack(">I", ch) + bytes([uid])
        elif kind == 1:
            pl = rng.choice([b"VNAK", b"VFUL", b"VACK", b"VXXX"]) + struct.pack(">I", ch) + bytes([uid])
        elif kind == 2:
            pl = b"VACK" + rb(rng, rng.choice([0, 1, 3, 4]))
        elif kind == 3:
            pl = b"VACK" + struct.pack(">I", ch) + bytes([uid]) + rb(rng, rng.choice([1, 100, 4000]))
        elif kind == 4:
            pl = rb(rng, 9)
        else:
            pl = b"VNAK" + struct.pack(">I", rng.getrandbits(32)) + b"\0"
    elif step == "L":
        nums = [b"0", b"-1", b"1", b"33", b"32", b"31", b"2147483647", b"2147483648", b"4294967295", b"4294967296", b"99999999999999999999",
                b"-2147483648", b"1130", b"24", b"", b"x", b"1e9", b"0x20"]
        addr = [b"10.9.0.1", b"10.9.0.2", b"255.255.255.255", b"0.0.0.0", b"1.2.3.4" + b"5" * 70, b"a" * 64, b"a" * 65, b"1.2.3", b""]
        kind = rng.randrange(5)
        if kind == 0:
            pl = b"-".join([rng.choice(addr), rng.choice(addr), rng.choice(nums), rng.choice(nums)])
        elif kind == 1:
            pl = b"10.9.0.1-10.9.0.2-1130-" + rng.choice(nums)
        elif kind == 2:
            pl = b"10.9.0.1-10.9.0.2-" + rng.choice(nums) + b"-24"
        elif kind == 3:
            pl = rng.choice([b"LNAK", b"BADIP", b"BADLEN", b"-" * rng.choice([1, 3, 4, 100]), b"%s%n%n-%d-%d-%d"])
        else:
            pl = rb(rng, rng.choice([1, 64, 65, 130, 200, 4096]))
    elif step == "I":
        pl = rng.choice([b"I", b"I" + rb(rng, 3), b"I" + rb(rng, 4), b"I" + rb(rng, 5), b"I" + rb(rng, 16), b"I" + rb(rng, 17), b"I" + rb(rng, 4000),
                         b"BADIP", rb(rng, 5), b"I\x7f\x00\x00\x01", b"I\x00\x00\x00\x00", b"I\xff\xff\xff\xff"])
    elif step == "Z":
        text = b"".join(labels[:1])
        kind = rng.randrange(5)
        if kind == 0:
            pl = text.swapcase()
        elif kind == 1:
            pl = text[:rng.randint(0, len(text))]
        elif kind == 2:
            pl = text + rb(rng, rng.choice([1, 100, 4000]))
        elif kind == 3:
            pl = bytes((c & 0x7F) for c in text)
        else:
            pl = rb(rng, len(text))
    elif step == "Y":
        base = bytearray(mserver.DOWNCODECCHECK1)
        kind = rng.randrange(5)
        if kind == 0:
            base[rng.randrange(len(base))] ^= 1 << rng.randrange(8)
            pl = bytes(base)
        elif kind == 1:
            pl = bytes(base[:rng.randint(0, len(base))])
        elif kind == 2:
            pl = bytes(base) + rb(rng, rng.choice([1, 100, 4048, 4049]))
        elif kind == 3:
            pl = rng.choice([b"BADCODEC", b"BADLEN", b"BADIP"])
        else:
            pl = bytes(len(base))
    elif step in ("S", "O"):
        names = [b"Base32", b"Base64", b"Base64u", b"Base128", b"Raw", b"Lazy", b"Immediate", b"BADCODEC", b"BADLEN", b"BADIP"]
        kind = rng.randrange(4)
        if kind == 0:
            pl = rng.choice(names)
        elif kind == 1:
            pl = rng.choice(names) + b"A" * rng.choice([1, 100, 4090, 4096 - 6, 4096 - 7])
        elif kind == 2:
            pl = b"B" * rng.choice([4093, 4094, 4095, 4096, 4097])      # exactly the parser's buffer size, no NUL
        else:
            pl = rb(rng, rng.choice([1, 10, 4096]))
    elif step == "R":
        a, b_, c = (proto.b32_val(x) for x in b"".join(labels[:1])[1:4].ljust(3, b"a"))
        size = ((a & 1) << 10) | (b_ << 5) | c
        kind = rng.randrange(6)
        good = bytearray(max(size, 2))
        good[0], good[1] = size >> 8, size & 0xFF
        v = 107
        for i in range(2, len(good)):
            good[i] = v if i == 2 else 0
        if kind == 0:
            pl = bytes(good[:rng.randint(0, len(good))])
        elif kind == 1:
            pl = bytes(good) + rb(rng, rng.choice([1, 100, 3000]))
        elif kind == 2:
            pl = struct.pack(">H", rng.choice([0, 1, 2, size + 1, 2047, 2048, 4095, 65535])) + rb(rng, max(size - 2, 0))
        elif kind == 3:
            pl = rng.choice([b"BADFRAG", b"BADIP", b"BADLEN"])
        elif kind == 4:
            pl = rb(rng, max(size, 2))
        else:
            pl = bytes(good)
    elif step == "N":
        pl = rng.choice([rb(rng, 2), rb(rng, 1), rb(rng, 3), b"BADFRAG", b"BADIP", b"\x00\x00", b"\xff\xff", rb(rng, 4000)])
    else:
        pl = rb(rng, rng.choice([1, 2, 3, 100, 2000]))
    try:
        return mserver.build_answer(q, pl[:60000], enc)
    except ValueError:
        return answer(q, [rr(PTR, qt, pl[:60000])])
