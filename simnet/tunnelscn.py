"""Real client(s) <-> fault relay <-> real server tunnel scenarios (C01, C02, and donors of events
for C10/C14/C15).  run_tunnel(params) executes one scenario and returns the kernel + bookkeeping
so that the calling check can apply its monitors inside the worker process."""
import math
import random
import re
import zlib

from . import proto, relay, scen
from .scen import US

QTYPES = [None, "NULL", "PRIVATE", "TXT", "SRV", "MX", "CNAME", "A"]
DOWNENCS = [None, "Base32", "Base64", "Base64u", "Base128", "Raw"]
PATHS = {           # name -> (qx 8-bit mode, qx punct mode, case) : steers the upstream codec
    "clean": None,                       # -> Base128
    "no8": ("reject", "keep", "keep"),   # -> Base64
    "noplus": ("reject", "plus", "keep"),  # -> Base64u
    "fold": ("keep", "keep", "lower"),   # -> Base32
    "rand": ("keep", "keep", "random"),  # 0x20 randomisation -> Base32
}
FAULT_CLASSES = ["loss", "burst", "dup", "delay", "mixed", "idrewrite", "impatient", "heavy", "casesome", "blackout"]


def gen_config(rng, idx, faults=True, nclients_max=1, allow_raw=True):
    cfg = {}
    cfg["qtype"] = QTYPES[idx % len(QTYPES)] if idx < 2 * len(QTYPES) else rng.choice(QTYPES)
    cfg["downenc"] = rng.choice(DOWNENCS)
    cfg["path"] = rng.choice(list(PATHS))
    big_ok = cfg["qtype"] in (None, "NULL", "PRIVATE", "TXT", "SRV", "MX")
    cfg["m"] = rng.choice([None, None, 50, 100] + ([200, 500, 1200] if big_ok and cfg["qtype"] else []))
    cfg["M"] = rng.choice([100, 120, 160, 200, 255, 255, 256, 300, 70000])       # (beyond 255 is documented to mean 255)
    cfg["lazy"] = rng.choice([1, 1, 0])
    cfg["raw"] = bool(allow_raw and rng.random() < 0.12)
    cfg["nclients"] = rng.randint(1, nclients_max)
    cfg["interval"] = rng.choice([None, None, 1, 2])
    if faults:
        cfg["fault"] = rng.choice(FAULT_CLASSES)
    else:
        cfg["fault"] = None
    cfg["rseed"] = rng.getrandbits(32)
    cfg["pred"] = rng.random() < 0.25       # an earlier session used (and abandoned) the slot first
    # resolvers rotate / shuffle the records of an answer (the protocol numbers them 10, 20, 30 .. for that reason)
    cfg["opt_shuffle"] = rng.getrandbits(16) if rng.random() < 0.5 else None
    cfg["fdmode"] = rng.choice([None, None, "desc", "high"])      # descriptor numbering is the OS's business
    cfg["rr_order"] = rng.choice(["keep", "rotate", "reverse", "shuffle"]) if cfg["qtype"] in ("MX", "SRV") else "keep"
    # scheduling latency of the programs (kernel.sched_jitter): in a third of the runs a program that has input is now and then
    # resumed up to 3 / 15 ms late, so that one select() reports the tun device and the socket together, or several datagrams
    jr = random.Random(cfg["rseed"] ^ 0x71773)
    cfg["jitter"] = jr.choice([None, None, [0.3, 3000], [0.6, 15000]])
    return cfg


def fault_profile(cfg, rng, t0, duration):
    """Relay profile for a fault class; faults are active in [t0, t0+duration)."""
    fc = cfg["fault"]
    p = relay.clean_profile()
    p["base_latency"] = rng.choice([2000, 20000, 60000])
    qx = PATHS[cfg["path"]]
    if qx:
        p["qx"] = (qx[0], qx[1])
        p["case"] = qx[2]
    p["rr_order"] = cfg.get("rr_order", "keep")
    if fc is None:
        return p
    p["fault_from"] = t0
    p["until"] = t0 + duration
    if fc == "loss":
        p["q_drop"] = rng.choice([0.05, 0.2, 0.4])
        p["a_drop"] = rng.choice([0.05, 0.2, 0.4])
    elif fc == "burst":
        n = rng.randint(1, 3)
        for _ in range(n):
            s = t0 + rng.randint(0, max(duration - 1, 1))
            p["bursts"].append((s, min(s + rng.randint(1, 20) * US, t0 + duration), rng.choice(["q", "a", "both"])))
    elif fc == "dup":
        p["q_dup"] = rng.choice([0.2, 0.6])
        p["a_dup"] = rng.choice([0.2, 0.6])
    elif fc == "delay":
        p["q_delay"] = rng.choice([50000, 400000, 1500000])
        p["a_delay"] = rng.choice([50000, 400000, 1500000])
    elif fc == "mixed":
        p["q_drop"] = 0.1
        p["a_drop"] = 0.1
        p["q_dup"] = 0.2
        p["a_dup"] = 0.2
        p["q_delay"] = 300000
        p["a_delay"] = 300000
    elif fc == "idrewrite":
        p["id_rewrite"] = True
        p["id0"] = 0.02
        p["q_drop"] = 0.05
        p["a_delay"] = 100000
    elif fc == "impatient":
        p["id_rewrite"] = True
        p["impatient"] = rng.choice([300000, 800000])
        p["a_delay"] = 200000
    elif fc == "blackout":
        # nothing gets through in either direction for the whole fault phase (a resolver that is down, a route that flaps)
        p["bursts"].append((t0, t0 + duration, "both"))
    elif fc == "casesome":
        # one resolver of several changes the letter case of some query names (never during the handshake: the fault phase starts
        # later), a few datagrams are lost and repeated as well
        p["case_some"] = rng.choice([0.1, 0.3, 0.6])
        p["q_drop"] = 0.03
        p["a_dup"] = 0.1
    elif fc == "heavy":
        p["q_drop"] = 0.3
        p["a_drop"] = 0.3
        p["q_dup"] = 0.3
        p["a_dup"] = 0.3
        p["q_delay"] = 800000
        p["a_delay"] = 800000
    return p


def client_opts(cfg):
    o = []
    if cfg["qtype"]:
        o += ["-T", cfg["qtype"]]
    if cfg["downenc"]:
        o += ["-O", cfg["downenc"]]
    if cfg["m"]:
        o += ["-m", str(cfg["m"])]
    if cfg["M"] != 255:
        o += ["-M", cfg.get("M_spelling") or str(cfg["M"])]        # (numbers on a command line are decimal however they are padded)
    if not cfg["lazy"]:
        o += ["-L", "0"]
    if cfg.get("interval"):
        o += ["-I", str(cfg["interval"])]
    if not cfg["raw"]:
        o += ["-r"]
    if cfg.get("opt_shuffle") is not None:
        # the order of options on the command line is the user's business
        groups = []
        i = 0
        while i < len(o):
            n = 1 if o[i] == "-r" else 2
            groups.append(o[i:i + n])
            i += n
        random.Random(cfg["opt_shuffle"]).shuffle(groups)
        o = [x for g in groups for x in g]
    return o


class Tunnel:
    """Result holder of run_tunnel."""
    pass


def client_tun_ip(k, name):
    for ev in k.log:
        if ev[1] == "system" and ev[2] == name:
            m = re.match(rb"PATH=\S+ ifconfig \S+ (\d+\.\d+\.\d+\.\d+) ", ev[3]["cmd"])
            if m:
                return m.group(1).decode()
    return None


def predecessor(sim, rng, server_ip=None):
    """An earlier session on the same server that negotiates non-default settings, leaves packets queued for itself
    and then vanishes; more than 60 s later its slot is free again.  Whatever a later session observes must not
    depend on it (state that survives slot reuse is a classic source of wedges and leaks)."""
    from . import mclient
    k = sim.k
    mc = mclient.ModelClient("10.53.4.1", (server_ip or scen.SERVER_IP, 53), sim.domain, sim.password, random.Random(rng.getrandbits(32)),
                             qtype=rng.choice([proto.T_TXT, proto.T_TXT, proto.T_CNAME, proto.T_MX, proto.T_NULL]))
    k.add_actor(mc.ip, mc)
    if not mc.connect():
        return None
    mc.switch_codec(rng.choice(list(proto.CODECS.values())))
    if mc.qtype == proto.T_TXT:
        mc.option(rng.choice([b"s", b"u", b"v", b"r"]))
    elif mc.qtype in (proto.T_CNAME, proto.T_MX):
        mc.option(rng.choice([b"s", b"u", b"v"]))
    if rng.random() < 0.6:
        mc.option(b"l")
    # never above what one answer of this record type can carry (a real client finds that limit by probing)
    mc.set_frag(rng.choice([20, 50, 200] if mc.qtype in (proto.T_TXT, proto.T_NULL) else [20, 50, 100]))
    srv_tun = sim.tun_net.split("/")[0]
    # a few packets arrive for it; it fetches the beginning of the first one and is never heard of again
    for i in range(rng.randint(2, 4)):
        k.offer_tun("srv", proto.make_frame(srv_tun, mc.tun_ip, (0xDEAD << 20) | i, rng.choice([200, 600]), "random", rng), None)
        k.run(k.now + 2000)
    if rng.random() < 0.7:
        mc.ping(20000)
    if rng.random() < 0.5:
        mc.up_seq = (mc.up_seq + 1) & 7
        mc.query(mc.data_labels(mc.up_seq, 0, 0, b"half a packet that is never completed"))
    k.run(k.now + rng.choice([61, 62, 65, 90, 200]) * US)
    return mc


def run_tunnel(tag, cfg, seed, plan):
    """plan(t, sim, rng) is called once the clients are in tunnel mode; it schedules offers/faults and
    returns the virtual end time. Returns a Tunnel (caller must call t.sim.close())."""
    rng = random.Random(cfg["rseed"] ^ (seed * 2654435761 & 0xFFFFFFFF))
    sim = scen.Sim(tag, seed)
    t = Tunnel()
    t.sim = sim
    t.cfg = cfg
    t.ok = False
    t.why = None
    k = sim.k
    sim.fdmode = cfg.get("fdmode")
    if cfg.get("jitter"):
        k.sched_jitter = tuple(cfg["jitter"])
    if cfg.get("snaps"):
        k.keep_snaps = True          # users[] rows and the client's transfer state are kept in every select() event
    if cfg.get("domain"):
        sim.domain = cfg["domain"]
    extra = []
    if cfg.get("lb"):
        extra.append("-c")
    if cfg.get("srv_m"):
        extra += ["-m", str(cfg["srv_m"])]
    t.srv = sim.server(extra=extra, tun=cfg.get("tun"))
    if not t.srv.alive():
        t.why = "server-died-at-start:" + sim.health(t.srv)
        return t
    t.pred = None
    if cfg.get("pred"):
        t.pred = predecessor(sim, random.Random(cfg["rseed"] ^ 0x5EED))
    prof0 = fault_profile(dict(cfg, fault=None), rng, 0, 0)
    if cfg.get("probe_blackhole"):
        prof0["drop_probe_answers"] = True
    if cfg.get("slow_start"):
        # a slow but otherwise perfect path while the client starts up: every step of the handshake succeeds, late
        prof0["base_latency"] = cfg["slow_start"]
    t.relay = sim.fault_relay(prof0, seed=rng.getrandbits(32))
    t.clients = []
    for i in range(cfg["nclients"]):
        c = sim.client("cli%d" % i, "10.53.1.%d" % (i + 1), scen.RELAY_IP, client_opts(cfg))
        t.clients.append(c)
    ok = sim.run_until(lambda: all(sim.client_in_tunnel(c) or not c.alive() for c in t.clients), (500 if cfg.get("slow_start") else 200) * US)
    t.handshake_s = (k.now - 0) / 1e6
    if not ok or not all(sim.client_in_tunnel(c) for c in t.clients):
        t.why = "handshake-failed:" + ",".join(sim.health(c) for c in t.clients)
        return t
    t.t0 = k.now
    t.tun_ips = [client_tun_ip(k, c.name) for c in t.clients]
    t.server_tun_ip = sim.tun_net.split("/")[0]
    if None in t.tun_ips:
        t.why = "no-ifconfig"
        return t
    # negotiated settings as seen in the server's table
    t.neg = []
    for u in t.srv.snapshot:
        if u["active"] and u["authenticated"]:
            t.neg.append({"enc": u["encbits"], "down": chr(u["downenc"]), "frag": u["fragsize"], "lazy": u["lazy"],
                          "conn": u["conn"]})
    t.rng = rng
    end = plan(t, sim, rng)
    k.run(end)
    t.ok = True
    return t


def negotiated_sig(t):
    n = t.neg[0] if t.neg else {}
    f = n.get("frag", 0)
    fb = "<=60" if f <= 60 else "<=130" if f <= 130 else "<=600" if f <= 600 else ">600"
    return (t.cfg["qtype"] or "auto", n.get("enc"), n.get("down"), fb, t.cfg["M"], n.get("lazy"),
            "raw" if n.get("conn") == 0 else "dns")


FRAME_SIZES = [5, 24, 32, 33, 40, 60, 61, 100, 200, 576, 1000, 1134]


def pick_frame(t, rng, side, ident, ci=0, sizes=None, to_client=None):
    """side 'srv' -> frame for client ci (offered on the server tun); 'cli' -> frame offered on client ci's
    tun towards the server (or towards another client when to_client is given)."""
    size = rng.choice(sizes or FRAME_SIZES)
    if rng.random() < 0.3:
        size = rng.randint(32, 1134)
    style = rng.choice(["random", "random", "text", "zeros"])
    if size > 3000:
        style = rng.choice(["text", "zeros", "zeros", "random"])
    if side == "srv":
        src, dst = t.server_tun_ip, t.tun_ips[ci]
    else:
        src = t.tun_ips[ci]
        dst = t.tun_ips[to_client] if to_client is not None else t.server_tun_ip
    return proto.make_frame(src, dst, ident, size, style, rng)


def est_down_frags(frame, fragsize):
    return int(math.ceil(len(zlib.compress(frame, 9)) / float(max(fragsize, 1))))


def up_capacity(k, cname, domain, encbits):
    """Largest number of payload bytes the client put into one upstream data query (fragments all have
    this size except the last one of a packet)."""
    nd = len(proto.labels_from_dotted(domain.encode()))
    bits = 6 if encbits == 26 else (encbits or 5)
    best = 0
    for ev in k.log:
        if ev[1] != "send" or ev[2] != cname:
            continue
        d = ev[3]["data"]
        if d[:3] == proto.RAW_MAGIC or len(d) < 14:
            continue
        try:
            labels, _ = proto.read_name(d, 12)
        except proto.ParseError:
            continue
        if len(labels) <= nd or not labels[0][:1] in (b"0", b"1", b"2", b"3", b"4", b"5", b"6", b"7", b"8", b"9",
                                                      b"a", b"b", b"c", b"d", b"e", b"f"):
            continue
        text = b"".join(labels[:len(labels) - nd])
        if len(text) < 6:
            continue
        best = max(best, ((len(text) - 5) * bits) // 8)
    return best


def est_up_frags(frame, cap):
    if cap <= 0:
        return 99
    return int(math.ceil(len(zlib.compress(frame, 9)) / float(cap)))
