"""Network actors between the iodine client and server: a byte-preserving fault relay (loss,
duplication, delay/reordering, id rewriting, 0x20 case randomisation, impatient re-sends,
load-balanced sources) and a transforming relay (the product family of property C11).
"""
import struct

from .kernel import Actor
from . import proto


def _swapcase_labels(labels, rng, mode):
    out = []
    for l in labels:
        b = bytearray(l)
        for i, c in enumerate(b):
            if 65 <= c <= 90 or 97 <= c <= 122:
                if mode == "lower":
                    b[i] = c | 0x20
                elif mode == "upper":
                    b[i] = c & ~0x20 & 0xFF
                elif mode == "random":
                    b[i] = (c | 0x20) if rng.random() < 0.5 else (c & 0xDF)
        out.append(bytes(b))
    return out


def reorder_answers(data, mode, rng):
    """What resolvers do with an RRset (BIND rrset-order cyclic/random, unbound rrset-roundrobin): the answer records come
    back rotated or shuffled, each one unchanged.  Only done when every record's owner is a 2-byte pointer (position
    independent); otherwise the datagram is passed through."""
    try:
        m = proto.parse_msg(data)
    except proto.ParseError:
        return data
    if not m.qr or len(m.an) < 2 or len(m.qd) != 1:
        return data
    try:
        _l, qend = proto.read_name(data, 12)
    except proto.ParseError:
        return data
    start = qend + 4
    blocks = []
    pos = start
    for (_labels, _t, _c, _ttl, off, rdl) in m.an:
        if data[pos] & 0xC0 != 0xC0 or off - pos != 12:
            return data
        blocks.append(data[pos:off + rdl])
        pos = off + rdl
    if mode == "rotate":
        k = rng.randrange(1, len(blocks))
        blocks = blocks[k:] + blocks[:k]
    elif mode == "reverse":
        blocks.reverse()
    else:
        rng.shuffle(blocks)
    return data[:start] + b"".join(blocks) + data[pos:]


def clean_profile():
    return {"q_drop": 0.0, "a_drop": 0.0, "q_dup": 0.0, "a_dup": 0.0, "q_delay": 0, "a_delay": 0,
            "until": 0, "bursts": [], "id_rewrite": False, "case": "keep", "impatient": 0, "id0": 0.0,
            "lb_sources": 1, "base_latency": 20000, "fault_from": 0, "qx": None, "rr_order": "keep"}


class FaultRelay(Actor):
    """Forwards queries client->server and answers server->client unchanged (except DNS id / query
    name case when configured).  Every fault decision is drawn from its own seeded PRNG and logged."""

    def __init__(self, ip, server, rng, profile, extra_ips=()):
        Actor.__init__(self, ip)
        self.server = server
        self.rng = rng
        self.p = dict(clean_profile())
        self.p.update(profile or {})
        self.cmap = {}      # client addr -> relay port
        self.rmap = {}      # relay port -> client addr
        self.next_port = 20000
        self.idmap = {}     # (rport, upstream id) -> (client id, question bytes of the client)
        self.next_id = 1
        self.extra_ips = list(extra_ips)
        self.stats = {"q": 0, "a": 0, "q_drop": 0, "a_drop": 0, "q_dup": 0, "a_dup": 0, "q_delayed": 0,
                      "a_delayed": 0, "reordered": 0, "impatient": 0, "id0": 0}
        self.pending = {}   # impatient: (rport, name) -> state
        self.lb_i = 0
        self.last_sched = {"q": 0, "a": 0}

    def faulty(self):
        return self.p["fault_from"] <= self.kernel.now < self.p["until"]

    def _in_burst(self, direction):
        now = self.kernel.now
        for (t0, t1, d) in self.p["bursts"]:
            if t0 <= now < t1 and d in (direction, "both"):
                return True
        return False

    def _plan(self, direction):
        """Returns list of delivery delays (empty = dropped)."""
        base = self.p["base_latency"]
        if not self.faulty():
            return [base]
        if self._in_burst(direction):
            self.stats[direction + "_drop"] += 1
            return []
        r = self.rng
        if r.random() < self.p[direction + "_drop"]:
            self.stats[direction + "_drop"] += 1
            return []
        n = 1
        if r.random() < self.p[direction + "_dup"]:
            n += 1 + (r.random() < 0.3) + (r.random() < 0.1)
            self.stats[direction + "_dup"] += 1
        out = []
        for _ in range(n):
            d = base
            mean = self.p[direction + "_delay"]
            if mean and r.random() < 0.5:
                d += min(int(r.expovariate(1.0 / mean)), 8 * mean, 5000000)
                self.stats[direction + "_delayed"] += 1
            out.append(d)
        t = self.kernel.now + out[0]
        if t < self.last_sched[direction]:
            self.stats["reordered"] += 1
        self.last_sched[direction] = max(self.last_sched[direction], t)
        return out

    def on_datagram(self, src, dst, data):
        if src == self.server or (src[0] == self.server[0] and src[1] == self.server[1]):
            self._answer(dst, data)
        elif dst[1] == 53:
            self._query(src, dst, data)

    def _relay_src_ip(self):
        n = self.p["lb_sources"]
        if n > 1 and self.extra_ips:
            self.lb_i += 1
            ips = [self.ip] + self.extra_ips
            return ips[self.lb_i % min(n, len(ips))]
        return self.ip

    def _query(self, client, dst, data):
        self.stats["q"] += 1
        rport = self.cmap.get(client)
        if rport is None:
            rport = self.next_port
            self.next_port += 1
            self.cmap[client] = rport
            self.rmap[rport] = client
        out = data
        raw = data[:3] == proto.RAW_MAGIC
        if not raw and len(data) >= 12:
            cid = struct.unpack_from(">H", data, 0)[0]
            uid = cid
            if self.p["id_rewrite"]:
                uid = self.next_id
                self.next_id = (self.next_id + 7) & 0xFFFF or 1
            if self.p["id0"] and self.faulty() and self.rng.random() < self.p["id0"]:
                uid = 0
                self.stats["id0"] += 1
            qx = self.p["qx"]
            if self.p["case"] != "keep" or qx:
                try:
                    labels, off = proto.read_name(data, 12)
                    if qx:
                        # fixed path property (steers the client's upstream codec choice)
                        nl = []
                        for l in labels:
                            x = xform_bytes(l, ("keep", qx[0], qx[1]), self.rng)
                            if x is None:
                                self.stats["q_drop"] += 1
                                return
                            nl.append(x)
                        labels = nl
                    nl = _swapcase_labels(labels, self.rng, self.p["case"])
                    out = data[:12] + proto.encode_name(nl) + data[off:]
                except (proto.ParseError, ValueError):
                    out = data
            elif self.p.get("case_some") and self.faulty() and self.rng.random() < self.p["case_some"]:
                # one of several parallel resolvers randomises the letter case of the names it asks for (0x20 hardening) while the
                # others - the ones the client's codec tests went through - do not; the answer's question is put right again
                try:
                    labels, off = proto.read_name(data, 12)
                    out = data[:12] + proto.encode_name(_swapcase_labels(labels, self.rng, "random")) + data[off:]
                    self.stats["q_case_mangled"] = self.stats.get("q_case_mangled", 0) + 1
                except (proto.ParseError, ValueError):
                    out = data
            out = struct.pack(">H", uid) + out[2:]
            self.idmap[(rport, uid)] = (cid, data)
            if len(self.idmap) > 4000:
                for k in list(self.idmap)[:1000]:
                    del self.idmap[k]
        for d in self._plan("q"):
            self._fwd_up(rport, out, d)
        if self.p["impatient"] and not raw and self.faulty():
            self.kernel.after(self.p["impatient"], self._impatient, rport, out, client, 0)

    def _fwd_up(self, rport, out, delay):
        sip = self._relay_src_ip()
        src = (sip, rport)
        self.kernel.emit("relay_up", "relay", src=src, data=out, delay=delay)
        self.kernel.transmit(src, self.server, out, delay)

    def _impatient(self, rport, out, client, n):
        """Re-issue an unanswered query with a fresh id (what impatient resolvers do)."""
        if len(out) < 12:
            return
        uid = struct.unpack_from(">H", out, 0)[0]
        if (rport, uid) not in self.idmap or n >= 2:
            return
        cid, orig = self.idmap[(rport, uid)]
        nid = self.next_id
        self.next_id = (self.next_id + 7) & 0xFFFF or 1
        self.idmap[(rport, nid)] = (cid, orig)
        out2 = struct.pack(">H", nid) + out[2:]
        self.stats["impatient"] += 1
        self._fwd_up(rport, out2, self.p["base_latency"])
        self.kernel.after(self.p["impatient"], self._impatient, rport, out2, client, n + 1)

    def _answer(self, dst, data):
        self.stats["a"] += 1
        client = self.rmap.get(dst[1])
        if client is None:
            return
        out = data
        if data[:3] != proto.RAW_MAGIC and len(data) >= 12:
            uid = struct.unpack_from(">H", data, 0)[0]
            ent = self.idmap.get((dst[1], uid))
            if ent is None:
                return          # answer to nothing we asked (or already answered): resolvers drop it
            cid, orig = ent
            if self.p.get("drop_probe_answers"):
                # a path on which no answer to a fragment-size probe ever arrives (whatever the size)
                try:
                    pl_, _o = proto.read_name(orig, 12)
                    if pl_ and pl_[0][:1] in (b"r", b"R"):
                        self.stats["probe_answers_dropped"] = self.stats.get("probe_answers_dropped", 0) + 1
                        return
                except proto.ParseError:
                    pass
            if self.p["impatient"]:
                # forward only the first answer for this client query
                for k in [k for k, v in self.idmap.items() if v[1] is orig]:
                    del self.idmap[k]
            out = struct.pack(">H", cid) + data[2:]
            if self.p["case"] != "keep" or self.p["qx"] or self.p.get("case_some"):
                # restore the client's spelling of the question (as resolvers do)
                try:
                    _l, qoff = proto.read_name(data, 12)
                    _l2, ooff = proto.read_name(orig, 12)
                    if qoff == ooff:
                        out = out[:12] + orig[12:ooff] + out[qoff:]
                except proto.ParseError:
                    pass
        if self.p.get("rr_order", "keep") != "keep" and out[:3] != proto.RAW_MAGIC:
            o2 = reorder_answers(out, self.p["rr_order"], self.rng)
            if o2 is not out:
                self.stats["rr_reordered"] = self.stats.get("rr_reordered", 0) + 1
                out = o2
        for d in self._plan("a"):
            self.kernel.emit("relay_down", "relay", dst=client, data=out, delay=d)
            self.kernel.transmit((self.ip, 53), client, out, d)


# ---------------------------------------------------------------------------

def xform_bytes(b, cfg, rng):
    """Apply the (case, eightbit, punct) transformation to a byte string. Returns None = reject."""
    case, eight, punct = cfg
    if eight == "reject" and any(c >= 0x80 for c in b):
        return None
    out = bytearray(b)
    for i, c in enumerate(out):
        if eight == "strip":
            c &= 0x7F
        if punct == "plus" and c == 0x2B:
            c = 0x20
        elif punct == "under" and c == 0x5F:
            c = 0x20
        if 65 <= c <= 90 or 97 <= c <= 122:
            if case == "lower":
                c |= 0x20
            elif case == "upper":
                c &= 0xDF
            elif case == "random":
                c = (c | 0x20) if rng.random() < 0.5 else (c & 0xDF)
        out[i] = c
    return bytes(out)


class XformRelay(Actor):
    """A resolver-like relay that parses and re-encodes messages, applying a fixed transformation
    (C11 family): names in queries on the way up; names / TXT text / NULL data on the way down;
    refuses some record types; drops answers above a size limit; may ignore EDNS0."""

    def __init__(self, ip, server, rng, qcfg, acfg, allowed_types, size_limit, edns0, refuse_mode="servfail",
                 latency=20000):
        Actor.__init__(self, ip)
        self.server = server
        self.rng = rng
        self.qcfg = qcfg
        self.acfg = acfg
        self.allowed = set(allowed_types)
        self.size_limit = size_limit
        self.edns0 = edns0
        self.refuse_mode = refuse_mode
        self.latency = latency
        self.cmap = {}
        self.rmap = {}
        self.next_port = 21000
        self.pending = {}
        self.next_id = 100
        self.stats = {"q": 0, "a": 0, "refused_type": 0, "q_rejected": 0, "a_rejected": 0, "oversize": 0,
                      "servfail": 0, "unparsable": 0}

    def on_datagram(self, src, dst, data):
        if src == self.server:
            self._answer(dst, data)
        elif dst[1] == 53:
            self._query(src, data)

    def _servfail(self, client, q):
        self.stats["servfail"] += 1
        hdr = struct.pack(">HHHHHH", q.id, 0x8182, 1, 0, 0, 0)
        labels, t, c = q.qd[0]
        self.send(53, client, hdr + proto.encode_name(labels) + struct.pack(">HH", t, c), self.latency)

    def _query(self, client, data):
        self.stats["q"] += 1
        if data[:3] == proto.RAW_MAGIC:
            return      # a resolver does not forward non-DNS traffic
        try:
            q = proto.parse_msg(data)
        except proto.ParseError:
            self.stats["unparsable"] += 1
            return
        if q.qr or not q.qd:
            return
        labels, t, c = q.qd[0]
        if t not in self.allowed:
            self.stats["refused_type"] += 1
            if self.refuse_mode == "servfail":
                self._servfail(client, q)
            elif self.refuse_mode == "nodata":
                # "no such data": NOERROR, the question echoed, no records (what a resolver says about a type it filters out)
                hdr = struct.pack(">HHHHHH", q.id, 0x8180, 1, 0, 0, 0)
                self.send(53, client, hdr + proto.encode_name(labels) + struct.pack(">HH", t, c), self.latency)
            return
        nl = []
        for l in labels:
            x = xform_bytes(l, self.qcfg, self.rng)
            if x is None:
                self.stats["q_rejected"] += 1
                if self.refuse_mode == "servfail":
                    self._servfail(client, q)
                return
            nl.append(x)
        client_edns = any(rr[1] == proto.T_OPT for rr in q.ar)
        if client_edns and self.edns0 == "formerr":
            # a pre-EDNS0 resolver (RFC 6891 section 7): any query carrying an OPT record is answered FORMERR
            self.stats["formerr"] = self.stats.get("formerr", 0) + 1
            hdr = struct.pack(">HHHHHH", q.id, 0x8181, 1, 0, 0, 0)
            self.send(53, client, hdr + proto.encode_name(labels) + struct.pack(">HH", t, c), self.latency)
            return
        rport = self.cmap.get(client)
        if rport is None:
            rport = self.next_port
            self.next_port += 1
            self.cmap[client] = rport
            self.rmap[rport] = client
        uid = self.next_id
        self.next_id = (self.next_id + 13) & 0xFFFF or 1
        self.pending[(rport, uid)] = (client, q, client_edns)
        if len(self.pending) > 2000:
            for k in list(self.pending)[:500]:
                del self.pending[k]
        try:
            out = proto.build_query(uid, nl, t, edns0=True)
        except ValueError:
            return
        self.send(rport, self.server, out, self.latency)

    def _answer(self, dst, data):
        self.stats["a"] += 1
        try:
            a = proto.parse_msg(data)
        except proto.ParseError:
            self.stats["unparsable"] += 1
            return
        ent = self.pending.pop((dst[1], a.id), None)
        if ent is None:
            return
        client, q, client_edns = ent
        labels, t, c = q.qd[0]
        rrs = []
        raw = a.raw
        for (_o, rt, _rc, _ttl, off, rdl) in a.an:
            rd = raw[off:off + rdl]
            try:
                if rt in (proto.T_CNAME, proto.T_NS):
                    tl, _ = proto.read_name(raw, off)
                    x = [xform_bytes(l, self.acfg, self.rng) for l in tl]
                    if any(v is None for v in x):
                        raise _Reject()
                    nrd = proto.encode_name(x)
                elif rt == proto.T_MX:
                    tl, _ = proto.read_name(raw, off + 2)
                    x = [xform_bytes(l, self.acfg, self.rng) for l in tl]
                    if any(v is None for v in x):
                        raise _Reject()
                    nrd = rd[:2] + proto.encode_name(x)
                elif rt == proto.T_SRV:
                    tl, _ = proto.read_name(raw, off + 6)
                    x = [xform_bytes(l, self.acfg, self.rng) for l in tl]
                    if any(v is None for v in x):
                        raise _Reject()
                    nrd = rd[:6] + proto.encode_name(x)
                elif rt == proto.T_TXT:
                    nrd = b""
                    i = 0
                    while i < len(rd):
                        l = rd[i]
                        s = rd[i + 1:i + 1 + l]
                        x = xform_bytes(s, self.acfg, self.rng)
                        if x is None:
                            raise _Reject()
                        nrd += bytes([len(x)]) + x
                        i += 1 + l
                else:
                    # A records and opaque RDATA (NULL, PRIVATE, unknown types) are binary: a resolver relays
                    # them untouched; the family of C11 transforms names and text only
                    nrd = rd
            except _Reject:
                self.stats["a_rejected"] += 1
                if self.refuse_mode == "servfail":
                    self._servfail(client, q)
                return
            except (proto.ParseError, ValueError):
                self.stats["unparsable"] += 1
                self._servfail(client, q)
                return
            rrs.append((rt, nrd))
        if getattr(self, "rr_order", "keep") != "keep" and len(rrs) > 1:
            if self.rr_order == "reverse":
                rrs.reverse()
            else:
                k = self.rng.randrange(1, len(rrs))
                rrs = rrs[k:] + rrs[:k]
            self.stats["rr_reordered"] = self.stats.get("rr_reordered", 0) + 1
        rcode = a.rcode
        if getattr(self, "chase_cname", False) and t == proto.T_A and any(rt == proto.T_CNAME for rt, _d in rrs):
            # a recursive resolver chases the CNAME it got for an A question, finds nothing behind the made-up target and
            # hands the CNAME record back together with NXDOMAIN
            rcode = 3
            self.stats["cname_chased"] = self.stats.get("cname_chased", 0) + 1
        out = proto.build_answer_raw(q.id, labels, t, rrs, rcode=rcode, aa=False, qclass=c)
        limit = self.size_limit
        if not (self.edns0 is True and client_edns):
            limit = 512 if limit is None else min(limit, 512)
        if limit is not None and len(out) > limit:
            self.stats["oversize"] += 1
            return      # larger answers are dropped (C11 family definition)
        self.send(53, client, out, self.latency)


class _Reject(Exception):
    pass
