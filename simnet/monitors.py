"""Offline monitors over the kernel event log (boundary histories): C10, C14, C15.
Each returns (violations, stats) with violations = [(key, what, witness-dict)]."""
import struct
import zlib

from . import dnsstrict, proto

HEX = b"0123456789abcdefABCDEF"


def _is_raw(d):
    return d[:3] == proto.RAW_MAGIC


def _labels_ok_for_echo(labels):
    return all(b"." not in l and b"\0" not in l for l in labels)


def fwd_causes(k, bind_port):
    """Datagrams the server received from the local resolver, by datagram id (their relayed copies are not messages composed by
    iodined)."""
    s = {}
    if bind_port:
        for ev in k.log:
            if ev[1] == "recv" and ev[2] == "srv" and ev[3]["src"] == ("127.0.0.1", bind_port):
                s[ev[3]["id"]] = ev[3]["data"]
    return s


def relayed(kw, skip):
    """A datagram iodined sent while the last thing it had received was a reply of the local DNS server, and that carries that
    reply's bytes: the reply handed on.  (Anything else sent in the same turn of the main loop - an answer that was due on the
    20 ms timer, say - is iodined's own.)"""
    c = kw.get("cause")
    return c in skip and skip[c] == kw["data"]


def mon_c10(k, domain, server_ips, bind_port=None, ns_ip=None, wildcard=False, procs=None):
    """Every DNS-mode datagram emitted by the real programs is well-formed; answers echo their question;
    NS / A auxiliary answers."""
    viol = []
    stats = {"c10_messages": 0, "c10_answers": 0, "c10_queries": 0, "c10_echo_checked": 0, "c10_aux_ns": 0,
             "c10_aux_a": 0, "c10_compressed": 0}
    shapes = set()
    dl = [l.lower() for l in proto.labels_from_dotted(domain.encode())]
    if wildcard:
        dl = dl[1:]
    seen = {}       # src addr -> set of (id, labels, type, class) of strictly valid queries received
    unanswered = {} # (src addr, key) -> copies received and not yet answered
    skip = fwd_causes(k, bind_port)
    for ev in k.log:
        kind, who, kw = ev[1], ev[2], ev[3]
        if kind == "recv" and who == "srv":
            d = kw["data"]
            if _is_raw(d):
                continue
            info, problems = dnsstrict.check(d)
            if not problems and info["question"] and info["qr"] == 0 and _labels_ok_for_echo(info["question"][0]):
                q = info["question"]
                key_ = (info["id"], tuple(q[0]), q[1], q[2])
                seen.setdefault(kw["src"], {})[key_] = kw["dst"]
                unanswered[(kw["src"], key_)] = unanswered.get((kw["src"], key_), 0) + 1
            continue
        if kind != "send" or (procs is not None and who not in procs):
            continue
        d = kw["data"]
        if _is_raw(d):
            continue
        if who == "srv" and relayed(kw, skip):
            continue
        is_srv = who == "srv"
        to_resolver = is_srv and ((bind_port and kw["dst"] == ("127.0.0.1", bind_port)) or kw["dst"] == ("208.67.222.222", 53))
        expect_qr = 0 if (not is_srv or to_resolver) else 1
        stats["c10_messages"] += 1
        info, problems = dnsstrict.check(d, expect_qr=expect_qr)
        if problems:
            viol.append(("C10:malformed:%s:%s" % ("server" if is_srv else "client", _pclass(problems[0])),
                         "%s emitted a malformed DNS message: %s" % (who, problems[0]),
                         {"time_us": ev[0], "datagram": d.hex()[:1200], "problems": problems}))
            continue
        if b"\xc0" in d[12:]:
            stats["c10_compressed"] += 1
        if not is_srv or to_resolver:
            stats["c10_queries"] += 1
            q = info["question"]
            if q:
                shapes.add(("q", who != "srv", q[1], len(b".".join(q[0])) // 32, bool(info["additional"])))
            continue
        stats["c10_answers"] += 1
        q = info["question"]
        if not q or info["counts"][0] != 1:
            viol.append(("C10:answer-without-question", "server answer has QDCOUNT %d" % info["counts"][0],
                         {"time_us": ev[0], "datagram": d.hex()[:600]}))
            continue
        key = (info["id"], tuple(q[0]), q[1], q[2])
        got = seen.get(kw["dst"], {})
        if key in got:
            stats["c10_echo_checked"] += 1
            # "the query it answers": every answer uses up one received copy of that query; an answer that matches
            # only queries which have all been answered already (e.g. a cache replay sent with the id and address
            # of the original instead of the repeat it responds to) answers nothing
            left = unanswered.get((kw["dst"], key), 0)
            if left <= 0:
                viol.append(("C10:echo-mismatch:query-already-answered",
                             "answer (id %d, %r type %d) to %s repeats the id/name/type of a query that had already been answered; the query it responds to has another id or address"
                             % (info["id"], b".".join(q[0])[:60], q[1], kw["dst"]), {"time_us": ev[0], "datagram": d.hex()[:600]}))
                continue
            unanswered[(kw["dst"], key)] = left - 1
        else:
            # was there any strictly valid query from that address at all? if the query itself was
            # malformed / had dots in labels it is outside the property's quantifier
            near = [x for x in got if x[0] == info["id"]]
            if near or not _any_unjudged(k, kw["dst"], info["id"]):
                viol.append(("C10:echo-mismatch", "answer (id %d, %r type %d) echoes no query received from %s"
                             % (info["id"], b".".join(q[0])[:60], q[1], kw["dst"]),
                             {"time_us": ev[0], "datagram": d.hex()[:800], "queries_with_that_id": repr(near)[:400]}))
                continue
        shapes.add(("a", q[1], len(info["answers"]), max([len(r.get("strings", [])) for r in info["answers"]] + [0]),
                    len(b".".join(q[0])) // 64))
        # auxiliary answers
        ql = [l.lower() for l in q[0]]
        under = len(ql) >= len(dl) and ql[len(ql) - len(dl):] == dl and (not wildcard or len(ql) > len(dl))
        if not under:
            continue
        matched = q[0][len(q[0]) - len(dl) - (1 if wildcard else 0):]
        dst_ip = got.get(key)
        if q[1] == proto.T_NS:
            stats["c10_aux_ns"] += 1
            ans = info["answers"]
            if len(ans) != 1 or ans[0]["type"] != proto.T_NS or [l.lower() for l in ans[0].get("target", [])] != [b"ns"] + [l.lower() for l in matched]:
                viol.append(("C10:aux-ns", "NS query under the tunnel domain not answered with ns.<domain>",
                             {"time_us": ev[0], "datagram": d.hex()[:800]}))
                continue
            want_ip = ns_ip or (dst_ip[0] if dst_ip and ":" not in dst_ip[0] else None)
            if want_ip:
                add = [r for r in info["additional"] if r["type"] == proto.T_A]
                import socket
                if len(add) != 1 or add[0]["rdata"] != socket.inet_aton(want_ip) or \
                        [l.lower() for l in add[0]["owner"]] != [b"ns"] + [l.lower() for l in matched]:
                    viol.append(("C10:aux-ns-glue", "NS answer lacks the A additional for ns.<domain> = %s" % want_ip,
                                 {"time_us": ev[0], "datagram": d.hex()[:800]}))
        elif q[1] == proto.T_A and len(ql) == len(dl) + (1 if wildcard else 0) + 1 and ql[0] in (b"ns", b"www"):
            stats["c10_aux_a"] += 1
            import socket
            ans = info["answers"]
            if ql[0] == b"www":
                want = socket.inet_aton("127.0.0.1")
            else:
                wip = ns_ip or (dst_ip[0] if dst_ip and ":" not in dst_ip[0] else None)
                want = socket.inet_aton(wip) if wip else None
            if want is not None and (len(ans) != 1 or ans[0]["type"] != proto.T_A or ans[0]["rdata"] != want):
                viol.append(("C10:aux-a", "A query for %s.<domain> not answered with the expected address record" % ql[0].decode(),
                             {"time_us": ev[0], "datagram": d.hex()[:800]}))
    # auxiliary queries are answered at all: A for www.<domain> always (127.0.0.1), A for ns.<domain> and NS whenever the server
    # knows an IPv4 address to give (-n, or the query arrived over IPv4).  Judged only for queries the server had a second to
    # answer, while it was alive, and only when no send of the server failed (injected).
    srv_p = k.procs.get("srv")
    srv_failed_send = any(e[1] == "send_error" and e[2] == "srv" for e in k.log)
    if srv_p is not None and srv_p.alive() and not srv_failed_send and (procs is None or "srv" in procs):
        t_recv = {}
        for ev in k.log:
            if ev[1] == "recv" and ev[2] == "srv":
                t_recv[(ev[3]["src"], bytes(ev[3]["data"])[:2])] = ev[0]          # (the latest copy)
        for (src, key), left in unanswered.items():
            if key[3] != 1:
                continue
            ql = [l.lower() for l in key[1]]
            under = len(ql) >= len(dl) and ql[len(ql) - len(dl):] == dl and (not wildcard or len(ql) > len(dl))
            if not under:
                continue
            v4 = ":" not in seen[src][key][0]
            due = None
            if key[2] == proto.T_A and len(ql) == len(dl) + (1 if wildcard else 0) + 1 and ql[0] == b"www":
                due = "A www.<domain>"
            elif key[2] == proto.T_A and len(ql) == len(dl) + (1 if wildcard else 0) + 1 and ql[0] == b"ns" and (ns_ip or v4):
                due = "A ns.<domain>"
            elif key[2] == proto.T_NS and (ns_ip or v4):
                due = "NS"
            if due is None:
                continue
            t0 = t_recv.get((src, struct.pack(">H", key[0])))
            if t0 is None or t0 > k.now - 1000000:
                continue
            stats["c10_aux_due_checked"] = stats.get("c10_aux_due_checked", 0) + 1
            if left <= 0:
                continue
            viol.append(("C10:aux-unanswered:%s:%s" % (due.split()[0] + "-" + due.split()[-1].split(".")[0] if " " in due else due, "v4" if v4 else "v6"),
                         "%s query %r (id %d) from %s received over %s was never answered" % (due, b".".join(key[1])[:60], key[0], src, "IPv4" if v4 else "IPv6"),
                         {"time_us": t0}))
    stats["c10_shapes"] = len(shapes)
    return viol, stats, shapes


def _any_unjudged(k, addr, qid):
    """True if a query with this id from addr was received that the echo rule does not judge
    (malformed, or labels containing '.'/NUL)."""
    for ev in k.log:
        if ev[1] == "recv" and ev[2] == "srv" and ev[3]["src"] == addr:
            d = ev[3]["data"]
            if len(d) >= 2 and struct.unpack_from(">H", d, 0)[0] == qid:
                info, problems = dnsstrict.check(d)
                if problems or not info["question"] or not _labels_ok_for_echo(info["question"][0]):
                    return True
    return False


def _pclass(p):
    import re
    p = re.sub(r"\d+", "N", p)
    return p[:50].replace(" ", "_")


# ---------------------------------------------------------------------------

def _tunnel_kind(first_label, ndata_labels_text):
    """('ping', userid) / ('data', userid) / None for a query's first label under the domain."""
    c = first_label[:1]
    if c in (b"p", b"P"):
        raw = proto.BASE32.decode(ndata_labels_text[1:])
        if len(raw) >= 4:
            return ("ping", raw[0])
        return None
    if c and c in HEX and len(ndata_labels_text) >= 6:
        return ("data", int(c, 16))
    return None


def mon_c14(k, domain, bind_port=None, wildcard=False):
    """Every DNS answer of the server consumes one distinct received query (source, id, question);
    at quiescent points at most two distinct ping/data queries per session are unanswered."""
    viol = []
    stats = {"c14_queries": 0, "c14_answers": 0, "c14_max_held": 0, "c14_dup_answered": 0, "c14_waits_checked": 0}
    dl = [l.lower() for l in proto.labels_from_dotted(domain.encode())]
    if wildcard:
        dl = dl[1:]
    pend = {}       # (src, id, labels, qtype) -> count of unanswered deliveries
    held = {}       # userid -> {(labels_lower, qtype): count}
    held_since = {} # (userid, held key) -> time the (first copy of the) query arrived
    raw_seen = set()    # slots for which a raw-mode login was received since they were handed out
    legacy = {}     # (userid, held key) -> ping/data queries of the session received since it went back to immediate mode
    legacy_t = {}   # (userid, held key) -> when the second of those arrived
    asked_ids = set()   # (address, DNS id) of every query datagram received
    self_answered = set()   # (address, id, question, type) of the queries iodined answered itself
    lazy_req = {}   # userid -> False from the version answer that hands out the slot, True once lazy mode was asked for in it
    skip = fwd_causes(k, bind_port)
    triggers = set()
    last_cause_kind = {}
    for ev in k.log:
        kind, who, kw = ev[1], ev[2], ev[3]
        if who != "srv":
            continue
        if kind == "recv":
            d = kw["data"]
            if _is_raw(d):
                # a raw-mode login/data/ping replaces the session's stored query: a DNS query that was
                # being held back is forgotten (never answered), which C14 permits - it is no longer "held"
                if len(d) >= 4:
                    held.pop(d[3] & 0x0F, None)
                    if (d[3] & 0xF0) == 0x10:
                        # a raw-mode login for that slot: if it succeeds the session's DNS queries are no longer served on the
                        # 20 ms timer (the server flushes those for DNS-mode sessions only); whoever keeps talking DNS in such a
                        # session is not an immediate-mode client in the sense of the rule below
                        raw_seen.add(d[3] & 0x0F)
                continue
            if kw["src"] == ("127.0.0.1", bind_port):
                continue
            if len(d) >= 3 and not (d[2] & 0x80):
                asked_ids.add((kw["src"], (d[0] << 8) | d[1]))
            try:
                m = proto.parse_msg(d)
            except proto.ParseError:
                continue
            if m.qr or not m.qd:
                continue
            labels, t, c = m.qd[0]
            key = (kw["src"], m.id, tuple(labels), t)
            pend[key] = pend.get(key, 0) + 1
            stats["c14_queries"] += 1
            ql = [l.lower() for l in labels]
            if len(ql) > len(dl) and ql[len(ql) - len(dl):] == dl and m.id != 0:
                text = b"".join(labels[:len(labels) - len(dl)])
                if text[:1] in (b"o", b"O") and len(text) >= 3 and text[2:3] in (b"l", b"L"):
                    # somebody asked for lazy mode in that slot (whether or not the server granted it)
                    lazy_req[proto.B32.find(text[1:2].lower())] = True
                tk = _tunnel_kind(labels[0], text)
                if tk:
                    hk = (tuple(ql), t)
                    for lk in list(legacy):
                        if lk[0] == tk[1] and lk[1] != hk:
                            legacy[lk] += 1
                            if legacy[lk] == 2:
                                legacy_t[lk] = ev[0]
                    h = held.setdefault(tk[1], {})
                    if hk not in h:
                        held_since[(tk[1], hk)] = ev[0]
                    h.setdefault(hk, []).append(key)
        elif kind == "send":
            d = kw["data"]
            if relayed(kw, skip) and not (bind_port and kw["dst"] == ("127.0.0.1", bind_port)):
                # a reply of the local DNS server handed on (-b): it goes to somebody who sent a query with that id (what it says
                # is the local server's business, and how often it may be handed on is C20's)
                stats["c14_relayed_replies"] = stats.get("c14_relayed_replies", 0) + 1
                rid = ((d[0] << 8) | d[1]) if len(d) >= 2 else None
                if (kw["dst"], rid) not in asked_ids:
                    viol.append(("C14:relayed-reply-to-somebody-who-never-asked", "a %d-byte reply of the local DNS server with id %r was sent to %s, which never sent a query with that id"
                                 % (len(d), rid, kw["dst"]), {"time_us": ev[0], "datagram": d.hex()[:200]}))
                    continue
                # a reply that is handed on is an answer like any other: when it echoes a question, it uses up a query received
                # from that address with that id and question - a query iodined has answered itself is not owed a second answer
                # (how often a *forwarded* query's reply may be handed on when the local server repeats itself is C20's business)
                try:
                    rm = proto.parse_msg(d)
                except proto.ParseError:
                    continue
                if rm.qr and rm.qd:
                    rl, rt, _rc = rm.qd[0]
                    rkey = (kw["dst"], rm.id, tuple(rl), rt)
                    if pend.get(rkey, 0) > 0:
                        pend[rkey] -= 1
                    elif rkey in self_answered:
                        viol.append(("C14:second-answer-by-relayed-reply", "a reply of the local DNS server was handed on to %s for id %d %r type %d, a query iodined had already answered itself"
                                     % (kw["dst"], rm.id, b".".join(rl)[:50], rt), {"time_us": ev[0], "datagram": d.hex()[:300]}))
                continue
            if _is_raw(d) or relayed(kw, skip) or (bind_port and kw["dst"] == ("127.0.0.1", bind_port)):
                continue
            try:
                m = proto.parse_msg(d)
            except proto.ParseError:
                continue    # C10's business
            if not m.qr:
                continue
            stats["c14_answers"] += 1
            labels, t, c = m.qd[0] if m.qd else ((), 0, 0)
            key = (kw["dst"], m.id, tuple(labels), t)
            n = pend.get(key, 0)
            if n <= 0:
                viol.append(("C14:unsolicited-answer", "answer to %s id %d %r type %d matches no unanswered query received from there"
                             % (kw["dst"], m.id, b".".join(labels)[:50], t),
                             {"time_us": ev[0], "datagram": d.hex()[:600]}))
                continue
            pend[key] = n - 1
            self_answered.add(key)
            if labels and labels[0][:1].lower() == b"o" and len(labels[0]) >= 3:
                # the server's own acknowledgement of an options request says which mode the session is in from now on
                try:
                    op_ = proto.extract_payload(m)
                except (proto.ParseError, proto.Undecodable, IndexError, struct.error):
                    op_ = None
                ouid = proto.B32.find(labels[0][1:2].lower())
                if op_ == b"Lazy":
                    lazy_req[ouid] = True
                elif op_ == b"Immediate" and ouid in lazy_req:
                    lazy_req[ouid] = False
                    # what the server was still holding back from the lazy phase goes out when the next query of the session
                    # arrives ("if we are in non-lazy mode, there should be no query waiting, but if there is, send immediately")
                    for hk_ in held.get(ouid, {}):
                        legacy[(ouid, hk_)] = 0
            if labels and labels[0][:1].lower() == b"v":
                # a version handshake that hands out a slot re-initialises it: whatever was being held back for the
                # slot's previous occupant is dropped (never answered), it is no longer "held"
                try:
                    vp = proto.extract_payload(m)
                    if vp[:4] == b"VACK" and len(vp) >= 9:
                        held.pop(vp[8], None)
                        lazy_req[vp[8]] = False          # a new session starts in immediate mode
                        raw_seen.discard(vp[8])
                except (proto.ParseError, proto.Undecodable, IndexError, struct.error):
                    pass
            ql = tuple(l.lower() for l in labels)
            # a name that has been answered once is no longer "held back", even if further identical
            # copies of it (absorbed duplicates) never get an answer of their own
            for uid, h in held.items():
                if (ql, t) in h:
                    del h[(ql, t)]
                    held_since.pop((uid, (ql, t)), None)
                    legacy.pop((uid, (ql, t)), None)
                    break
            ck = kw.get("cause")
            triggers.add("timer" if ck is None else ("tun" if isinstance(ck, tuple) else "query"))
        elif kind == "send_error":
            # the server tried to answer but the OS refused the datagram (e.g. wrong address family for that socket):
            # the query is no longer held back by the server
            try:
                m = proto.parse_msg(kw.get("data", b""))
                if m.qr and m.qd:
                    ql = tuple(l.lower() for l in m.qd[0][0])
                    for uid, h in held.items():
                        h.pop((ql, m.qd[0][1]), None)
                    stats["c14_answers_refused_by_os"] = stats.get("c14_answers_refused_by_os", 0) + 1
            except proto.ParseError:
                pass
        elif kind == "wait":
            stats["c14_waits_checked"] += 1
            for uid, h in held.items():
                n = len(h)
                if n > stats["c14_max_held"]:
                    stats["c14_max_held"] = n
                if n > 2:
                    viol.append(("C14:more-than-two-held", "session %d has %d distinct unanswered ping/data queries at a quiescent point" % (uid, n),
                                 {"time_us": ev[0], "held": [repr(x[0][0][:16]) for x in list(h)[:5]]}))
                    h.clear()
                elif n and lazy_req.get(uid) is False and uid not in raw_seen:
                    # the session was handed its slot in this log and nobody ever asked for lazy mode in it: it is in immediate
                    # mode, where a ping/data query is answered when it arrives or (the acknowledgement of a packet's last
                    # fragment) "after just a tiny little while" - 20 ms; half a virtual second is far beyond that
                    stats["c14_immediate_mode_waits_with_held"] = stats.get("c14_immediate_mode_waits_with_held", 0) + 1
                    old = [hk for hk in h if held_since.get((uid, hk), ev[0]) <= ev[0] - 500000 and (uid, hk) not in legacy]
                    late = [hk for hk in h if legacy.get((uid, hk), 0) >= 2 and legacy_t.get((uid, hk), ev[0]) <= ev[0] - 500000]
                    if late:
                        viol.append(("C14:query-held-from-lazy-phase-never-answered", "session %d went back to immediate mode; a query the server was holding from the lazy phase is still unanswered although two newer queries of the session have arrived since"
                                     % uid, {"time_us": ev[0], "held": [repr(x[0][0][:16]) for x in late[:3]]}))
                        for hk in late:
                            h.pop(hk, None)
                            legacy.pop((uid, hk), None)
                    if old:
                        viol.append(("C14:immediate-mode-query-held", "session %d never asked for lazy mode, yet %d ping/data quer%s been unanswered for more than 0.5 s (virtual) at a quiescent point"
                                     % (uid, len(old), "y has" if len(old) == 1 else "ies have"), {"time_us": ev[0], "held": [repr(x[0][0][:16]) for x in old[:5]]}))
                        h.clear()
            for uid, lr in lazy_req.items():
                if lr is False:
                    stats["c14_immediate_mode_waits_checked"] = stats.get("c14_immediate_mode_waits_checked", 0) + 1
    stats["c14_triggers"] = len(triggers)
    return viol, stats, triggers


# ---------------------------------------------------------------------------

class _Down:
    __slots__ = ("F", "seq", "frag", "body", "asm", "wrapped", "done", "started")

    def __init__(self):
        self.F = 100
        self.seq = None
        self.frag = None
        self.body = None
        self.asm = b""
        self.wrapped = False
        self.done = False
        self.started = False


def _slot_of_name(labels, dl):
    """The userid a ping/data query name addresses (None when it is not one)."""
    text = b"".join(labels[:len(labels) - len(dl)]) if len(labels) > len(dl) else b""
    tk = _tunnel_kind(labels[0], text) if labels else None
    return tk[1] if tk else None


def mon_c15(k, domain, wildcard=False):
    """Downstream data answers: payload <= negotiated fragment size; fragments numbered from 0
    consecutively; last flag exactly at the true end of a frame that was offered."""
    viol = []
    stats = {"c15_data_answers": 0, "c15_fragments": 0, "c15_packets_completed": 0, "c15_resends": 0,
             "c15_badfrag_rejections": 0, "c15_wrapped_packets": 0, "c15_setfrag_acks": 0}
    dl = [l.lower() for l in proto.labels_from_dotted(domain.encode())]
    if wildcard:
        dl = dl[1:]
    vchal = {}      # slot -> challenge of its most recent VACK
    users = {}
    offered = set()
    fsizes = set()
    answered = set()
    below2 = set()
    for ev in k.log:
        kind, who, kw = ev[1], ev[2], ev[3]
        if kind == "wait" and who == "srv" and "rows" in kw:
            # "the server rejects sizes below 2": whatever it answers, no session may ever be left with such a size
            for uid, r in enumerate(kw["rows"]):
                if r["active"] and r["authenticated"] and r["fragsize"] < 2 and uid not in below2:
                    below2.add(uid)
                    viol.append(("C15:stored-size-below-2", "the server's table holds fragment size %d for session %d" % (r["fragsize"], uid),
                                 {"time_us": ev[0]}))
            stats["c15_table_rows_checked"] = stats.get("c15_table_rows_checked", 0) + len(kw["rows"])
            continue
        if kind == "tun_read":
            try:
                offered.add(bytes(kw["data"]))
            except Exception:
                pass
            continue
        # an answer the operating system refused to send (injected sendto failure) was still produced by the server and
        # moved its state on: it is judged, and tracked, like one that left
        if kind == "send_error" and who == "srv" and kw.get("injected") and kw.get("data") is not None:
            stats["c15_answers_refused_by_os"] = stats.get("c15_answers_refused_by_os", 0) + 1
        elif kind != "send" or who != "srv":
            continue
        d = kw["data"]
        if _is_raw(d):
            continue
        try:
            m = proto.parse_msg(d)
            if not m.qr or not m.qd:
                continue
            labels, t, _c = m.qd[0]
            ql = [l.lower() for l in labels]
            if not (len(ql) > len(dl) and ql[len(ql) - len(dl):] == dl):
                continue
            text = b"".join(labels[:len(labels) - len(dl)])
            p = proto.extract_payload(m)
        except (proto.ParseError, proto.Undecodable, IndexError, struct.error):
            continue
        c = text[:1].lower()
        if c == b"v":
            if p[:4] == b"VACK" and len(p) >= 9:
                prev_ = users.get(p[8])
                users[p[8]] = _Down()
                if prev_ is not None and vchal.get(p[8]) == p[4:8]:
                    # the same challenge handed out again for the same slot: not a new session but the old one (its login
                    # still stands), so the size it has set still binds
                    users[p[8]].F = prev_.F
                    stats["c15_same_challenge_again"] = stats.get("c15_same_challenge_again", 0) + 1
                vchal[p[8]] = p[4:8]
                # a new session starts on this slot: answers remembered for its previous occupant are gone, so an
                # old name arriving again is an ordinary query of the new session, judged like any other
                answered = {a for a in answered if _slot_of_name(a[0], dl) != p[8]}
            continue
        if c == b"n":
            raw = proto.BASE32.decode(text[1:])
            if len(raw) >= 3:
                uid = raw[0]
                size = (raw[1] << 8) | raw[2]
                if len(p) == 2 and struct.unpack(">H", p)[0] == size:
                    if size < 2:
                        viol.append(("C15:accepted-size-below-2", "server acknowledged fragment size %d" % size,
                                     {"time_us": ev[0]}))
                    if uid in users:
                        users[uid].F = size
                        stats["c15_setfrag_acks"] += 1
                        fsizes.add(size)
                elif p == b"BADFRAG":
                    stats["c15_badfrag_rejections"] += 1
            continue
        tk = _tunnel_kind(labels[0], text)
        if not tk or len(p) < 2 or p in (b"BADIP", b"x"):
            continue
        u = users.get(tk[1])
        if u is None:
            continue
        h = proto.parse_down_header(p)
        body = p[2:]
        nk = (tuple(labels), t)      # exact spelling: the answer cache compares names with strcmp()
        if nk in answered:
            # identical repeat of an already answered query name: served from the answer cache / to the
            # remembered duplicate (C16's business); its header is allowed to be stale
            stats["c15_cache_replays"] = stats.get("c15_cache_replays", 0) + 1
            continue
        answered.add(nk)
        stats["c15_data_answers"] += 1
        lim = min(u.F, 4094)
        if len(body) > lim:
            viol.append(("C15:fragment-exceeds-size", "answer for session %d carries %d payload bytes, negotiated size is %d"
                         % (tk[1], len(body), u.F), {"time_us": ev[0], "datagram": d.hex()[:400]}))
            continue
        if not body:
            continue
        stats["c15_fragments"] += 1
        if (t in (proto.T_CNAME, proto.T_A) and len(body) > 120) or (t in (proto.T_MX, proto.T_SRV) and len(body) > 2000):
            # More than a session of this record type can sensibly negotiate (the host-name formats hold about 120-200 /
            # 2000 bytes and iodined cuts what does not fit): such an answer arises when a query of another type carries
            # the session's data (anybody may name a userid under -c).  The size bound above was judged; whether the bytes
            # that got through end the packet cannot be.
            stats["c15_possibly_cut_by_answer_format"] = stats.get("c15_possibly_cut_by_answer_format", 0) + 1
            u.seq, u.frag, u.body, u.asm, u.wrapped, u.done, u.started = h["dn_seq"], h["dn_frag"], body, b"", True, bool(h["last"]), True
            continue
        if u.seq != h["dn_seq"]:
            # first data fragment of a new packet
            if h["dn_frag"] != 0:
                if u.started:
                    viol.append(("C15:first-fragment-not-0", "new downstream packet (seq %d) of session %d starts at fragment %d"
                                 % (h["dn_seq"], tk[1], h["dn_frag"]), {"time_us": ev[0]}))
                u.seq = h["dn_seq"]
                u.frag = h["dn_frag"]
                u.body = body
                u.asm = b""
                u.wrapped = True   # cannot judge this packet
                u.done = False
                u.started = True
                continue
            u.seq, u.frag, u.body, u.asm, u.wrapped, u.done, u.started = h["dn_seq"], 0, body, body, False, False, True
        elif h["dn_frag"] == u.frag:
            stats["c15_resends"] += 1
            if u.body is not None and not (body.startswith(u.body) or u.body.startswith(body)):
                viol.append(("C15:resend-differs", "fragment %d/%d of session %d re-sent with different bytes"
                             % (h["dn_seq"], h["dn_frag"], tk[1]), {"time_us": ev[0]}))
                continue
            if u.body is None or body == u.body or u.wrapped:
                continue
            # re-sent from the same offset with another length (the fragment size was changed in between): the
            # server's position now advances by this version, so it replaces the earlier one in the stream and
            # its last flag is judged again
            stats["c15_resends_resized"] = stats.get("c15_resends_resized", 0) + 1
            u.asm = u.asm[:len(u.asm) - len(u.body)] + body
            u.body = body
            u.done = False
        elif h["dn_frag"] == ((u.frag + 1) & 15):
            if u.done and not u.wrapped:
                viol.append(("C15:fragment-after-last", "session %d: fragment %d follows the last-flagged fragment of packet seq %d"
                             % (tk[1], h["dn_frag"], h["dn_seq"]), {"time_us": ev[0]}))
            if h["dn_frag"] == 0:
                u.wrapped = True
                stats["c15_wrapped_packets"] += 1
            u.frag = h["dn_frag"]
            u.body = body
            u.asm += body
        else:
            if not u.wrapped:
                viol.append(("C15:fragment-numbering", "session %d packet seq %d: fragment %d follows fragment %d"
                             % (tk[1], h["dn_seq"], h["dn_frag"], u.frag), {"time_us": ev[0]}))
            u.frag = h["dn_frag"]
            u.body = body
            u.wrapped = True
            continue
        if u.wrapped:
            if h["last"]:
                u.done = True
            continue
        # "the true end of the packet": the compressed stream (zlib) ends exactly with this fragment - neither earlier
        # nor with bytes to spare.  Packets read from the server's tun are additionally recognised by content; packets
        # forwarded from another client are judged by the stream alone.
        complete = None
        exact_end = False
        try:
            dobj = zlib.decompressobj()
            complete = dobj.decompress(u.asm)
            exact_end = dobj.eof and not dobj.unused_data
            if not dobj.eof:
                complete = None
        except zlib.error:
            complete = None
        if h["last"]:
            u.done = True
            if complete is None or not exact_end:
                viol.append(("C15:last-flag-early", "session %d packet seq %d: last-fragment flag on fragment %d but the %d bytes so far are not a complete packet"
                             % (tk[1], h["dn_seq"], h["dn_frag"], len(u.asm)), {"time_us": ev[0]}))
            else:
                stats["c15_packets_completed"] += 1
                if complete not in offered:
                    stats["c15_forwarded_packets_completed"] = stats.get("c15_forwarded_packets_completed", 0) + 1
        else:
            if complete is not None and exact_end:
                viol.append(("C15:last-flag-missing", "session %d packet seq %d: fragment %d completes the packet but carries no last flag"
                             % (tk[1], h["dn_seq"], h["dn_frag"]), {"time_us": ev[0]}))
    stats["c15_fragsizes"] = len(fsizes)
    return viol, stats, fsizes
