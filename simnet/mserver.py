"""Model server: a Python actor that plays iodined's side of the handshake (written from
doc/proto_00000502.txt) so that the real client can be led to any handshake step and then be given
hostile answers (C06, C13, client side of C12)."""
import struct
import socket

from .kernel import Actor
from . import proto

DOWNCODECCHECK1 = (b"\x00\x00\x00\x00\xff\xff\xff\xff\x55\x55\x55\x55\xaa\xaa\xaa\xaa"
                   b"\x81\x63\xc8\xd2\xc7\x7c\xb2\x17\x5f\x4f\xce\xc9\x49\x2d\x52\x21"
                   b"\x61\xa9\x71\x20\x25\xb3\x06\x73\xe6\xd8\x44\x30\x79\x50\x57\xbf")


def host_chunks(payload, codec, maxname=250):
    """Split payload into hostname-encoded chunks ('h'+base32 dotted + '.xy'), each a legal name."""
    per = codec.dec_len(maxname - 4 - 5)   # letter, ".xy", dots
    per = max(per - per // 50 - 2, 1)
    out = []
    i = 0
    while True:
        part = payload[i:i + per]
        enc = codec.encode(part)
        labels = proto.dotsplit(codec.letter_host + enc, 57) + [b"xy"]
        out.append(labels)
        i += per
        if i >= len(payload):
            break
    return out


def build_answer(q, payload, downenc="T", qid=None, rcode=0):
    """Well-formed answer to parsed query Msg q carrying payload in the encoding the real server would use."""
    labels, qtype, qclass = q.qd[0]
    qid = q.id if qid is None else qid
    codec = proto.DOWN_BY_LETTER.get(downenc, proto.BASE32)
    if qtype in (proto.T_NULL, proto.T_PRIVATE):
        rrs = [(qtype, payload)]
    elif qtype == proto.T_TXT:
        if downenc == "R":
            text = b"r" + payload
        else:
            text = codec.letter_txt + codec.encode(payload)
        rd = b"".join(bytes([len(text[i:i + 252])]) + text[i:i + 252] for i in range(0, len(text), 252)) or b"\x00"
        rrs = [(proto.T_TXT, rd)]
    elif qtype in (proto.T_CNAME, proto.T_A):
        ch = host_chunks(payload, codec)[0]
        rrs = [(proto.T_CNAME, proto.encode_name(ch))]
    elif qtype == proto.T_MX:
        rrs = [(proto.T_MX, struct.pack(">H", 10 * (i + 1)) + proto.encode_name(ch))
               for i, ch in enumerate(host_chunks(payload, codec))]
    elif qtype == proto.T_SRV:
        rrs = [(proto.T_SRV, struct.pack(">HHH", 10 * (i + 1), 10, 5060) + proto.encode_name(ch))
               for i, ch in enumerate(host_chunks(payload, codec))]
    else:
        rrs = []
    return proto.build_answer_raw(qid, labels, qtype, rrs, rcode=rcode, qclass=qclass)


class HandshakeServer(Actor):
    """Answers the real client's handshake correctly; `hook(step, q, default_bytes)` may replace any
    answer (return bytes / list of bytes to send instead, None to stay silent)."""

    def __init__(self, ip, domain, password, tun_ip="10.9.0.1", client_tun_ip="10.9.0.2", mtu=1130, netmask=24,
                 challenge=0x12345678, userid=3, hook=None, allow_types=None):
        Actor.__init__(self, ip)
        self.domain = proto.labels_from_dotted(domain.encode())
        self.password = password
        self.tun_ip = tun_ip
        self.client_tun_ip = client_tun_ip
        self.mtu = mtu
        self.netmask = netmask
        self.challenge = challenge
        self.userid = userid
        self.hook = hook
        self.downenc = "T"
        self.lazy = False
        self.fragsize = 100
        self.steps = []          # (step name, qtype) in arrival order
        self.allow_types = allow_types
        self.dn_seq = 0
        self.dn_frag = 0
        self.queries = []
        self.raw_seen = []
        # data phase (off unless serve_down): the downstream half of a spec-conforming server
        self.serve_down = False
        self.down_queue = []
        self.cur = None
        self.cur_off = 0
        self.sent = 0
        self.down_fragments_sent = 0
        self.upcodec = proto.BASE32
        self.up_cur_seq = None
        self.up_cur_frag = -1
        self.up_buf = b""
        self.up_frames = []

    def step_of(self, text, q):
        c = text[:1].lower()
        if c == b"y":
            return "Y"
        return {b"v": "V", b"l": "L", b"i": "I", b"z": "Z", b"s": "S", b"o": "O", b"r": "R", b"n": "N",
                b"p": "P"}.get(c, "D" if c in b"0123456789abcdef" else "?")

    def default_payload(self, step, text, q):
        labels, qtype, _ = q.qd[0]
        if step == "Y":
            want = text[1:2].upper().decode("latin1")
            ok_types = (proto.T_TXT, proto.T_SRV, proto.T_MX, proto.T_CNAME, proto.T_A)
            if want in "TSUV" and qtype in ok_types:
                return DOWNCODECCHECK1, want
            if want == "R" and qtype in (proto.T_NULL, proto.T_PRIVATE, proto.T_TXT):
                return DOWNCODECCHECK1, "R"
            return b"BADCODEC", "T"
        if step == "V":
            return b"VACK" + struct.pack(">I", self.challenge & 0xFFFFFFFF) + bytes([self.userid]), "T"
        if step == "L":
            return ("%s-%s-%d-%d" % (self.tun_ip, self.client_tun_ip, self.mtu, self.netmask)).encode(), self.downenc
        if step == "I":
            return b"I" + socket.inet_aton(self.ip), "T"
        if step == "Z":
            return text, "T"
        if step == "S":
            code = proto.b32_val(text[2]) if len(text) > 2 else 0
            c = proto.CODEC_BY_BITS.get(code)
            if c:
                self.upcodec = c
            return (c.name.encode() if c else b"BADCODEC"), self.downenc
        if step == "O":
            ch = text[2:3].upper().decode("latin1")
            names = {"T": b"Base32", "S": b"Base64", "U": b"Base64u", "V": b"Base128", "R": b"Raw", "L": b"Lazy", "I": b"Immediate"}
            if ch in "TSUVR":
                self.downenc = ch
            elif ch == "L":
                self.lazy = True
            elif ch == "I":
                self.lazy = False
            return names.get(ch, b"BADCODEC"), self.downenc
        if step == "R":
            a, b, c = (proto.b32_val(x) for x in text[1:4].ljust(3, b"a"))
            size = ((a & 1) << 10) | (b << 5) | c
            if size < 2:
                return b"BADFRAG", self.downenc
            buf = bytearray(size)
            buf[0] = size >> 8
            buf[1] = size & 0xFF
            if size > 2:
                buf[2] = 107
            v = 0x5B
            for i in range(3, size):
                buf[i] = v
                v = (v + 107) & 0xFF
            return bytes(buf), self.downenc
        if step == "N":
            raw = proto.BASE32.decode(text[1:])
            if len(raw) >= 3:
                self.fragsize = (raw[1] << 8) | raw[2]
                return raw[1:3], self.downenc
            return b"BADLEN", "T"
        if step in ("P", "D"):
            ack = None
            if step == "D":
                h = proto.parse_up_data_header(text)
                b0 = 0x80 | (h["up_seq"] << 4) | h["up_frag"]
                self.last_up = b0
                ack = (h["dn_seq"], h["dn_frag"])
                if self.serve_down:
                    # upstream as the protocol document describes it: the data behind the 5 header characters, in the codec the
                    # client switched to with 'S' (Base32 until then); a repeated fragment is not appended twice
                    try:
                        part = self.upcodec.decode(text[5:])
                    except Exception:
                        part = None
                    key = (h["up_seq"], h["up_frag"])
                    if part is not None:
                        if h["up_seq"] != self.up_cur_seq:
                            self.up_cur_seq, self.up_cur_frag, self.up_buf = h["up_seq"], h["up_frag"], part
                            fresh = True
                        elif h["up_frag"] > self.up_cur_frag:
                            self.up_cur_frag = h["up_frag"]
                            self.up_buf += part
                            fresh = True
                        else:
                            fresh = False
                        if fresh and h["last"]:
                            try:
                                self.up_frames.append(proto.inflate(self.up_buf))
                            except Exception:
                                self.up_frames.append(None)
                            self.up_buf = b""
            else:
                b0 = getattr(self, "last_up", 0x80)
                try:
                    raw = proto.BASE32.decode(text[1:])
                    if len(raw) >= 2:
                        ack = ((raw[1] >> 4) & 7, raw[1] & 15)
                except Exception:
                    pass
            if not self.serve_down:
                return bytes([b0, (self.dn_seq & 7) << 5]), self.downenc
            # Downstream as doc/proto_00000502.txt describes it: packets are cut into fragments of the size the client set
            # with 'N' ("payloads will be max (fragsize + 2) bytes"), numbered from 0, the last one flagged; the next
            # fragment follows when the client's ack names the one in flight.
            if self.cur is not None and self.sent > 0 and ack == (self.dn_seq & 7, self.dn_frag & 15):
                self.cur_off += self.sent
                self.sent = 0
                if self.cur_off >= len(self.cur):
                    self.cur = None
                else:
                    self.dn_frag += 1
            if self.cur is None and self.down_queue:
                self.cur = proto.deflate(self.down_queue.pop(0))
                self.cur_off = 0
                self.sent = 0
                self.dn_seq = (self.dn_seq + 1) & 7
                self.dn_frag = 0
            if self.cur is None:
                return bytes([b0, ((self.dn_seq & 7) << 5) | ((self.dn_frag & 15) << 1)]), self.downenc
            chunk = self.cur[self.cur_off:self.cur_off + max(self.fragsize, 1)]
            self.sent = len(chunk)
            last = 1 if self.cur_off + len(chunk) >= len(self.cur) else 0
            self.down_fragments_sent += 1
            return bytes([b0, ((self.dn_seq & 7) << 5) | ((self.dn_frag & 15) << 1) | last]) + chunk, self.downenc
        return None, "T"

    def on_datagram(self, src, dst, data):
        if data[:3] == proto.RAW_MAGIC:
            self.raw_seen.append(data)
            step = "RAW"
            default = None
            if len(data) >= 20 and (data[3] & 0xF0) == proto.RAW_LOGIN:
                default = proto.raw_frame(proto.RAW_LOGIN, data[3] & 15,
                                          proto.login_hash(self.password, (self.challenge - 1) & 0xFFFFFFFF))
            out = self.hook(step, None, default, src) if self.hook else default
            self._emit(dst, src, out)
            return
        try:
            q = proto.parse_msg(data)
        except proto.ParseError:
            return
        if q.qr or not q.qd:
            return
        labels, qtype, _ = q.qd[0]
        nd = len(self.domain)
        text = b"".join(labels[:len(labels) - nd]) if len(labels) > nd else b""
        step = self.step_of(text, q)
        self.steps.append((step, qtype))
        self.queries.append(q)
        if self.allow_types is not None and qtype not in self.allow_types:
            return
        payload, enc = self.default_payload(step, text, q)
        default = build_answer(q, payload, enc) if payload is not None else None
        out = self.hook(step, q, default, src) if self.hook else default
        self._emit(dst, src, out)

    def _emit(self, me, peer, out):
        if out is None:
            return
        if isinstance(out, (bytes, bytearray)):
            out = [out]
        for i, d in enumerate(out):
            self.kernel.emit("asend", "actor:" + self.ip, src=me, dst=peer, data=bytes(d))
            self.kernel.transmit(me, peer, bytes(d), self.kernel.latency_us + i)
