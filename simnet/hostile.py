"""Hostile datagram generators (C05: towards the server; building blocks reused for C06/C12)."""
import struct

from . import proto

CMDS = b"vVlLiIzZsSoOyYrRnNpP0123456789abcdefABCDEFgGxX-_\xe4\x00."


def rand_bytes(rng, n):
    return bytes(rng.getrandbits(8) for _ in range(n))


def arbitrary(rng):
    n = rng.choice([0, 1, 2, 3, 4, 5, 11, 12, 13, 16, 17, 18, 28, 64, 100, 255, 256, 511, 512, 513, 1500, 4095, 4096,
                    4097, 9000, 65507]) if rng.random() < 0.7 else rng.randint(0, 70)
    style = rng.randrange(4)
    if style == 0:
        return rand_bytes(rng, min(n, 2000)) + b"\0" * max(0, n - 2000)
    if style == 1:
        return bytes([rng.choice([0, 0xFF, 0xC0, 0x3F, 0x40])]) * n
    if style == 2:
        return (b"\xc0\x0c" * (n // 2 + 1))[:n]
    return rand_bytes(rng, min(n, 64)) + rand_bytes(rng, 1) * max(0, n - 64)


def hdr(rng, qid=None, flags=None, qd=1, an=0, ns=0, ar=0):
    return struct.pack(">HHHHHH", rng.getrandbits(16) if qid is None else qid,
                       0x0100 if flags is None else flags, qd, an, ns, ar)


def rand_label(rng, n, alphabet=None):
    if alphabet == "b32":
        return bytes(rng.choice(proto.B32) for _ in range(n))
    if alphabet == "high":
        return bytes(rng.randint(0x80, 0xFF) for _ in range(n))
    if alphabet == "mixed":
        return bytes(rng.choice(proto.B128 + b"+_-\x00. \\\"'") for _ in range(n))
    return rand_bytes(rng, n)


def raw_name(labels_with_len):
    """[(declared_len, bytes)] -> wire bytes (declared length may lie)."""
    out = bytearray()
    for ln, b in labels_with_len:
        out.append(ln & 0xFF)
        out += b
    return bytes(out)


def dns_malformed(rng, domain_labels):
    """Valid-looking header with a structurally hostile body."""
    kind = rng.randrange(15)
    qt = rng.choice([1, 2, 5, 10, 15, 16, 33, 41, 255, 65399, rng.getrandbits(16)])
    dom = proto.encode_name(domain_labels)
    tail = struct.pack(">HH", qt, 1)
    if kind == 0:       # bad counts
        return hdr(rng, qd=rng.choice([0, 2, 255, 65535]), an=rng.choice([0, 1, 65535]), ns=rng.getrandbits(16),
                   ar=rng.getrandbits(16)) + b"\x02pa" + dom + tail
    if kind == 1:       # truncated after every byte of a valid query
        full = proto.build_query(rng.getrandbits(16), [b"paaaaaaa"] + list(domain_labels), qt, edns0=rng.random() < 0.5)
        return full[:rng.randint(0, len(full))]
    if kind == 2:       # pointer to self
        return hdr(rng) + b"\xc0\x0c" + tail
    if kind == 3:       # forward pointer / pointer to end / past end
        tgt = rng.choice([12 + 2, 12 + 6, 0x3FFF, 40, 100])
        return hdr(rng) + b"\x02pa" + struct.pack(">H", 0xC000 | tgt) + tail
    if kind == 4:       # pointer loops of length 1..12
        n = rng.randint(1, 12)
        body = bytearray()
        for i in range(n):
            nxt = 12 + 2 * ((i + 1) % n)
            body += struct.pack(">H", 0xC000 | nxt)
        return hdr(rng) + bytes(body) + tail
    if kind == 5:       # reserved label types 0x40..0xBF
        return hdr(rng) + bytes([rng.randint(0x40, 0xBF)]) + rand_bytes(rng, rng.randint(0, 70)) + b"\0" + tail
    if kind == 6:       # label length says more than present
        return hdr(rng) + bytes([rng.randint(1, 63)]) + rand_bytes(rng, rng.randint(0, 10))
    if kind == 7:       # name over 255 bytes made of maximal labels
        n = rng.randint(4, 9)
        body = b"".join(b"\x3f" + rand_label(rng, 63, "b32") for _ in range(n))
        return hdr(rng) + body + dom + tail
    if kind == 8:       # high bytes and NULs inside labels under the domain
        l = rand_label(rng, rng.randint(1, 63), rng.choice(["high", "mixed", None]))
        return hdr(rng) + bytes([len(l)]) + l + dom + tail
    if kind == 9:       # QR=1 (an answer) sent to the server
        return proto.build_answer_raw(rng.getrandbits(16), [b"paaaa"] + list(domain_labels), qt,
                                      [(qt, rand_bytes(rng, rng.randint(0, 300)))])
    if kind == 10:      # pointer into the header / to offset 0
        return hdr(rng) + b"\x02pa" + struct.pack(">H", 0xC000 | rng.randint(0, 11)) + tail
    if kind == 11:      # label chain ending exactly at the end of the datagram (no terminator)
        return hdr(rng) + b"".join(bytes([k]) + rand_label(rng, k, "b32") for k in [rng.randint(1, 63) for _ in range(rng.randint(1, 4))])
    if kind == 12:      # name ends in pointer to domain placed after it
        body = b"\x05paaaa" + struct.pack(">H", 0xC000 | (12 + 8 + 4)) + tail + dom
        return hdr(rng) + body
    if kind == 14:      # a label of a reserved type (length byte 0x40..0xBF) carrying a command, under the tunnel domain
        n = rng.randint(0x40, 0xBF)
        body = rng.choice([b"z", b"v", b"p", b"l", b"0", b"r", b"Z", b"y"]) + rand_label(rng, n - 1, rng.choice(["b32", "b32", "mixed"]))
        return hdr(rng) + bytes([n]) + body + dom + tail
    return hdr(rng) + b"\0" + tail + rand_bytes(rng, rng.randint(0, 40))


def _pick_uid(rng, userids, avoid, limit=32):
    for _ in range(20):
        uid = rng.choice(list(userids) + [rng.randrange(limit)])
        if uid not in avoid:
            return uid
    return max(avoid) + 1 if avoid else 0


def named_userid(text):
    """The userid the server derives from the data part of a query name (None if the command has none)."""
    if not text:
        return None
    c = text[:1].lower()
    if c in b"lnp":
        raw = proto.BASE32.decode(text[1:].replace(b".", b""))
        return raw[0] if raw else None
    if c in b"iso":
        return proto.b32_val(text[1]) if len(text) > 1 else None
    if c == b"r":
        return (proto.b32_val(text[1]) >> 1) & 15 if len(text) > 1 else None
    if c in b"0123456789abcdef":
        return int(c, 16)
    return None


def tunnel_shaped(rng, domain_labels, userids=(0,), domain_variants=True, avoid=(), _depth=0):
    """A syntactically valid DNS query under the tunnel domain whose first label starts with a
    command letter and carries hostile arguments."""
    cmd = bytes([rng.choice(CMDS)])
    qt = rng.choice([proto.T_NULL, proto.T_PRIVATE, proto.T_TXT, proto.T_SRV, proto.T_MX, proto.T_CNAME, proto.T_A,
                     proto.T_NS, 255, 28])
    style = rng.randrange(8)
    uid = _pick_uid(rng, userids, avoid)
    total = rng.choice([0, 1, 2, 3, 4, 5, 6, 15, 16, 17, 30, 57, 63, 64, 100, 200, 230]) if rng.random() < 0.6 else rng.randint(0, 235)
    if style == 0:      # proper base32 userid + random base32 args
        text = cmd + proto.b32_char(uid) + rand_label(rng, total, "b32")
    elif style == 1:    # base32-encoded binary argument block beginning with userid byte
        raw = bytes([uid & 0xFF]) + rand_bytes(rng, rng.randint(0, 120))
        text = cmd + proto.BASE32.encode(raw)
    elif avoid and style in (2, 3, 7):
        # arbitrary bytes after the letter would name an arbitrary userid; keep the userid position
        text = cmd + proto.b32_char(uid) + rand_label(rng, total, rng.choice(["high", "mixed", None])).replace(b".", b"x")
    elif style == 2:    # high bytes right after the command letter
        text = cmd + rand_label(rng, max(total, 1), "high")
    elif style == 3:    # full 8-bit
        text = cmd + rand_label(rng, total, None).replace(b".", b"x")
    elif style == 4:    # data header with every field combination, any codec payload
        hexc = b"0123456789abcdefABCDEF"[rng.randrange(22):][:1]
        while int(hexc, 16) in avoid:
            hexc = b"0123456789abcdefABCDEF"[rng.randrange(22):][:1]
        text = hexc + rand_label(rng, 3, rng.choice(["b32", "high", None])) + bytes([rng.choice(proto.DATACMC + b"\xff.")]) + \
            rand_label(rng, total, rng.choice(["b32", "mixed", "high"]))
    elif style == 5:    # exact boundary lengths for the dispatcher's guards
        text = cmd + rand_label(rng, rng.choice([0, 1, 2, 4, 5, 14, 15]), "b32")
    elif style == 6:    # fragsize probe / set-frag with extreme sizes
        size = rng.choice([0, 1, 2, 2047, 2048, 4095, 65535])
        if rng.random() < 0.5:
            text = b"r" + proto.b32_char((uid << 1) | ((size >> 10) & 1)) + proto.b32_char(size >> 5) + proto.b32_char(size) + rand_label(rng, total, "mixed")
        else:
            text = b"n" + proto.BASE32.encode(bytes([uid & 0xFF]) + struct.pack(">H", size) + rand_bytes(rng, 2))
    else:
        text = cmd + rand_label(rng, total, "mixed")
    text = text[:240]
    if avoid and named_userid(text) in avoid:
        if _depth < 50:
            return tunnel_shaped(rng, domain_labels, userids, domain_variants, avoid, _depth + 1)
        text = b"z" + text[1:]
    labels = [text[i:i + 63] for i in range(0, len(text), rng.choice([63, 57, 30]))] or [b""]
    labels = [l for l in labels if l]
    dl = list(domain_labels)
    if domain_variants and rng.random() < 0.15:
        dl = [l.upper() if rng.random() < 0.5 else l for l in dl]
    name = b""
    try:
        name = proto.encode_name(labels[:4] + dl)
    except ValueError:
        name = proto.encode_name([b"p"] + dl)
    if len(name) > 255 and rng.random() < 0.8:
        name = proto.encode_name(labels[:1] + dl)
    q = struct.pack(">HHHHHH", rng.choice([0, 1, rng.getrandbits(16)]), 0x0100, 1, 0, 0, rng.choice([0, 0, 1]))
    q += name + struct.pack(">HH", qt, 1)
    if q[11] == 1:
        q += b"\x00" + struct.pack(">HHHHH", proto.T_OPT, rng.choice([512, 4096, 65535]), 0, 0x8000, 0)
    return q


def raw_shaped(rng, userids=(0,), avoid=()):
    cmd = rng.choice([0x10, 0x20, 0x30, 0x00, 0x40, 0xF0, rng.getrandbits(8) & 0xF0])
    uid = _pick_uid(rng, userids, avoid, 16)
    n = rng.choice([0, 1, 2, 12, 13, 15, 16, 17, 100, 1200, 4096, 9000, 65000]) if rng.random() < 0.7 else rng.randint(0, 64)
    body = rand_bytes(rng, min(n, 1500)) + b"\0" * max(0, n - 1500)
    if rng.random() < 0.15:
        cmd, body = 0x10, rand_bytes(rng, 16)        # a well-formed raw login with a response that is not the right one
    fr = proto.RAW_MAGIC + bytes([cmd | (uid & 15)]) + body
    if rng.random() < 0.1:
        fr = fr[:rng.randint(0, 4)]
    return fr[:65507]


def hostile_tun_frame(rng):
    n = rng.choice([0, 1, 2, 3, 4, 5, 19, 20, 23, 24, 60, 1500, 9000, 65535]) if rng.random() < 0.7 else rng.randint(0, 40)
    return rand_bytes(rng, min(n, 3000)) + b"\0" * max(0, n - 3000)
