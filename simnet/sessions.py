"""Model-client session scenarios against the real server (workload for C10, C14, C15, C16 ...)."""
import random
import struct

from . import kernel, mclient, proto, scen
from .scen import US

QT = [proto.T_NULL, proto.T_PRIVATE, proto.T_TXT, proto.T_SRV, proto.T_MX, proto.T_CNAME, proto.T_A]
FRAGS = [2, 3, 7, 50, 100, 199, 200, 500, 1200, 2048, 3000, 4093, 4094, 4095, 8000, 65535]


def gen_session_cfg(rng, idx):
    cfg = _gen_session_cfg(rng, idx)
    if idx % 9 == 4:
        cfg["ns_auto"] = random.Random(cfg["rseed"]).choice([["full"], ["nxdomain", "full"], ["servfail", "headeronly", "full"], ["wrongtype", "full"],
                                                             ["notresponse", "cut", "full"], ["silent", "nxdomain", "full"], ["headeronly", "full"]])
        cfg["ns_ip"] = "192.0.2.55"
    if idx % 6 == 5:
        # iodined started with another tunnel MTU than its default (announced to the clients in the login reply)
        cfg["srv_mtu"] = random.Random(cfg["rseed"] ^ 0x3717).choice([201, 576, 1280, 1500])   # (what tun_setmtu() accepts: 201..1500)
    cfg["jitter"] = random.Random(cfg["rseed"] ^ 0x71773).choice([None, None, [0.3, 3000], [0.6, 15000]])    # kernel.sched_jitter
    cfg["sendfaults"] = idx % 4 == 2         # a quarter of the sessions see occasional sendto() failures on the server
    if idx % 7 == 3:
        # tunnel domains with labels of the maximum length (63) and short ones
        lab = lambda n: "".join(rng.choice("abcdefghijklmnopqrstuvwxyz0123456789") for _ in range(n))
        cfg["domain"] = rng.choice([lab(63) + ".example.com", "t." + lab(63) + ".org", lab(63) + "." + lab(63), "a.bc", lab(62) + ".x.example.com"])
    return cfg


def _gen_session_cfg(rng, idx):
    n = rng.choice([1, 1, 2, 3])
    clients = []
    for i in range(n):
        qt = QT[(idx + i) % len(QT)] if idx < 3 * len(QT) else rng.choice(QT)
        if qt in (proto.T_NULL, proto.T_PRIVATE):
            down = rng.choice([None, "r"])
        elif qt == proto.T_TXT:
            down = rng.choice([None, "t", "s", "u", "v", "r"])
        else:
            down = rng.choice([None, "t", "s", "u", "v"])
        big = qt in (proto.T_NULL, proto.T_PRIVATE, proto.T_TXT, proto.T_SRV, proto.T_MX)
        frag = rng.choice(FRAGS if big else [2, 3, 7, 50, 100, 120]) if rng.random() < 0.8 else rng.randint(2, 2000 if big else 130)
        clients.append({"qtype": qt, "down": down, "up": rng.choice(["Base32", "Base64", "Base64u", "Base128"]),
                        "lazy": rng.random() < 0.6, "frag": frag, "edns0": rng.random() < 0.5,
                        "raw": rng.random() < 0.12, "v6": rng.random() < 0.2, "nofrag": rng.random() < 0.12})
    return {"clients": clients, "nops": rng.randint(60, 160), "check_ip_off": rng.random() < 0.3,
            "ns_ip": rng.choice([None, None, "192.0.2.77"]), "wild": rng.random() < 0.25,
            "rseed": rng.getrandbits(32),
            # iodined -b: other people's queries are handed to a resolver on the same host and its replies are handed back
            "bind": idx % 5 == 3}


class Session:
    pass


BIND_PORT = 5353


OPENDNS_IP = "208.67.222.222"      # what the shim's hosts table says resolver1.opendns.com is


class ScriptedOpenDNS(kernel.Actor):
    """resolver1.opendns.com as iodined -n auto / -l external sees it: the n-th datagram it receives is answered according to
    script[n] (the last entry repeats): 'full' = A 192.0.2.55, 'nxdomain', 'servfail', 'headeronly', 'wrongtype' (a TXT record),
    'notresponse' (QR clear), 'cut' (breaks off behind the question), 'silent'."""
    def __init__(self, ip, script):
        self.ip, self.n, self.script = ip, 0, list(script)
        self.got = []

    def on_datagram(self, src, dst, data):
        self.got.append(bytes(data))
        kind = self.script[min(self.n, len(self.script) - 1)]
        self.n += 1
        labels, qt = [b"myip", b"opendns", b"com"], 1
        qid = struct.unpack(">H", bytes(data[:2]))[0] if len(data) >= 2 else 0
        try:
            m = proto.parse_msg(data)
            labels, qt = m.qd[0][0], m.qd[0][1]
        except (proto.ParseError, IndexError):
            pass
        full = proto.build_answer_raw(qid, labels, qt, [(1, bytes([192, 0, 2, 55]))])
        if kind == "silent":
            return
        if kind == "nxdomain":
            d = proto.build_answer_raw(qid, labels, qt, [], rcode=3, counts=(1, 0, 1, 0),
                                       extra=b"\xc0\x11\x00\x06\x00\x01\x00\x00\x0e\x10\x00\x1a\x03ns1\xc0\x11\x04root\xc0\x11" + bytes(20))
        elif kind == "servfail":
            d = proto.build_answer_raw(qid, labels, qt, [], rcode=2)
        elif kind == "headeronly":
            d = full[:2] + b"\x81\x85" + bytes(8)
        elif kind == "wrongtype":
            d = proto.build_answer_raw(qid, labels, qt, [(16, b"\x0bv=spf1 -all"), (1, bytes([192, 0, 2, 55]))])
        elif kind == "notresponse":
            d = full[:2] + bytes([full[2] & 0x7F]) + full[3:]
        elif kind == "cut":
            d = full[:12 + len(proto.encode_name(labels)) + 4]
        else:
            d = full
        self.kernel.transmit(dst, src, d)


class FwdResolver(kernel.Actor):
    """The DNS server iodined -b hands other people's queries to: remembers what it was handed, answers when told to."""
    def __init__(self, ip):
        self.ip = ip
        self.got = []        # (forwarding socket address, datagram)

    def on_datagram(self, src, dst, data):
        self.got.append((src, bytes(data)))


def down_capacity(qtype, frag):
    """Largest fragment payload the answer format can carry without truncation (conservative)."""
    if qtype in (proto.T_CNAME, proto.T_A):
        return min(frag, 120)
    if qtype in (proto.T_NULL, proto.T_PRIVATE):
        return min(frag, 4094)
    return min(frag, 2000)


def run_session(tag, cfg, seed, ops_filter=None, redeliver=True, setup_only=False):
    import copy
    cfg = copy.deepcopy(cfg)         # (ops change the clients' settings as they go; the caller's parameters stay what was generated)
    rng = random.Random(cfg["rseed"] ^ seed)
    sim = scen.Sim(tag, seed)
    s = Session()
    s.sim = sim
    s.cfg = cfg
    s.ok = False
    s.why = None
    k = sim.k
    k.keep_snaps = True
    if cfg.get("jitter"):
        k.sched_jitter = tuple(cfg["jitter"])
    extra = []
    if cfg.get("check_ip_off"):
        extra.append("-c")
    if cfg.get("ns_auto"):
        # -n auto: the server asks resolver1.opendns.com for its own address while starting (up to three attempts)
        s.opendns = ScriptedOpenDNS(OPENDNS_IP, cfg["ns_auto"])
        k.add_actor(OPENDNS_IP, s.opendns)
        extra += ["-n", "auto"]
    elif cfg.get("ns_ip"):
        extra += ["-n", cfg["ns_ip"]]
    if cfg.get("srv_mtu"):
        extra += ["-m", str(cfg["srv_mtu"])]
    s.fwd = None
    if cfg.get("bind"):
        extra += ["-b", str(BIND_PORT)]
        s.fwd = FwdResolver("127.0.0.1")
        k.add_actor("127.0.0.1", s.fwd)
    dom = cfg.get("domain") or scen.DOMAIN
    if cfg.get("wild"):
        # under a wildcard the clients use some label of their own choosing (1..12 characters)
        lab = "".join(rng.choice("abcdefghijklmnopqrstuvwxyz0123456789") for _ in range(rng.choice([1, 2, 4, 4, 7, 12])))
        dom = lab + "." + dom.split(".", 1)[1]
    s.qdomain = dom
    if cfg.get("wild"):
        s.srv = sim.server(domain="*." + dom.split(".", 1)[1], extra=extra)
        s.server_domain = "*." + dom.split(".", 1)[1]
    else:
        s.srv = sim.server(domain=dom, extra=extra)
        s.server_domain = dom
    if cfg.get("ns_auto"):
        sim.run_until(lambda: s.srv.tun_fd is not None or not s.srv.alive(), 15 * US)
    if not s.srv.alive():
        s.why = "server-died-at-start"
        return s
    s.mcs = []
    for i, cc in enumerate(cfg["clients"]):
        v6 = bool(cc.get("v6"))
        mc = mclient.ModelClient(("fd53::2:%x" % (i + 1)) if v6 else "10.53.2.%d" % (i + 1), (scen.SERVER_IP6 if v6 else scen.SERVER_IP, 53), dom, sim.password,
                                 random.Random(rng.getrandbits(32)), qtype=cc["qtype"])
        mc.edns0 = cc["edns0"]
        k.add_actor(mc.ip, mc)
        if not mc.connect():
            s.why = "model-login-failed"
            return s
        mc.switch_codec(proto.CODECS[cc["up"]])
        if cc["down"]:
            mc.option(cc["down"].encode() if isinstance(cc["down"], str) else cc["down"])     # str after a JSON round trip (replay)
        if cc["lazy"]:
            mc.option(b"l")
        if not cc.get("nofrag"):
            mc.set_frag(cc["frag"])          # (a session that never sets a size stays on the conservative default)
        if cc.get("raw"):
            # a session that switched to raw UDP mode but keeps talking DNS as well (a hostile or odd client may)
            mc.raw_login()
            k.run(k.now + 50000)
        mc.cc = cc
        s.mcs.append(mc)
    s.server_tun_ip = sim.tun_net.split("/")[0]
    s.ident = 1
    s.offered_down = []
    s.sent_up = []
    s.rng = rng
    if setup_only:
        s.ok = True
        return s
    ops = ["ping"] * 6 + ["up"] * 3 + ["down"] * 5 + ["burst", "idle", "id0", "aux", "hs", "badip", "downsoon", "upsmall", "rawop", "refrag", "refrag", "dupsoon", "dupsoon", "c2c", "c2c", "reborn", "lazyoff", "reflect", "reflect", "dupv", "staleack"]
    if cfg.get("sendfaults"):
        ops += ["sendfault"] * 3 + ["dupfault"] * 2
    if s.fwd is not None:
        ops += ["fwd"] * 4
    if redeliver:
        ops += ["dup"] * 3
    if ops_filter:
        ops = [o for o in ops if ops_filter(o)]
    s.ops_done = {}
    for _ in range(cfg["nops"]):
        if not s.srv.alive() or k.stalled:
            break
        mc = rng.choice(s.mcs)
        op = rng.choice(ops)
        s.ops_done[op] = s.ops_done.get(op, 0) + 1
        do_op(s, mc, op, rng)
    for mc in s.mcs:
        if s.srv.alive():
            mc.pump(2 * US, 150000)
    s.ok = True
    return s


def _first_char(d):
    try:
        labels, _ = proto.read_name(d, 12)
        return labels[0][:1] if labels and labels[0] else b"?"
    except proto.ParseError:
        return b"?"


def mk_frame(s, mc, direction, rng, size=None):
    ident = (s.ident << 8) | (len(s.offered_down) & 0xFF)
    s.ident += 1
    if size is None:
        size = rng.choice([32, 40, 60, 100, 200, 576, 1000, 1134])
    style = rng.choice(["random", "text", "zeros"])
    if direction == "down":
        return proto.make_frame(s.server_tun_ip, mc.tun_ip, ident, size, style, rng)
    return proto.make_frame(mc.tun_ip, s.server_tun_ip, ident, size, style, rng)


def _resolver_replies_to_all(s, rng):
    k = s.sim.k
    got, s.fwd.got[:] = list(s.fwd.got), []
    for (fsrc, fd) in got:
        try:
            m = proto.parse_msg(fd)
            if rng.random() < 0.3:
                # a large reply (forwarded queries advertise 4096 bytes by EDNS0): several TXT records, 600 .. 3000 bytes in all
                rrs = [(16, bytes([200]) + bytes(rng.getrandbits(8) for _ in range(200))) for _ in range(rng.choice([3, 5, 9, 14]))]
                body = proto.build_answer_raw(m.id, m.qd[0][0], m.qd[0][1], rrs)
            else:
                body = proto.build_answer_raw(m.id, m.qd[0][0], m.qd[0][1], [] if rng.random() < 0.3 else [(m.qd[0][1], bytes(rng.getrandbits(8) for _ in range(4)))],
                                              rcode=rng.choice([0, 0, 3]))
        except (proto.ParseError, IndexError, ValueError):
            continue
        k.transmit(("127.0.0.1", BIND_PORT), fsrc, body)
        k.run(k.now + 2000)


def do_op(s, mc, op, rng):
    k = s.sim.k
    if op == "ping":
        mc.ping(wait_us=rng.choice([1000, 30000, 200000]))
    elif op in ("up", "upsmall"):
        f = mk_frame(s, mc, "up", rng, size=rng.choice([32, 60]) if op == "upsmall" else None)
        s.sent_up.append(f)
        mc.send_frame(f, wait_us=150000)
    elif op == "c2c":
        # one client sends to another client's tunnel address while that one has a query parked and the sender has
        # downstream data pending of its own
        others = [o for o in s.mcs if o is not mc]
        if others:
            o = rng.choice(others)
            if o.lazy:
                o.query(o.ping_labels())
                k.run(k.now + 3000)
            fa = mk_frame(s, mc, "down", rng, size=rng.choice([600, 1000]))
            s.offered_down.append(fa)
            k.offer_tun("srv", fa, s.ident)
            k.run(k.now + 2000)
            ident = (s.ident << 8) | 0xC2
            s.ident += 1
            f = proto.make_frame(mc.tun_ip, o.tun_ip, ident, rng.choice([40, 60, 100]), "random", rng)
            s.c2c = getattr(s, "c2c", [])
            s.c2c.append(f)
            mc.send_frame(f, wait_us=100000)
            o.pump(400000, 50000)
            mc.pump(400000, 50000)
    elif op == "down":
        big = mc.fragsize >= 2047 and mc.qtype in (proto.T_NULL, proto.T_PRIVATE) and rng.random() < 0.5
        # (fragments of 2 .. 4 KB are the largest answers the server's answer cache holds; beyond that nothing is cached)
        f = mk_frame(s, mc, "down", rng, size=rng.choice(([2100, 3000, 3500, 4000] if mc.fragsize <= 4094 else []) + [4200, 4500, 6000, 9000]) if big else None)
        if big:
            f = proto.make_frame(s.server_tun_ip, mc.tun_ip, (s.ident << 8) | 0xB1, len(f), "random", rng)
        s.offered_down.append(f)
        k.offer_tun("srv", f, s.ident)
        mc.pump(rng.choice([100000, 600000, 1500000]), rng.choice([20000, 100000]))
    elif op == "downsoon":
        # a frame that arrives on the server tun at an odd instant (e.g. inside the 20 ms real-soon window)
        f = mk_frame(s, mc, "down", rng)
        s.offered_down.append(f)
        k.after(rng.choice([1, 500, 5000, 15000, 25000]), k.offer_tun, "srv", f, s.ident)
        f2 = mk_frame(s, mc, "up", rng, size=40)
        s.sent_up.append(f2)
        mc.send_frame(f2, wait_us=60000)
        mc.pump(300000, 50000)
    elif op == "burst":
        for _ in range(rng.randint(3, 6)):
            mc.query(mc.ping_labels())
            if rng.random() < 0.5:
                k.run(k.now + rng.choice([10, 2000]))
        k.run(k.now + 100000)
        mc.drain()
    elif op == "dup":
        alt = None
        if s.cfg.get("check_ip_off") and rng.random() < 0.5:
            alt = ("fd53::3:%x" if ":" in mc.ip else "10.53.3.%d") % rng.randint(1, 3)     # same address family as the session
        for _ in range(rng.randint(1, 4)):
            if rng.random() < 0.25:
                # the name of a query that may still be held, asked again under another record type from another port
                mc.query(mc.ping_labels())
                k.run(k.now + rng.choice([10, 2000]))
                mc.redeliver(back=1, new_id=True, src_ip=alt, sport=rng.choice([40007, 40008]),
                             retype=rng.choice([t for t in proto.QTYPES.values() if t != mc.qtype]))
            else:
                mc.redeliver(back=rng.randint(1, min(6, max(1, len(mc.dgrams)))), new_id=rng.random() < 0.5,
                             src_ip=alt, swapcase=rng.random() < 0.3)
            k.run(k.now + rng.choice([10, 5000, 50000]))
        mc.drain()
    elif op == "lazyoff":
        # what the client does when lazy mode does not work through its relay: back to immediate mode while the server still
        # holds a query, then ordinary traffic (a one-fragment packet first, or a ping)
        if mc.lazy:
            mc.query(mc.ping_labels())
            k.run(k.now + rng.choice([1000, 30000]))
            mc.option(b"i")
            for _ in range(rng.randint(2, 4)):
                if rng.random() < 0.6:
                    f = mk_frame(s, mc, "up", rng, size=rng.choice([32, 40]))
                    s.sent_up.append(f)
                    mc.send_frame(f, wait_us=150000)
                else:
                    mc.ping(wait_us=rng.choice([30000, 200000]))
            k.run(k.now + 700000)
            mc.drain()
            if rng.random() < 0.5:
                mc.option(b"l")
    elif op == "fwd":
        # somebody else's query for a name that has nothing to do with the tunnel, then (usually) the resolver's reply to one of
        # the queries it was handed - complete, header-only, twice, or under an id nobody used
        fw = s.fwd
        who = "10.77.0.%d" % rng.randint(1, 4)
        qid = rng.choice([0, 0, 1, 2, 3, 0x1234, rng.randrange(65536)])
        name = rng.choice([[b"www", b"example", b"org"], [b"mail", b"example", b"net"], [b"a", b"b"], [b"xn--q", b"example", b"com"]])
        k.transmit((who, rng.choice([53, 1024, 40000 + rng.randrange(8)])), (scen.SERVER_IP, 53), proto.build_query(qid, name, rng.choice([1, 28, 15, 16, 255])))
        k.run(k.now + 3000)
        for _ in range(rng.choice([0, 1, 1, 2])):
            if not fw.got:
                break
            j = rng.randrange(len(fw.got))
            fsrc, fd = fw.got[j] if rng.random() < 0.2 else fw.got.pop(j)
            try:
                m = proto.parse_msg(fd)
                body = proto.build_answer_raw(m.id, m.qd[0][0], m.qd[0][1], [(1, bytes(rng.getrandbits(8) for _ in range(4)))])
                if rng.random() < 0.3:
                    # a large reply: several TXT records, 600 .. 3000 bytes in all
                    body = proto.build_answer_raw(m.id, m.qd[0][0], m.qd[0][1],
                                                  [(16, bytes([200]) + bytes(rng.getrandbits(8) for _ in range(200))) for _ in range(rng.choice([3, 5, 9, 14]))])
            except (proto.ParseError, IndexError, ValueError):
                continue
            r = rng.random()
            if r < 0.2:
                body = body[:12]                     # header only (REFUSED / FORMERR answers need not echo the question)
                body = body[:3] + bytes([0x85]) + bytes(8)
            elif r < 0.3:
                body = struct.pack(">H", rng.choice([0, 7, rng.randrange(65536)])) + body[2:]      # an id nobody used (or 0)
            k.transmit(("127.0.0.1", BIND_PORT), fsrc, body)
            k.run(k.now + 3000)
    elif op == "reflect":
        # Datagrams with the QR bit set arriving on the server's port: one of the server's own answers bounced back by a
        # misconfigured host, a "response" whose question section spells a tunnel request, a delegation check marked as a
        # response.  A response is not a query: nothing is owed for it and nothing may be sent because of it.
        src_ip = rng.choice([None, None, ("fd53::7:9" if ":" in mc.ip else "10.77.0.9")])
        sport = rng.choice([None, None, 53, 40777])
        for _ in range(rng.randint(1, 3)):
            w = rng.randrange(5)
            d = None
            if w == 0:
                mine = [x[3] for x in mc.inbox[-6:] if x[3][:3] != proto.RAW_MAGIC and len(x[3]) > 12 and (x[3][2] & 0x80)]
                if mine:
                    d = bytes(rng.choice(mine))
            if d is None:
                if w <= 1:
                    labels, qt = mc.ping_labels(), mc.qtype
                elif w == 2:
                    labels, qt = proto.msg_version(mc.domain, mc.new_cmc()), mc.qtype
                elif w == 3:
                    labels, qt = rng.choice([mc.domain, [b"xyz"] + mc.domain]), proto.T_NS
                else:
                    labels, qt = proto.msg_downcheck(mc.domain, b"t", 1, mc.new_cmc()), mc.qtype
                d = bytearray(proto.build_query(mc.new_id(), labels, qt, edns0=rng.random() < 0.3))
                d[2] |= rng.choice([0x80, 0x84, 0x81])
                d[3] |= rng.choice([0x00, 0x80, 0x83])
                d = bytes(d)
            mc.send_raw_dgram(d, sport, src_ip)
            k.run(k.now + rng.choice([10, 3000, 30000]))
        mc.drain()
    elif op == "idle":
        k.run(k.now + rng.choice([100000, 1000000, 5000000]))
        mc.drain()
    elif op == "id0":
        mc.query(mc.ping_labels(), qid=0)
        k.run(k.now + 50000)
    elif op == "aux":
        which = rng.randrange(5)
        if which == 0:
            mc.ask(mc.domain, proto.T_NS, timeout_us=300000)
        elif which == 1:
            mc.ask([b"xy" + bytes([97 + rng.randrange(26)])] + mc.domain, proto.T_NS, timeout_us=300000)
            if s.cfg.get("wild"):
                # under a wildcard every first label is a tunnel domain of its own: delegations of other lengths get checked too
                other = bytes(rng.choice(b"abcdefghijklmnopqrstuvwxyz0123456789") for _ in range(rng.choice([1, 2, 3, 5, 8, 20, 63])))
                mc.ask([other] + mc.domain[1:], proto.T_NS, timeout_us=300000)
                mc.ask([b"pq", other] + mc.domain[1:], proto.T_NS, timeout_us=300000)
        elif which == 2:
            mc.ask([rng.choice([b"ns", b"NS", b"nS"])] + mc.domain, proto.T_A, timeout_us=300000)
        elif which == 3:
            mc.ask([rng.choice([b"www", b"WwW"])] + mc.domain, proto.T_A, timeout_us=300000)
        elif rng.random() < 0.5:
            mc.ask([b"abc", b"def"] + mc.domain, proto.T_NS, timeout_us=300000)
        else:
            # a resolver checking the delegation for a full-length tunnel name (data queries are ~250 characters)
            room = rng.choice([253, 252, 250, 245, 240, 239, 238, 237, 200]) - len(b".".join(mc.domain)) - 1
            labels = []
            while room > 0:
                l = min(63, room, rng.choice([63, 63, 50, 20]))
                if room - l == 1:
                    l -= 1
                if l <= 0:
                    break
                labels.append(bytes(rng.choice(b"abcdefghijklmnopqrstuvwxyz012345") for _ in range(l)))
                room -= l + 1
            if labels:
                mc.ask(labels + mc.domain, proto.T_NS, timeout_us=300000)
        if s.fwd is not None and rng.random() < 0.6:
            # the local DNS server replies to whatever it was handed in the meantime
            _resolver_replies_to_all(s, rng)
    elif op == "hs":
        which = rng.randrange(8)
        if which == 0:
            mc.ask(proto.msg_upcheck(mc.domain, rng.choice([b"aAbBcC0129-", b"aA\xe4\xfb-", b"aA+_"]), mc.new_cmc()), timeout_us=300000)
        elif which == 1:
            mc.ask(proto.msg_downcheck(mc.domain, rng.choice([b"t", b"s", b"u", b"v", b"r", b"x"]), rng.choice([1, 1, 2]), mc.new_cmc()), timeout_us=300000)
        elif which == 2:
            sz = rng.choice([0, 1, 2, 3, 100, 252, 253, 254, 255, 256, 505, 506, 507, 1200, 2047])
            mc.ask(proto.msg_fragprobe(mc.domain, mc.userid, sz, proto.BASE32.encode(bytes(rng.getrandbits(8) for _ in range(40)))), timeout_us=300000)
        elif which == 3:
            mc.ip_request()
        elif which == 6:
            # the session asks for an upstream codec the server does not know (every value but 5, 6, 7 and 26), or one it has
            m_ = mc.ask(proto.msg_switch_codec(mc.domain, mc.userid, rng.choice([0, 1, 4, 8, 9, 25, 27, 31, 5]), mc.new_cmc()), timeout_us=300000)
            if m_ is not None and mc.payload(m_) == b"Base32":
                mc.up = proto.BASE32
        elif which == 7:
            # ... or for an option nobody defined
            mc.ask(proto.msg_option(mc.domain, mc.userid, rng.choice([b"x", b"q", b"0", b"z", b"-"]), mc.new_cmc()), timeout_us=300000)
        elif which == 4:
            mc.ask(proto.msg_version(mc.domain, mc.new_cmc(), rng.choice([0x00000501, 0x00000502 ^ 0x100])), timeout_us=300000)
        else:
            mc.ask(proto.msg_setfrag(mc.domain, mc.userid, rng.choice([0, 1]), mc.new_cmc()), timeout_us=300000)
    elif op == "reborn":
        # Every session falls silent for more than a minute; then the clients come back, are given (recycled) slots and
        # negotiate again - with another fragment size - and some datagrams of the *previous* sessions arrive once more
        # (a resolver re-sending old queries).  Whatever the server kept from the earlier occupants of the slots (cached
        # answers, queued packets, fingerprints) must not reach the new sessions.
        old = []
        for m2 in s.mcs:
            # the last thing each old session does is fetch the beginning of a download (so that the answers the server
            # remembers carry data, cut to the old fragment size)
            for _ in range(rng.randint(1, 2)):
                f = proto.make_frame(s.server_tun_ip, m2.tun_ip, (s.ident << 8) | (len(s.offered_down) & 0xFF), rng.choice([600, 1000, 1134]), "random", rng)
                s.ident += 1
                s.offered_down.append(f)
                k.offer_tun("srv", f, None)
            k.run(k.now + 3000)
            for _ in range(rng.randint(2, 5)):
                m2.ping(wait_us=20000)
            m2.drain()
            old += [(m2, d) for d in m2.dgrams[-8:] if _first_char(d) in b"pP0123456789abcdefABCDEF"]
        k.run(k.now + rng.choice([61, 62, 75]) * US)
        if rng.random() < 0.5:
            # before anybody reconnects: a host speaking another protocol version says hello (refused), and the old clients -
            # which have not noticed that their sessions ran out - log in again with the challenge they were given long ago, ask for
            # data and are sent packets.  An expired session stays expired; whatever is sent to it still respects its settings.
            st_ = mclient.ModelClient("10.53.4.%d" % rng.randint(1, 200), (scen.SERVER_IP, 53), s.qdomain, s.sim.password, random.Random(rng.getrandbits(32)), qtype=mc.qtype)
            k.add_actor(st_.ip, st_)
            for _v in range(rng.randint(1, 3)):
                st_.version(version=rng.choice([0x00000501, 0x00000503, 0, 0xFFFFFFFF]))
            for m2 in s.mcs:
                m2.drain()
                keep_ = (m2.login_reply, m2.tun_ip)
                m2.login()
                m2.login_reply, m2.tun_ip = keep_
                f = proto.make_frame(s.server_tun_ip, m2.tun_ip, (s.ident << 8) | 0xE1, rng.choice([600, 1000]), "random", rng)
                s.ident += 1
                s.offered_down.append(f)
                k.offer_tun("srv", f, None)
                for _ in range(rng.randint(2, 4)):
                    m2.ping(wait_us=30000)
                m2.drain()
        for m2 in s.mcs:
            m2.drain()
            m2.replies.clear()
            if not m2.connect():
                continue
            m2.up = proto.BASE32
            m2.up_seq = 0
            m2.dn_seq = 0
            m2.dn_frag = 0
            m2.in_buf = b""
            m2.lazy = False
            cc = m2.cc
            m2.switch_codec(proto.CODECS[cc["up"]])
            if cc["down"]:
                m2.option(cc["down"].encode() if isinstance(cc["down"], str) else cc["down"])
            if cc["lazy"]:
                m2.option(b"l")
            big = m2.qtype in (proto.T_NULL, proto.T_PRIVATE, proto.T_TXT, proto.T_SRV, proto.T_MX)
            # mostly a smaller size than before (a remembered answer of the old session would then be too large)
            if cc["frag"] > 50:
                cc["frag"] = rng.choice([max(2, cc["frag"] // 2), max(2, cc["frag"] // 5), 20])
            else:
                cc["frag"] = rng.choice([200, 1000] if big else [100, 120])
            m2.set_frag(cc["frag"])
        rng.shuffle(old)
        for (m2, d) in old[:rng.randint(1, 6)]:
            m2.send_raw_dgram(d)
            k.run(k.now + rng.choice([2000, 20000]))
        for m2 in s.mcs:
            m2.ping(wait_us=30000)
    elif op == "sendfault":
        # one of the server's next few sendto() calls on its DNS socket fails (ENOBUFS, EPERM from a firewall rule, EAGAIN):
        # nothing leaves, and whatever bookkeeping preceded the call must not produce surplus or wrong answers later
        k.send_faults[:] = [f for f in k.send_faults if f["count"] > 0]
        if len(k.send_faults) < 2:
            k.send_faults.append({"proc": "srv", "dst_port": None, "errno": rng.choice([105, 1, 11]), "count": 1,
                                  "skip": rng.choice([0, 0, 1, 1, 2, 3])})
    elif op == "staleack":
        # A one-fragment packet is fetched; the next, larger packet reaches the server while it holds no query of the session
        # (so it waits unsent); the first query to arrive then carries an acknowledgement that happens to name that packet's
        # sequence number and fragment 0 - what a query from eight packets ago looks like after the 3-bit counter wrapped.
        # Nothing of the waiting packet has been sent, so there is nothing to acknowledge: it starts with fragment 0.
        mc.drain()
        f1 = mk_frame(s, mc, "down", rng, size=rng.choice([32, 40]))
        s.offered_down.append(f1)
        k.offer_tun("srv", f1, s.ident)
        mc.pump(300000, 30000)
        mc.drain()
        k.run(k.now + 100000)
        f2 = proto.make_frame(s.server_tun_ip, mc.tun_ip, (s.ident << 8) | 0x5A, rng.choice([600, 1000]), "random", rng)
        s.ident += 1
        s.offered_down.append(f2)
        k.offer_tun("srv", f2, s.ident)
        k.run(k.now + rng.choice([2000, 30000]))
        mc.query(proto.msg_ping(mc.domain, mc.userid, (mc.dn_seq + 1) & 7, 0, mc.new_cmc()))
        k.run(k.now + 30000)
        mc.pump(rng.choice([400000, 1200000]), 40000)
    elif op == "dupv":
        # a relay delivers the session's own version request once more, long after the handshake (byte for byte; same or new
        # DNS id).  Whoever that makes the server greet, the established session's settings stay what they were.
        vd = getattr(mc, "v_dgram", None)
        if vd is not None:
            if rng.random() < 0.5:
                vd = struct.pack(">H", mc.new_id()) + vd[2:]
            mc.send_raw_dgram(vd)
            k.run(k.now + rng.choice([3000, 30000]))
            mc.drain()
            f = mk_frame(s, mc, "down", rng, size=rng.choice([400, 1000]))
            f = proto.make_frame(s.server_tun_ip, mc.tun_ip, (s.ident << 8) | 0xD7, len(f), "random", rng)
            s.offered_down.append(f)
            k.offer_tun("srv", f, s.ident)
            mc.pump(rng.choice([300000, 1000000]), 40000)
    elif op == "dupfault":
        # A held query whose copy (new id) the server remembers as well is answered because a packet arrives on the tun device
        # (or on the 20 ms timer) - two sends - and the operating system refuses the first or the second of them.  Whatever the
        # server keeps or rolls back, later events must not produce an answer for a datagram that already had one.
        mc.drain()
        if mc.lazy:
            mc.query(mc.ping_labels())
            k.run(k.now + rng.choice([2000, 6000]))
            mc.redeliver(back=1, new_id=True, sport=rng.choice([None, 40001]))
            k.run(k.now + 3000)
            k.send_faults[:] = [f for f in k.send_faults if f["count"] > 0]
            k.send_faults.append({"proc": "srv", "dst_port": None, "errno": rng.choice([105, 1, 11]), "count": 1, "skip": rng.choice([1, 1, 0])})
            if rng.random() < 0.6:
                f = mk_frame(s, mc, "down", rng, size=rng.choice([60, 200]))
                s.offered_down.append(f)
                k.offer_tun("srv", f, s.ident)
            else:
                f = mk_frame(s, mc, "up", rng, size=40)
                s.sent_up.append(f)
                mc.up_seq = (mc.up_seq + 1) & 7
                mc.query(mc.data_labels(mc.up_seq, 0, 1, proto.deflate(f)))
            k.run(k.now + 50000)
            k.send_faults[:] = []
            for _ in range(3):
                mc.ping(wait_us=30000)
            mc.drain()
    elif op == "dupsoon":
        # an impatient relay repeats the held ping while it sits in the server's 20 ms send-real-soon slot:
        # ping (held), then the last fragment of an upstream packet with nothing to send downstream, then the ping
        # again with a new id a few ms later, then an ordinary ping
        mc.drain()
        mc.query(mc.ping_labels())
        k.run(k.now + rng.choice([3000, 8000]))
        f = mk_frame(s, mc, "up", rng, size=rng.choice([32, 40]))
        s.sent_up.append(f)
        mc.up_seq = (mc.up_seq + 1) & 7
        mc.query(mc.data_labels(mc.up_seq, 0, 1, proto.deflate(f)))
        k.run(k.now + rng.choice([2000, 5000, 12000]))
        if rng.random() < 0.5:
            # variant: a second small upstream packet follows at once (the first data query is now the one parked for the
            # send-real-soon sweep), and the relay repeats that *data* query with a new id before the sweep answers it
            f2 = mk_frame(s, mc, "up", rng, size=rng.choice([32, 40]))
            s.sent_up.append(f2)
            mc.up_seq = (mc.up_seq + 1) & 7
            mc.query(mc.data_labels(mc.up_seq, 0, 1, proto.deflate(f2)))
            k.run(k.now + rng.choice([500, 2000, 6000]))
            mc.redeliver(back=2, new_id=True, sport=rng.choice([None, None, 40001]))
            k.run(k.now + 40000)
            mc.drain()
            mc.ping(wait_us=30000)
            mc.ping(wait_us=30000)
            return
        for _ in range(rng.randint(1, 2)):
            mc.redeliver(back=2, new_id=True, sport=rng.choice([None, None, 40001]))
            k.run(k.now + rng.choice([500, 3000]))
        k.run(k.now + 40000)
        mc.drain()
        mc.ping(wait_us=30000)
        mc.ping(wait_us=30000)
    elif op == "refrag":
        # the fragment size is changed while a multi-fragment packet is in flight and its current fragment is
        # still unacknowledged; the server then has to re-send under the *new* limit
        f = mk_frame(s, mc, "down", rng, size=rng.choice([600, 1000, 1134]))
        s.offered_down.append(f)
        k.offer_tun("srv", f, s.ident)
        stale = (mc.dn_seq, mc.dn_frag)
        mc.ping(wait_us=30000)                       # fetches the first fragment (or leaves a query waiting for it)
        if rng.random() < 0.5:
            mc.ping(wait_us=30000)                   # ... and acknowledges it, fetching the second
            stale = (mc.dn_seq, (mc.dn_frag - 1) & 15)
        cap = down_capacity(mc.qtype, 4096)
        newf = rng.choice([2, 5, 17, 40, 80, 150, 300, 700])
        mc.set_frag(min(newf, cap))
        for _ in range(rng.randint(1, 3)):
            # poll without acknowledging the fragment in flight
            mc.query(proto.msg_ping(mc.domain, mc.userid, stale[0], stale[1], mc.new_cmc()))
            k.run(k.now + rng.choice([5000, 30000]))
            mc.drain()
        mc.pump(rng.choice([300000, 1000000]), 40000)
    elif op == "rawop":
        if mc.cc.get("raw"):
            w = rng.randrange(3)
            # the raw frames leave from the client's own socket, which need not be where its DNS queries appear to come
            # from (a resolver in between): half of the time they carry another source port
            alt = rng.choice([None, None, 40123, (mc.sport % 60000) + 1027])
            if rng.random() < 0.5:
                mc.query(mc.ping_labels())          # (in lazy mode this one is being held when the raw frame arrives)
                k.run(k.now + rng.choice([1000, 5000]))
            if w == 0:
                mc.send_raw_dgram(proto.raw_frame(proto.RAW_PING, mc.userid), sport=alt)
            elif w == 1:
                f = mk_frame(s, mc, "up", rng, size=60)
                s.sent_up.append(f)
                mc.send_raw_dgram(proto.raw_frame(proto.RAW_DATA, mc.userid, proto.deflate(f)), sport=alt)
            else:
                mc.send_raw_dgram(proto.raw_frame(proto.RAW_LOGIN, mc.userid, proto.login_hash(mc.password, (mc.challenge + 1) & 0xFFFFFFFF)), sport=alt)
            k.run(k.now + rng.choice([1000, 30000]))
        mc.ping(wait_us=20000)
    elif op == "badip":
        other = rng.choice([u for u in range(16) if u != mc.userid])
        r_ = rng.random()
        if r_ < 0.3:
            mc.ask(mc.ping_labels(userid=other), timeout_us=200000)
        elif r_ < 0.5:
            mc.ask(mc.data_labels(1, 0, 1, b"hello", userid=other), timeout_us=200000)
        elif r_ < 0.62:
            # the commands that change a session's settings, naming somebody else's slot (refused: one answer, not two)
            mc.ask(proto.msg_switch_codec(mc.domain, other, rng.choice([5, 6, 26, 7]), mc.new_cmc()), timeout_us=200000)
        elif r_ < 0.74:
            mc.ask(proto.msg_option(mc.domain, other, rng.choice([b"t", b"s", b"l", b"i", b"r"]), mc.new_cmc()), timeout_us=200000)
        elif r_ < 0.86:
            mc.ask(proto.msg_setfrag(mc.domain, other, rng.choice([50, 200, 1200]), mc.new_cmc()), timeout_us=200000)
        elif r_ < 0.93:
            mc.ask(proto.msg_ip(mc.domain, other, mc.new_cmc()), timeout_us=200000)
        else:
            mc.ask(proto.msg_fragprobe(mc.domain, other, rng.choice([100, 500]), proto.BASE32.encode(bytes(rng.getrandbits(8) for _ in range(30)))), timeout_us=200000)
