"""Scenario assembly for Engine A: real iodined / iodine processes on the simulated OS plus actors."""
import os
import shutil
import struct
import socket

from vflib import core, simrun
from . import kernel as K
from . import proto, relay

SERVER_IP = "10.53.0.1"
SERVER_IP6 = "fd53::1"
RELAY_IP = "10.53.0.20"
RELAY_EXTRA = ["10.53.0.21", "10.53.0.22"]
DOMAIN = "t.example.com"
US = 1000000


class Sim:
    def __init__(self, tag, seed, epoch=None):
        self.dir = simrun.workdir(tag)
        ep = epoch if epoch is not None else 1700000000 + (seed * 7919) % 100000000
        self.k = K.Kernel(seed=seed, epoch=ep, workdir=self.dir)
        self.env = core.asan_env()
        self.srv_bin, self.cli_bin = simrun.binaries()
        # memcheck pass: the (non-sanitized) programs run under valgrind, the first error ends the process with status 88
        self.wrap = (["valgrind", "-q", "--error-exitcode=88", "--exit-on-first-error=yes", "--track-origins=no",
                      "--partial-loads-ok=yes"] if simrun.memcheck() else [])
        self.domain = DOMAIN
        self.password = b"secret"
        self.tun_net = "10.9.0.1/24"
        self.fdmode = None          # None | "desc" | "high": how the simulated OS numbers the descriptors it hands out

    def close(self):
        self.k.shutdown()
        shutil.rmtree(self.dir, ignore_errors=True)

    def __enter__(self):
        return self

    def __exit__(self, *a):
        self.close()

    def server(self, tun=None, domain=None, password=None, extra=(), name="srv", ips=(SERVER_IP, SERVER_IP6), password_on_stdin=False,
               stdin_closed=False, residue=None, extra_after=()):
        if tun:
            self.tun_net = tun
        if domain:
            self.domain = domain
        if password is not None:
            self.password = password
        argv = self.wrap + [self.srv_bin, "-f"] + list(extra)
        env = {"IODINED_PASS": ""}
        stdin_data = None
        if password_on_stdin and self.password:
            env = {"IODINED_PASS": None}           # unset: iodined then asks for the password on standard input
            stdin_data = bytes(self.password) + b"\n"
        elif self.password and b"\0" not in self.password:
            argv += ["-P", self.password]
        argv += list(extra_after)            # (options written behind the password option on the command line)
        argv += [self.tun_net, self.domain]
        if self.fdmode:
            env = dict(env, SIMNET_FDMODE=self.fdmode)
        return self.k.spawn(name, "server", argv, list(ips), env=env, san_env=self.env, stdin_data=stdin_data, stdin_closed=stdin_closed, residue=residue)

    def client(self, name, ip, nameserver, opts=(), password=None, domain=None, absent=None):
        pw = self.password if password is None else password
        argv = self.wrap + [self.cli_bin, "-f"] + list(opts) + ["-P", pw, nameserver, domain or self.domain]
        env = {"IODINE_PASS": ""}
        if absent:
            env["SIMNET_ABSENT"] = ":".join(absent)      # tools this host does not have (access() says ENOENT)
        if self.fdmode:
            env["SIMNET_FDMODE"] = self.fdmode
        return self.k.spawn(name, "client", argv, [ip], env=env, san_env=self.env)

    def fault_relay(self, profile, ip=RELAY_IP, seed=0):
        import random
        r = relay.FaultRelay(ip, (SERVER_IP, 53), random.Random(seed), profile, extra_ips=RELAY_EXTRA)
        self.k.add_actor(ip, r)
        for x in RELAY_EXTRA:
            self.k.actors[x] = r
        return r

    # ------------------------------------------------------------------
    def run_until(self, pred, limit_us, step_us=50000):
        """Advance virtual time until pred() or the limit; returns True if pred became true."""
        end = self.k.now + limit_us
        while self.k.now < end and self.k.stalled is None:
            if pred():
                return True
            self.k.run(min(self.k.now + step_us, end))
        return pred()

    def client_in_tunnel(self, p):
        """True once the client's select() includes its tun fd (client_tunnel() reached)."""
        if p.state != "wait":
            return False
        return p.tun_fd is not None and p.tun_fd in p.wait_fds

    def health(self, p):
        """running | exit:<n> | sanitizer:<key> | stalled | signal:<n>"""
        if p.state == "stalled":
            return "stalled"
        if p.state == "recvblock" and self.k.now - p.block_since > 5 * US:
            # blocked for (virtual) seconds in a receive call on a socket with nothing to deliver: the program's main loop is
            # not running any more
            return "stalled"
        if getattr(p, "inv_bad", None) is not None and getattr(self, "judge_table_invariants", False):
            # the users[] table failed one of its structural invariants at a select(): reported like a sanitizer finding
            return "sanitizer:table-invariant:bits_%04x" % p.inv_bad[2]
        if p.alive():
            return "running"
        st = p.exit_status
        rep = self.k.sanitizer_report(p)
        if rep:
            key, _ = core.sanitizer_key(rep)
            return "sanitizer:%s" % (key or "unknown")
        if st is not None and st < 0:
            return "signal:%d" % (-st)
        if st in (98, 99):
            return "shimfail:%d" % st          # the simulated-OS shim gave up (harness problem, not a verdict)
        return "exit:%s" % st


def events(k, kind, who=None):
    for ev in k.log:
        if ev[1] == kind and (who is None or ev[2] == who):
            yield ev
