"""Model client: an independent Python implementation of the client side of protocol 0x00000502
(written from doc/proto_00000502.txt), used as a workload generator that can put a server session
into any state and emit adversarial variants.  It is driven synchronously by scenario code, which
advances the kernel between steps."""
import struct

from .kernel import Actor
from . import proto
from .scen import US


class ModelClient(Actor):
    def __init__(self, ip, server, domain, password, rng, qtype=proto.T_NULL, sport=None):
        Actor.__init__(self, ip)
        self.server = server
        self.domain = proto.labels_from_dotted(domain.encode() if isinstance(domain, str) else domain)
        self.password = password
        self.rng = rng
        self.qtype = qtype
        self.sport = sport or rng.randint(1025, 65000)
        self.inbox = []              # (time, src, dst, data)
        self.replies = {}            # dns id -> [Msg]
        self.raw_in = []
        self.next_id = rng.randint(1, 60000)
        self.cmc = rng.randint(0, 65535)
        self.userid = None
        self.challenge = None
        self.login_reply = None
        self.tun_ip = None
        self.server_tun_ip = None
        self.up = proto.BASE32
        self.down = "T"
        self.lazy = False
        self.fragsize = 100
        self.edns0 = False
        self.datacmc = 0
        # tunnel state
        self.up_seq = 0
        self.dn_seq = 0
        self.dn_frag = 0
        self.in_buf = b""
        self.in_seq_seen = None
        self.delivered = []          # frames reassembled from downstream
        self.down_events = []        # (time, qid, header dict, payload bytes) for every data-header answer
        self.last_up_ack = (0, 0)
        self.sent = []               # (time, id, labels, qtype) of every query sent
        self.dgrams = []             # recent query datagrams (for re-delivery)
        self.final_dgrams = []
        self.strict_match = False    # see on_datagram
        self.my_ids = set()
        self.answered_ids = set()
        self.stray = []

    # ------------------------------------------------------------------ io
    def on_datagram(self, src, dst, data):
        self.inbox.append((self.kernel.now, src, dst, data))
        if data[:3] == proto.RAW_MAGIC:
            self.raw_in.append((self.kernel.now, src, data))
            return
        try:
            m = proto.parse_msg(data)
        except proto.ParseError:
            return
        if self.strict_match:
            # behave like a stub resolver: only the first answer to an id this client itself issued from
            # this port counts; anything else (answers to re-delivered copies) is set aside
            if dst[1] != self.sport or m.id not in self.my_ids or m.id in self.answered_ids:
                self.stray.append((self.kernel.now, dst, m))
                return
            self.answered_ids.add(m.id)
        self.replies.setdefault(m.id, []).append(m)

    def new_id(self):
        self.next_id = (self.next_id + 7727) & 0xFFFF or 7727
        return self.next_id

    def new_cmc(self):
        self.cmc = (self.cmc + 1) & 0xFFFF
        return self.cmc

    def query(self, labels, qtype=None, qid=None, sport=None, src_ip=None, edns0=None):
        qid = self.new_id() if qid is None else qid
        qt = self.qtype if qtype is None else qtype
        data = proto.build_query(qid, labels, qt, edns0=self.edns0 if edns0 is None else edns0)
        self.sent.append((self.kernel.now, qid, labels, qt))
        if sport is None and src_ip is None:
            self.my_ids.add(qid)
            self.answered_ids.discard(qid)
        self.dgrams.append(data)
        if len(self.dgrams) > 64:
            del self.dgrams[:32]
        self.send_raw_dgram(data, sport, src_ip)
        return qid

    def redeliver(self, back=1, new_id=False, src_ip=None, sport=None, swapcase=False, retype=None):
        """Re-send one of the recent query datagrams (what an impatient / load-balanced relay does).  retype: the same name
        asked again with another record type (a resolver that probes a name with several types)."""
        if len(self.dgrams) < back:
            return None
        d = self.dgrams[-back]
        if retype is not None:
            try:
                labels, off = proto.read_name(d, 12)
                d = d[:off] + struct.pack(">H", retype) + d[off + 2:]
            except (proto.ParseError, ValueError):
                pass
        if swapcase:
            try:
                labels, off = proto.read_name(d, 12)
                nd = len(self.domain)
                nl = [l.swapcase() for l in labels[:len(labels) - nd]] + labels[len(labels) - nd:]
                d = d[:12] + proto.encode_name(nl) + d[off:]
            except (proto.ParseError, ValueError):
                pass
        qid = struct.unpack_from(">H", d, 0)[0]
        if new_id:
            qid = self.new_id()
            d = struct.pack(">H", qid) + d[2:]
        self.send_raw_dgram(d, sport, src_ip)
        return qid

    def send_raw_dgram(self, data, sport=None, src_ip=None):
        src = (src_ip or self.ip, sport or self.sport)
        self.kernel.emit("asend", "actor:" + self.ip, src=src, dst=self.server, data=data)
        self.kernel.transmit(src, self.server, data)

    def wait(self, qid, timeout_us=2 * US):
        """Advance the kernel until an answer with this id arrives. Returns Msg or None."""
        k = self.kernel
        end = k.now + timeout_us
        while True:
            lst = self.replies.get(qid)
            if lst:
                return lst.pop(0)
            if k.now >= end or k.stalled:
                return None
            nxt = k.heap[0][0] if k.heap else end
            k.run(min(max(nxt, k.now), end))
            if not k.heap and not self.replies.get(qid):
                k.run(end)

    def ask(self, labels, qtype=None, timeout_us=2 * US, **kw):
        qid = self.query(labels, qtype, **kw)
        m = self.wait(qid, timeout_us)
        return m

    def payload(self, m):
        """Payload of an answer, or None."""
        if m is None:
            return None
        try:
            return proto.extract_payload(m)
        except (proto.Undecodable, proto.ParseError, IndexError, struct.error):
            return None

    # ------------------------------------------------------------ handshake
    def version(self, version=proto.PROTOCOL_VERSION):
        m = self.ask(proto.msg_version(self.domain, self.new_cmc(), version))
        p = self.payload(m)
        if p and len(p) >= 9 and p[:4] == b"VACK" and version == proto.PROTOCOL_VERSION:
            self.v_dgram = self.dgrams[-1]        # (kept: a relay may deliver it again much later)
        if p and len(p) >= 9 and p[:4] == b"VACK":
            self.challenge = struct.unpack(">I", p[4:8])[0]
            self.userid = p[8]
        return p

    def login(self, digest=None, userid=None, challenge=None):
        uid = self.userid if userid is None else userid
        if digest is None:
            digest = proto.login_hash(self.password, self.challenge if challenge is None else challenge)
        m = self.ask(proto.msg_login(self.domain, uid, digest, self.new_cmc()))
        p = self.payload(m)
        if p and p.count(b"-") == 3 and p[:1].isdigit():
            self.login_reply = p
            parts = p.split(b"-")
            self.server_tun_ip = parts[0].decode()
            self.tun_ip = parts[1].decode()
        return p

    def connect(self):
        p = self.version()
        if not p or p[:4] != b"VACK":
            return False
        p = self.login()
        return bool(p) and self.login_reply is not None

    def switch_codec(self, codec):
        m = self.ask(proto.msg_switch_codec(self.domain, self.userid, codec.code, self.new_cmc()))
        p = self.payload(m)
        if p == codec.name.encode():
            self.up = codec
        return p

    def option(self, ch):
        m = self.ask(proto.msg_option(self.domain, self.userid, ch, self.new_cmc()))
        p = self.payload(m)
        if p in (b"Base32", b"Base64", b"Base64u", b"Base128", b"Raw"):
            self.down = ch.upper().decode()
        elif p == b"Lazy":
            self.lazy = True
        elif p == b"Immediate":
            self.lazy = False
        return p

    def set_frag(self, size):
        m = self.ask(proto.msg_setfrag(self.domain, self.userid, size, self.new_cmc()))
        p = self.payload(m)
        if p is not None and len(p) == 2 and struct.unpack(">H", p)[0] == size:
            self.fragsize = size
        return p

    def ip_request(self):
        return self.payload(self.ask(proto.msg_ip(self.domain, self.userid, self.new_cmc())))

    # --------------------------------------------------------------- tunnel
    def ping_labels(self, userid=None):
        uid = self.userid if userid is None else userid
        return proto.msg_ping(self.domain, uid, self.dn_seq, self.dn_frag, self.new_cmc())

    def data_labels(self, up_seq, up_frag, last, chunk, userid=None):
        uid = self.userid if userid is None else userid
        hdr = proto.data_header(uid, up_seq, up_frag, self.dn_seq, self.dn_frag, last, self.datacmc)
        self.datacmc += 1
        return proto.msg_data(self.domain, hdr, self.up.encode(chunk))

    def handle_down(self, m):
        """Process a ping/data answer like a well-behaved client (acks are carried by later queries)."""
        p = self.payload(m)
        if p is None or len(p) < 2 or p in (b"BADIP",):
            return p
        h = proto.parse_down_header(p)
        body = p[2:]
        self.down_events.append((self.kernel.now, m.id, h, body))
        self.last_up_ack = (h["up_seq"], h["up_frag"])
        if body:
            if h["dn_seq"] != self.dn_seq:
                self.dn_seq = h["dn_seq"]
                self.dn_frag = h["dn_frag"]
                self.in_buf = body
                fresh = True
            elif h["dn_frag"] == self.dn_frag + 1 or (self.dn_frag == 0 and h["dn_frag"] == 0 and not self.in_buf):
                self.dn_frag = h["dn_frag"]
                self.in_buf += body
                fresh = True
            else:
                fresh = False
            if fresh and h["last"]:
                try:
                    self.delivered.append((self.kernel.now, proto.inflate(self.in_buf)))
                except Exception:
                    self.delivered.append((self.kernel.now, None))
                self.in_buf = b""
        elif h["dn_seq"] != self.dn_seq:
            self.dn_seq = h["dn_seq"]
            self.dn_frag = h["dn_frag"]
            self.in_buf = b""
        return p

    def drain(self):
        """Handle all answers received so far (for lazy mode, where answers arrive late)."""
        n = 0
        for qid in list(self.replies):
            lst = self.replies[qid]
            while lst:
                m = lst.pop(0)
                if m.qd and m.qd[0][0] and m.qd[0][0][0][:1].lower() in b"p0123456789abcdef":
                    self.handle_down(m)
                    n += 1
        return n

    def ping(self, wait_us=300000):
        qid = self.query(self.ping_labels())
        self.kernel.run(self.kernel.now + wait_us)
        self.drain()
        return qid

    def send_frame(self, frame, chunk_bytes=None, wait_us=200000, max_tries=4):
        """Send one tun frame upstream, fragment by fragment, waiting for each ack. Returns True if
        the whole frame was acknowledged."""
        data = proto.deflate(frame)
        self.up_seq = (self.up_seq + 1) & 7
        if chunk_bytes is None:
            # stay safely inside a 255-byte name: 5 header chars + payload + dots + domain
            room = 255 - sum(len(l) + 1 for l in self.domain) - 5 - 8
            chunk_bytes = max(1, self.up.dec_len(room - room // 57 - 2))
        chunks = [data[i:i + chunk_bytes] for i in range(0, len(data), chunk_bytes)]
        self.final_dgrams = []       # every datagram that carried the final chunk of this frame
        for fi, ch in enumerate(chunks):
            last = fi == len(chunks) - 1
            acked = False
            for _try in range(max_tries):
                self.query(self.data_labels(self.up_seq, fi & 15, last, ch))
                if last:
                    self.final_dgrams.append(self.dgrams[-1])
                end = self.kernel.now + wait_us
                while self.kernel.now < end:
                    self.kernel.run(min(self.kernel.now + 20000, end))
                    self.drain()
                    if self.last_up_ack == (self.up_seq, fi & 15):
                        acked = True
                        break
                if acked:
                    break
                if self.lazy:
                    self.ping(wait_us=50000)
                    if self.last_up_ack == (self.up_seq, fi & 15):
                        acked = True
                        break
            if not acked:
                return False
        return True

    def pump(self, duration_us, interval_us=200000):
        """Keep pinging (and thereby acking) for a while so that downstream data flows."""
        end = self.kernel.now + duration_us
        while self.kernel.now < end:
            self.ping(wait_us=interval_us)

    # ------------------------------------------------------------------ raw
    def raw_login(self, challenge=None, userid=None, digest=None):
        ch = self.challenge if challenge is None else challenge
        dg = proto.login_hash(self.password, (ch + 1) & 0xFFFFFFFF) if digest is None else digest
        self.send_raw_dgram(proto.raw_frame(proto.RAW_LOGIN, self.userid if userid is None else userid, dg))

    def raw_data(self, frame, userid=None):
        self.send_raw_dgram(proto.raw_frame(proto.RAW_DATA, self.userid if userid is None else userid, proto.deflate(frame)))

    def raw_frames_received(self):
        """[(time, src, cmd, userid, payload)] of raw-mode frames delivered to this address."""
        out = []
        for (t, src, d) in self.raw_in:
            if len(d) >= 4:
                out.append((t, src, d[3] & 0xF0, d[3] & 0x0F, d[4:]))
        return out

    def raw_ping(self, userid=None):
        self.send_raw_dgram(proto.raw_frame(proto.RAW_PING, self.userid if userid is None else userid))
