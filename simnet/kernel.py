"""Discrete-event controller for the simulated OS (DESIGN.md 3.3).

Owns virtual time (microseconds), the virtual network, the virtual tun devices and the event
log.  Exactly one simulated process runs at a time; computation takes zero virtual time.
Python stdlib only.
"""
import heapq
import os
import select
import signal
import socket
import struct
import subprocess
import random
from collections import deque

(OP_HELLO, OP_WAIT, OP_SLEEP, OP_SOCKET, OP_BIND, OP_SEND, OP_RECV, OP_TUN_OPEN,
 OP_TUN_READ, OP_TUN_WRITE, OP_SYSTEM, OP_CLOSE, OP_CONNECT) = range(1, 14)

AF_INET = socket.AF_INET
AF_INET6 = socket.AF_INET6
EAGAIN = 11

SNAP_FMT = "<8BqiIHH16s4HiibbiiibbiiiBHI"
SNAP_SIZE = struct.calcsize(SNAP_FMT)
SNAP_FIELDS = ("active authenticated authenticated_raw options_locked disabled lazy conn downenc "
               "last_pkt seed tun_ip host_family host_port host_addr q_id q_id2 qs_id qs_id2 "
               "in_len in_offset in_seq in_frag out_len out_offset out_sentlen out_seq out_frag "
               "outfragresent fragsize outpacketq_filled encbits inv heap_kb").split()

WATCHDOG_S = float(os.environ.get("VERIF_WATCHDOG", "20"))
SPIN_LIMIT = int(os.environ.get("VERIF_SPIN_LIMIT", "100000"))


def ip_family(ip):
    return AF_INET6 if ":" in ip else AF_INET


def ip_pack(ip):
    return socket.inet_pton(ip_family(ip), ip)


def ip_unpack(fam, raw16):
    if fam == AF_INET:
        return socket.inet_ntop(AF_INET, raw16[:4])
    if fam == AF_INET6:
        return socket.inet_ntop(AF_INET6, raw16[:16])
    return "?fam%d" % fam


class Stall(Exception):
    pass


class VSock:
    __slots__ = ("fd", "family", "port", "bound_ip", "queue", "peer", "so_error")

    def __init__(self, fd, family):
        self.fd = fd
        self.family = family
        self.port = None
        self.bound_ip = None
        self.queue = deque()
        self.peer = None          # (ip, port) once connect()ed
        self.so_error = 0         # pending asynchronous error of a connected socket (ICMP port unreachable: ECONNREFUSED)


class Proc:
    def __init__(self, name, role):
        self.name = name
        self.role = role
        self.popen = None
        self.sock = None
        self.buf = b""
        self.state = "new"        # new|running|wait|sleep|exited|stalled
        self.wait_fds = ()
        self.deadline = None
        self.gen = 0
        self.socks = {}
        self.tun_fd = None
        self.tun_queue = deque()
        self.addrs = []
        self.snapshot = []
        self.snap_seq = 0
        self.exit_status = None
        self.cause = None
        self.residue = (0, b"")   # residue policy for receive buffers: (mode, pattern)
        self.system_rc = 0
        self.stderr_path = None
        self.logdir = None
        self.next_port = 40000
        self.nwaits = 0
        self.spin_t = -1
        self.spin_n = 0
        self.spinning = False

    def alive(self):
        return self.state in ("running", "wait", "sleep", "new", "recvblock")


class Kernel:
    def __init__(self, seed=1, epoch=1700000000, workdir=None):
        self.rng = random.Random(seed)
        self.epoch_us = epoch * 1000000
        self.epoch0_us = self.epoch_us    # the wall clock as it would read had it never been stepped
        self.stepped_back_s = 0           # whole seconds the wall clock was set back in all (clock_step)
        self.now = 0                      # virtual microseconds since scenario start
        self.heap = []
        self.seq = 0
        self.log = []
        self.procs = {}
        self.by_ip = {}                   # ip -> Proc
        self.actors = {}                  # ip -> actor
        self.observers = []
        self.workdir = workdir
        self.latency_us = 1000            # default one-way latency between hosts
        self.link_policy = None           # fn(src, dst, data) -> list of delays (us) | None
        self.dgram_id = 0
        self.max_events = 2000000
        self.nevents = 0
        self.stalled = None
        self.send_faults = []             # injected sendto failures: {"proc", "dst_port" | None, "errno", "count"}
        self.keep_snaps = False           # keep the server's users[] snapshot in every wait event
        # Scheduling latency: (probability, longest delay in us).  Computing takes no virtual time, so a program would otherwise
        # see every datagram and tun frame on its own; with this set, a program that becomes runnable is now and then resumed a
        # little later, and whatever else arrived meanwhile is reported by the same select() (several descriptors, several
        # queued datagrams).  Drawn from a stream of its own, so that it does not disturb the scenario's other random choices.
        self.sched_jitter = None
        self.multi_ready = 0              # select() calls that reported several descriptors, or a socket with several datagrams waiting
        self.jrng = random.Random(seed * 2654435761 % (1 << 32) ^ 0x5CED)

    # ------------------------------------------------------------------ log
    def emit(self, kind, who, **kw):
        ev = (self.now, kind, who, kw)
        self.log.append(ev)
        for ob in self.observers:
            ob(ev)
        return ev

    def abs_now(self):
        return self.epoch_us + self.now

    def clock_step(self, seconds):
        """The wall clock (what time() returns) is set back by a whole number of seconds - an NTP step, a manual correction.
        Timeouts and everything else that is relative go on undisturbed."""
        seconds = int(seconds)
        if seconds <= 0:
            return
        self.epoch_us -= seconds * 1000000
        self.stepped_back_s += seconds
        self.emit("clock_step", "kernel", seconds_back=seconds)

    def time_s(self):
        return self.abs_now() // 1000000

    # ------------------------------------------------------------ scheduling
    def at(self, t_us, fn, *args):
        self.seq += 1
        heapq.heappush(self.heap, (max(int(t_us), self.now), self.seq, fn, args))

    def after(self, d_us, fn, *args):
        self.at(self.now + int(d_us), fn, *args)

    # ------------------------------------------------------------- processes
    def spawn(self, name, role, argv, addrs, env=None, san_env=None, stdin_data=None, stdin_closed=False, stdin_tty_keys=None, residue=None):
        p = Proc(name, role)
        if residue is not None:
            p.residue = residue      # (in force from the first datagram the program receives, i.e. also during its start-up)
        p.addrs = list(addrs)
        a, b = socket.socketpair(socket.AF_UNIX, socket.SOCK_STREAM)
        p.sock = a
        e = dict(san_env or os.environ)
        if env:
            for kk, vv in env.items():
                if vv is None:
                    e.pop(kk, None)      # (really unset, not empty)
                else:
                    e[kk] = vv
        e["SIMNET_FD"] = str(b.fileno())
        p.logdir = os.path.join(self.workdir, name) if self.workdir else None
        stderr = subprocess.DEVNULL
        if p.logdir:
            os.makedirs(p.logdir, exist_ok=True)
            p.stderr_path = os.path.join(p.logdir, "stderr")
            stderr = open(p.stderr_path, "wb")
            for k in ("ASAN_OPTIONS", "UBSAN_OPTIONS"):
                if k in e and "log_path" not in e[k]:
                    e[k] += ":log_path=%s/%s" % (p.logdir, k[:-8].lower())
        if argv and os.path.basename(str(argv[0])) == "valgrind" and p.logdir:
            argv = [argv[0], "--log-file=%s/vg.%%p" % p.logdir] + list(argv[1:])
        stdin = subprocess.DEVNULL
        tty_master = None
        if stdin_tty_keys is not None:
            # standard input is a terminal (a pty); the keystrokes are typed a moment after the start, when the program has
            # had time to print its prompt and set the terminal modes it wants.  (Real time, the only place in the harness:
            # typing too early merely lets the default line discipline handle the keys, it cannot produce an alarm.)
            import pty
            import threading
            import time as _time
            tty_master, tty_slave = pty.openpty()
            stdin = tty_slave

            def _type(fd=tty_master, keys=bytes(stdin_tty_keys)):
                _time.sleep(0.4)
                try:
                    for i in range(len(keys)):
                        os.write(fd, keys[i:i + 1])
                        _time.sleep(0.002)
                except OSError:
                    pass
            threading.Thread(target=_type, daemon=True).start()
        if stdin_data is not None:
            # what the program finds on its standard input (e.g. a password piped in), then end of file
            rfd, wfd = os.pipe()
            os.write(wfd, bytes(stdin_data)[:60000])
            os.close(wfd)
            stdin = rfd
        # stdin_closed: the program is started with descriptor 0 closed (init scripts, cron, "<&-"): the first descriptor it
        # opens itself will be number 0
        p.popen = subprocess.Popen(argv, env=e, pass_fds=(b.fileno(),), stdin=stdin,
                                   stdout=subprocess.DEVNULL, stderr=stderr, close_fds=True,
                                   preexec_fn=(lambda: os.close(0)) if stdin_closed else None)
        if stdin_data is not None:
            os.close(rfd)
        if tty_master is not None:
            os.close(tty_slave)
            p.tty_master = tty_master
        if stderr is not subprocess.DEVNULL:
            stderr.close()
        b.close()
        self.procs[name] = p
        for ip in addrs:
            self.by_ip[ip] = p
        p.state = "running"
        self.emit("spawn", name, argv=argv[1:])
        self._service(p)
        return p

    def add_actor(self, ip, actor):
        self.actors[ip] = actor
        actor.kernel = self
        if getattr(actor, "ip", None) is None:
            actor.ip = ip

    # ------------------------------------------------------------ rpc plumbing
    def _read_msg(self, p):
        while True:
            if len(p.buf) >= 4:
                n = struct.unpack_from("<I", p.buf)[0]
                if len(p.buf) >= 4 + n:
                    msg = p.buf[4:4 + n]
                    p.buf = p.buf[4 + n:]
                    return msg
            r, _, _ = select.select([p.sock], [], [], WATCHDOG_S)
            if not r:
                raise Stall(p.name)
            try:
                chunk = p.sock.recv(262144)
            except ConnectionResetError:
                chunk = b""
            if not chunk:
                return None
            p.buf += chunk

    def _reply(self, p, payload=b""):
        body = struct.pack("<Q", self.abs_now()) + payload
        try:
            p.sock.sendall(struct.pack("<I", len(body)) + body)
        except (BrokenPipeError, ConnectionResetError):
            pass

    def _exited(self, p):
        try:
            p.popen.wait(timeout=WATCHDOG_S)
        except subprocess.TimeoutExpired:
            p.popen.kill()
            p.popen.wait()
        p.exit_status = p.popen.returncode
        p.state = "exited"
        try:
            p.sock.close()
        except OSError:
            pass
        self.emit("exit", p.name, status=p.exit_status)

    def _service(self, p):
        """Answer p's RPCs until it blocks (WAIT/SLEEP) or exits."""
        while True:
            try:
                msg = self._read_msg(p)
            except Stall:
                p.state = "stalled"
                self.stalled = p.name
                self.emit("stall", p.name)
                try:
                    p.popen.kill()
                    p.popen.wait()
                except OSError:
                    pass
                return
            if msg is None:
                self._exited(p)
                return
            op = msg[0]
            if op == OP_WAIT:
                to, nf = struct.unpack_from("<qH", msg, 1)
                fds = struct.unpack_from("<%di" % nf, msg, 11)
                off = 11 + 4 * nf
                sl = struct.unpack_from("<I", msg, off)[0]
                if sl and p.role == "client":
                    # the client's guarded hook: (in seq, in frag, in len, out seq, out frag, out len, out offset, out sentlen,
                    # id, previous id, id before that, connection type, lazy, userid)
                    p.cstate = struct.unpack_from("<%di" % (sl // 4), msg, off + 4)
                    sl = 0
                if sl:
                    raw = msg[off + 4: off + 4 + sl]
                    p.snapshot = [dict(zip(SNAP_FIELDS, struct.unpack_from(SNAP_FMT, raw, i * SNAP_SIZE)))
                                  for i in range(sl // SNAP_SIZE)]
                    p.snap_seq += 1
                    if getattr(p, "inv_bad", None) is None:
                        for ui, row in enumerate(p.snapshot):
                            if row["inv"]:
                                # structural invariant of the users[] table violated (first occurrence is kept)
                                p.inv_bad = (self.now, ui, row["inv"])
                                self.emit("table_invariant", p.name, slot=ui, bits=row["inv"], row={kk: vv for kk, vv in row.items() if kk != "host_addr"})
                                break
                p.nwaits += 1
                p.cause = None
                if self.keep_snaps and p.role == "client" and getattr(p, "cstate", None) is not None:
                    self.emit("wait", p.name, fds=fds, timeout=to, snap=p.snap_seq, cstate=p.cstate)
                elif self.keep_snaps and p.snapshot:
                    # quiescent-point hook: the users[] table as the server sees it at this select()
                    self.emit("wait", p.name, fds=fds, timeout=to, snap=p.snap_seq, rows=p.snapshot)
                else:
                    self.emit("wait", p.name, fds=fds, timeout=to, snap=p.snap_seq)
                ready = self._ready(p, fds)
                if ready:
                    # a process that keeps finding something readable without ever consuming it spins forever at
                    # one virtual instant (computation takes no virtual time): bound it and report a busy loop
                    if p.spin_t == self.now:
                        p.spin_n += 1
                        if p.spin_n > SPIN_LIMIT:
                            p.state = "stalled"
                            p.spinning = True
                            self.stalled = p.name
                            self.emit("spin", p.name, fds=fds, ready=ready)
                            try:
                                p.popen.kill()
                                p.popen.wait()
                            except OSError:
                                pass
                            return
                    else:
                        p.spin_t = self.now
                        p.spin_n = 0
                    self._count_multi(p, ready)
                    self._reply(p, struct.pack("<H%di" % len(ready), len(ready), *ready))
                    continue
                if to == 0:
                    self._reply(p, struct.pack("<H", 0))
                    continue
                p.state = "wait"
                p.wait_fds = fds
                p.gen += 1
                if to > 0:
                    p.deadline = self.now + to
                    self.at(p.deadline, self._wake, p, p.gen)
                else:
                    p.deadline = None
                return
            if op == OP_SLEEP:
                us = struct.unpack_from("<q", msg, 1)[0]
                p.state = "sleep"
                p.gen += 1
                p.deadline = self.now + max(us, 0)
                self.emit("sleep", p.name, us=us)
                self.at(p.deadline, self._wake, p, p.gen)
                return
            if op == OP_HELLO:
                self._reply(p)
            elif op == OP_SOCKET:
                fd, fam = struct.unpack_from("<ii", msg, 1)
                p.socks[fd] = VSock(fd, fam)
                self._reply(p)
            elif op == OP_BIND:
                fd, fam, port = struct.unpack_from("<iHH", msg, 1)
                raw = msg[9:25]
                s = p.socks.get(fd)
                rc = 0
                if s is None:
                    rc = -9
                else:
                    ip = ip_unpack(fam, raw) if fam in (AF_INET, AF_INET6) else None
                    if port == 0:
                        port = p.next_port
                        p.next_port += 1
                    s.port = port
                    s.bound_ip = None if ip in ("0.0.0.0", "::", None) else ip
                    self.emit("bind", p.name, fd=fd, family=fam, ip=ip, port=port)
                self._reply(p, struct.pack("<i", rc))
            elif op == OP_SEND:
                fd, fam, port = struct.unpack_from("<iHH", msg, 1)
                raw = msg[9:25]
                data = bytes(msg[29:])
                s = p.socks.get(fd)
                if s is not None and s.so_error:
                    # a connected socket with a pending ICMP error: the call reports it and does nothing else
                    e_ = s.so_error
                    s.so_error = 0
                    self.emit("send_error", p.name, fd=fd, family=fam, errno=e_, n=len(data), data=data, cause=p.cause, pending_error=True)
                    self._reply(p, struct.pack("<i", -e_))
                    continue
                if s is not None and fam == 0:
                    if s.peer is None:
                        self._reply(p, struct.pack("<i", -89))      # EDESTADDRREQ
                        continue
                    fam, port, raw = s.family, s.peer[1], ip_pack(s.peer[0]).ljust(16, b"\0")
                if s is None or fam not in (AF_INET, AF_INET6) or fam != s.family:
                    # Linux: EAFNOSUPPORT when the address family does not match the socket's
                    if s is not None:
                        self.emit("send_error", p.name, fd=fd, family=fam, errno=97, n=len(data), data=data, cause=p.cause)
                    self._reply(p, struct.pack("<i", -97 if s else -9))
                    continue
                dst = (ip_unpack(fam, raw), port)
                fault = None
                for f in self.send_faults:
                    if f["proc"] == p.name and f["count"] > 0 and f.get("dst_port") in (None, port):
                        if f.get("skip", 0) > 0:
                            f["skip"] -= 1       # (fail the n-th matching send from now, not the next one)
                            continue
                        fault = f
                        break
                if fault is not None:
                    # injected failure of the system call (ENOBUFS, EPERM from a firewall rule, ...): nothing leaves
                    fault["count"] -= 1
                    self.emit("send_error", p.name, fd=fd, family=fam, errno=fault["errno"], n=len(data), data=data, cause=p.cause,
                              injected=True, dst=dst)
                    self._reply(p, struct.pack("<i", -fault["errno"]))
                    continue
                if s.port is None:
                    s.port = p.next_port
                    p.next_port += 1
                src_ip = s.bound_ip or self._src_ip(p, fam, dst[0])
                src = (src_ip, s.port)
                self.emit("send", p.name, src=src, dst=dst, data=data, cause=p.cause)
                if s.peer is not None and dst == s.peer and dst[0] in ("127.0.0.1", "::1") and not self._listening(dst):
                    # loopback has no wire: the ICMP error is there before sendto() returns
                    self.emit("noport", "net", src=src, dst=dst, n=len(data))
                    s.so_error = 111
                    self.emit("icmp_unreachable", p.name, fd=s.fd, dst=dst)
                else:
                    self.transmit(src, dst, data, origin=(p, s) if s.peer is not None else None)
                self._reply(p, struct.pack("<i", len(data)))
            elif op == OP_CONNECT:
                fd, fam, port = struct.unpack_from("<iHH", msg, 1)
                raw = msg[9:25]
                s = p.socks.get(fd)
                if s is None or fam != s.family:
                    self._reply(p, struct.pack("<i", -97 if s else -9))
                    continue
                s.peer = (ip_unpack(fam, raw), port)
                if s.port is None:
                    s.port = p.next_port
                    p.next_port += 1
                if s.bound_ip is None:
                    s.bound_ip = self._src_ip(p, fam, s.peer[0])
                self.emit("connect", p.name, fd=fd, peer=s.peer)
                self._reply(p, struct.pack("<i", 0))
            elif op == OP_RECV:
                fd, cap = struct.unpack_from("<iI", msg, 1)
                s = p.socks.get(fd)
                if s is None:
                    self._reply(p, struct.pack("<i", -9))
                    continue
                if s.so_error and not s.queue:
                    e_ = s.so_error
                    s.so_error = 0
                    self.emit("recv_error", p.name, fd=fd, errno=e_)
                    self._reply(p, struct.pack("<i", -e_))
                    continue
                if not s.queue:
                    # the programs' sockets are blocking: a receive call on a socket that has nothing to deliver does not
                    # return until a datagram arrives (for ever, if none does)
                    p.state = "recvblock"
                    p.block_fd = fd
                    p.block_since = self.now
                    p.gen += 1
                    self.emit("recv_blocks", p.name, fd=fd)
                    return
                self._complete_recv(p, s)
            elif op == OP_TUN_OPEN:
                fd = struct.unpack_from("<i", msg, 1)[0]
                p.tun_fd = fd
                self.emit("tun_open", p.name, fd=fd)
                self._reply(p, struct.pack("<i", 0))
            elif op == OP_TUN_READ:
                fd, cap = struct.unpack_from("<iI", msg, 1)
                if not p.tun_queue:
                    self._reply(p, struct.pack("<i", -EAGAIN))
                    continue
                fid, frame = p.tun_queue.popleft()
                if isinstance(frame, int):
                    # injected failure of read() on the tun descriptor (EIO when the interface goes away, EINTR, a
                    # spurious wake-up with EAGAIN): the descriptor was reported readable, the read returns -1
                    self.emit("tun_read_error", p.name, errno=frame)
                    self._reply(p, struct.pack("<i", -frame))
                    continue
                p.cause = ("tun", fid)
                self.emit("tun_read", p.name, id=fid, data=frame)
                self._reply(p, struct.pack("<i", len(frame)) + frame)
            elif op == OP_TUN_WRITE:
                fd = struct.unpack_from("<i", msg, 1)[0]
                data = bytes(msg[5:])
                wf = getattr(p, "tun_write_faults", None)
                if wf:
                    # injected failure of write() on the tun descriptor (EIO: interface administratively down, ENOBUFS: input
                    # queue full, EAGAIN): nothing reaches the interface
                    e = wf.pop(0)
                    if isinstance(e, tuple):
                        # a short count: the device reports fewer bytes than it was given (and passes nothing on).  A tun
                        # write is one frame; the rest of the buffer is not another frame
                        n = max(1, min(len(data) - 1, e[1])) if len(data) > 1 else 0
                        self.emit("tun_write_error", p.name, data=data, errno=0, short=n, cause=p.cause)
                        self._reply(p, struct.pack("<i", n))
                        continue
                    self.emit("tun_write_error", p.name, data=data, errno=e, cause=p.cause)
                    self._reply(p, struct.pack("<i", -e))
                    continue
                self.emit("tun_write", p.name, data=data, cause=p.cause)
                self._reply(p, struct.pack("<i", len(data)))
            elif op == OP_SYSTEM:
                cmd = bytes(msg[1:])
                self.emit("system", p.name, cmd=cmd)
                self._reply(p, struct.pack("<i", p.system_rc))
            elif op == OP_CLOSE:
                fd = struct.unpack_from("<i", msg, 1)[0]
                p.socks.pop(fd, None)
                if p.tun_fd == fd:
                    p.tun_fd = None
                self._reply(p)
            else:
                raise RuntimeError("bad op %d from %s" % (op, p.name))

    def _src_ip(self, p, fam, dst_ip):
        for ip in p.addrs:
            if ip_family(ip) == fam:
                return ip
        return "0.0.0.0" if fam == AF_INET else "::"

    def _count_multi(self, p, ready):
        if len(ready) >= 2 or any(len(p.socks[fd].queue) >= 2 for fd in ready if fd in p.socks):
            self.multi_ready += 1

    def _ready(self, p, fds):
        out = []
        for fd in fds:
            if fd == p.tun_fd:
                if p.tun_queue:
                    out.append(fd)
            else:
                s = p.socks.get(fd)
                if s is not None and (s.queue or s.so_error):
                    out.append(fd)
        return out

    def _complete_recv(self, p, s):
        did, src, dst, data = s.queue.popleft()
        p.cause = did
        self.emit("recv", p.name, id=did, src=src, dst=dst, data=data)
        mode, pat = p.residue
        sf = ip_family(src[0])
        df = ip_family(dst[0])
        self._reply(p, struct.pack("<iHH16sH16sBH", len(data), sf, src[1], ip_pack(src[0]).ljust(16, b"\0"),
                                   df, ip_pack(dst[0]).ljust(16, b"\0"), mode, len(pat)) + data + pat)

    def kill(self, pname):
        """The process is ended from outside (power loss, kill -9, a restart by the init system); its addresses become free."""
        p = self.procs[pname]
        if p.popen and p.popen.poll() is None:
            try:
                p.popen.kill()
                p.popen.wait()
            except OSError:
                pass
        p.exit_status = p.popen.returncode if p.popen else None
        p.state = "exited"
        p.gen += 1
        try:
            p.sock.close()
        except OSError:
            pass
        for ip in list(self.by_ip):
            if self.by_ip[ip] is p:
                del self.by_ip[ip]
        self.emit("killed", pname)

    def freeze(self, pname):
        """The process stops being scheduled (a suspended laptop, SIGSTOP): it stays in its select() for ever."""
        p = self.procs[pname]
        p.frozen = True
        self.emit("freeze", pname)

    def thaw(self, pname):
        """A frozen process is scheduled again (it was busy / descheduled for a moment): whatever arrived meanwhile is waiting
        in its socket queues, so its next select() reports several descriptors - and several datagrams - at once."""
        p = self.procs[pname]
        if not getattr(p, "frozen", False):
            return
        p.frozen = False
        self.emit("thaw", pname)
        if p.state in ("wait", "recvblock"):
            self._poke(p)
        if p.state in ("wait", "sleep") and p.deadline is not None:
            self.at(max(p.deadline, self.now), self._wake, p, p.gen)

    def _wake(self, p, gen):
        if p.gen != gen or p.state not in ("wait", "sleep") or getattr(p, "frozen", False):
            return
        if p.state == "sleep":
            p.state = "running"
            self._reply(p)
        else:
            # (the timeout ran out; descriptors that became readable while the resume was being delayed are reported as well)
            ready = self._ready(p, p.wait_fds) if getattr(p, "poke_deferred", False) else []
            p.state = "running"
            if ready:
                p.gen += 1
                self._count_multi(p, ready)
                self._reply(p, struct.pack("<H%di" % len(ready), len(ready), *ready))
            else:
                self._reply(p, struct.pack("<H", 0))
        self._service(p)

    def _poke(self, p):
        """Resume p if it is waiting on something that became readable."""
        if p.state == "recvblock" and not getattr(p, "frozen", False):
            s = p.socks.get(p.block_fd)
            if s is not None and s.queue:
                p.state = "running"
                p.gen += 1
                self._complete_recv(p, s)
                self._service(p)
            elif s is not None and s.so_error:
                e_ = s.so_error
                s.so_error = 0
                p.state = "running"
                p.gen += 1
                self.emit("recv_error", p.name, fd=s.fd, errno=e_)
                self._reply(p, struct.pack("<i", -e_))
                self._service(p)
            return
        if p.state != "wait" or getattr(p, "frozen", False):
            return
        if getattr(p, "poke_deferred", False):
            return                      # it will be resumed shortly; this input queues up behind what woke it
        ready = self._ready(p, p.wait_fds)
        if ready and self.sched_jitter is not None and self.jrng.random() < self.sched_jitter[0]:
            p.poke_deferred = True
            self.after(self.jrng.randint(20, self.sched_jitter[1]), self._poke_late, p)
            return
        if ready:
            p.state = "running"
            p.gen += 1
            self._count_multi(p, ready)
            self._reply(p, struct.pack("<H%di" % len(ready), len(ready), *ready))
            self._service(p)

    def _poke_late(self, p):
        p.poke_deferred = False
        self._poke_now(p)

    def _poke_now(self, p):
        if p.state != "wait" or getattr(p, "frozen", False):
            return
        ready = self._ready(p, p.wait_fds)
        if ready:
            p.state = "running"
            p.gen += 1
            self._count_multi(p, ready)
            self._reply(p, struct.pack("<H%di" % len(ready), len(ready), *ready))
            self._service(p)

    # --------------------------------------------------------------- network
    def transmit(self, src, dst, data, delay_us=None, origin=None):
        """Put a datagram on the virtual wire.  origin = (process, connected socket) it was sent from: told when nobody listens."""
        if len(data) > 65507:
            self.emit("oversize", "net", src=src, dst=dst, n=len(data))     # cannot exist as a UDP datagram
            return
        if self.link_policy is not None and delay_us is None:
            delays = self.link_policy(src, dst, data)
            if delays is None:
                delays = [self.latency_us]
            for d in delays:
                self.after(max(1, d), self._deliver, src, dst, data, origin)
            if not delays:
                self.emit("linkdrop", "net", src=src, dst=dst, n=len(data))
            return
        self.after(max(1, self.latency_us if delay_us is None else delay_us), self._deliver, src, dst, data, origin)

    def _listening(self, dst):
        ip, port = dst
        for bp in self.procs.values():
            if bp.alive():
                for s in bp.socks.values():
                    if s.port == port and (s.bound_ip == ip or (s.bound_ip is None and self.by_ip.get(ip) is bp and s.family == ip_family(ip))):
                        return True
        actor = self.actors.get(ip)
        if actor is not None:
            return not (getattr(actor, "port_closed", None) and actor.port_closed(port))
        return False

    def _unreachable(self, origin, dst):
        """Nobody listens on dst: the host answers with ICMP port unreachable.  An unconnected UDP socket never hears of it; a
        connected one gets a pending ECONNREFUSED (it polls readable, and its next send or receive call fails with it)."""
        if origin is None:
            return
        op_, os_ = origin
        if op_.alive() and os_.peer == dst:
            os_.so_error = 111
            self.emit("icmp_unreachable", op_.name, fd=os_.fd, dst=dst)
            self._poke(op_)

    def _deliver(self, src, dst, data, origin=None):
        self.dgram_id += 1
        did = self.dgram_id
        ip, port = dst
        # a socket explicitly bound to this address and port wins (e.g. iodined's forwarding socket on
        # 127.0.0.1:<ephemeral> next to a scripted resolver on 127.0.0.1:<bind port>)
        for bp in self.procs.values():
            if not bp.alive():
                continue
            for s in bp.socks.values():
                if s.bound_ip == ip and s.port == port:
                    if s.peer is not None and s.peer != src:
                        self.emit("notpeer", "net", src=src, dst=dst, n=len(data))      # a connected socket hears its peer only
                        return
                    s.queue.append((did, src, dst, data))
                    self.emit("deliver", bp.name, id=did, src=src, dst=dst, data=data, fd=s.fd)
                    self._poke(bp)
                    return
        actor = self.actors.get(ip)
        if actor is not None and getattr(actor, "port_closed", None) and actor.port_closed(port):
            # the host is there but nothing listens on that port at the moment (a daemon that is being restarted)
            self.emit("noport", "net", src=src, dst=dst, n=len(data))
            self._unreachable(origin, dst)
            return
        if actor is not None:
            self.emit("deliver", "actor:" + ip, id=did, src=src, dst=dst, data=data)
            actor.on_datagram(src, dst, data)
            return
        p = self.by_ip.get(ip)
        if p is None or not p.alive():
            self.emit("noroute", "net", src=src, dst=dst, n=len(data))
            return
        fam = ip_family(ip)
        for s in p.socks.values():
            if s.family == fam and s.port == port and (s.bound_ip is None or s.bound_ip == ip):
                s.queue.append((did, src, dst, data))
                self.emit("deliver", p.name, id=did, src=src, dst=dst, data=data, fd=s.fd)
                self._poke(p)
                return
        self.emit("noport", "net", src=src, dst=dst, n=len(data))
        self._unreachable(origin, dst)

    def offer_tun(self, pname, frame, fid=None):
        p = self.procs[pname]
        if not p.alive():
            return
        p.tun_queue.append((fid, frame))
        self.emit("tun_offer", pname, id=fid, data=frame)
        self._poke(p)

    def fail_tun_writes(self, pname, errno_, n=1):
        """The next n write()s on the process's tun descriptor fail with errno_ (the frame is not delivered)."""
        p = self.procs[pname]
        if not p.alive():
            return
        if getattr(p, "tun_write_faults", None) is None:
            p.tun_write_faults = []
        p.tun_write_faults.extend([errno_ if isinstance(errno_, tuple) else int(errno_)] * n)

    def offer_tun_error(self, pname, errno_):
        """The next read() on the process's tun descriptor (which select reports readable) fails with errno_."""
        p = self.procs[pname]
        if not p.alive():
            return
        p.tun_queue.append((None, int(errno_)))
        self._poke(p)

    # ------------------------------------------------------------------ run
    def run(self, until_us):
        while self.heap and self.heap[0][0] <= until_us and self.stalled is None:
            t, _seq, fn, args = heapq.heappop(self.heap)
            if t > self.now:
                self.now = t
            self.nevents += 1
            if self.nevents > self.max_events:
                self.emit("eventcap", "kernel")
                break
            fn(*args)
        if self.now < until_us and self.stalled is None:
            self.now = until_us

    def shutdown(self):
        for p in self.procs.values():
            if p.popen and p.popen.poll() is None:
                try:
                    p.popen.kill()
                except OSError:
                    pass
                try:
                    p.popen.wait(timeout=10)
                except Exception:
                    pass
            try:
                p.sock.close()
            except OSError:
                pass
            if getattr(p, "tty_master", None) is not None:
                try:
                    os.close(p.tty_master)
                except OSError:
                    pass
                p.tty_master = None

    # ---------------------------------------------------------------- helpers
    def sanitizer_report(self, p):
        """Return text of any sanitizer log / stderr report of process p."""
        text = ""
        if p.logdir and os.path.isdir(p.logdir):
            for fn in sorted(os.listdir(p.logdir)):
                if fn.startswith(("asan", "ubsan", "vg.")):
                    try:
                        t = open(os.path.join(p.logdir, fn), errors="replace").read()
                    except OSError:
                        continue
                    if fn.startswith("vg.") and not any(w in t for w in ("uninitialised", "Invalid read", "Invalid write", "overlap",
                                                                         "Invalid free", "Mismatched free", "Process terminating",
                                                                         "Jump to the invalid")):
                        continue         # (valgrind's own warnings are not findings)
                    text += t
            if p.stderr_path and os.path.exists(p.stderr_path):
                try:
                    st = open(p.stderr_path, errors="replace").read()
                except OSError:
                    st = ""
                if "runtime error" in st or "Sanitizer" in st:
                    text += st
        return text

    def stderr_text(self, p, limit=4000):
        if p.stderr_path and os.path.exists(p.stderr_path):
            try:
                return open(p.stderr_path, errors="replace").read()[-limit:]
            except OSError:
                return ""
        return ""


class Actor:
    """Scripted network participant owning one IP address."""

    def __init__(self, ip=None):
        self.ip = ip
        self.kernel = None

    def on_datagram(self, src, dst, data):
        pass

    def send(self, sport, dst, data, delay_us=None):
        src = (self.ip, sport)
        self.kernel.emit("asend", "actor:" + self.ip, src=src, dst=dst, data=data)
        self.kernel.transmit(src, dst, data, delay_us)
