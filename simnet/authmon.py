"""Monitors over adversarial multi-session histories (simnet/advhist.py):

mon_c03 - online shadow-authentication monitor: every privileged effect of the server must be
          preceded by a correct response to the *current* challenge of the slot it acts for.
mon_c04 - session isolation: routing by tunnel address, no slot takeover within 60 s, expiry.

Both work on the boundary event log (datagrams received/sent by the server, tun frames, and the
users[] snapshot taken at every select()) and use only hashlib's MD5 and the independent protocol
library; neither predicts which replies the server must give.
"""
import re
import socket
import struct
import zlib

from . import proto

LOGIN_OK = re.compile(rb"^\d{1,3}\.\d{1,3}\.\d{1,3}\.\d{1,3}-\d{1,3}\.\d{1,3}\.\d{1,3}\.\d{1,3}-\d+-\d+$")
CODEC_NAMES = (b"Base32", b"Base64", b"Base64u", b"Base128")
OPTION_NAMES = CODEC_NAMES + (b"Raw", b"Lazy", b"Immediate")
HEX = b"0123456789abcdefABCDEF"
CONN_RAW = 0


def _domain_labels(domain, wildcard=False):
    dl = [l.lower() for l in proto.labels_from_dotted(domain.encode())]
    return dl[1:] if wildcard else dl


def data_text(labels, dl):
    """Data part (labels before the tunnel domain, joined) of a query name, or None."""
    ql = [l.lower() for l in labels]
    if len(ql) > len(dl) and ql[len(ql) - len(dl):] == dl:
        return b"".join(labels[:len(labels) - len(dl)])
    return None


def named_slot(text):
    """Slot a tunnel command names (as the server derives it), or None."""
    if not text:
        return None
    c = text[:1].lower()
    if c in b"lnp":
        raw = proto.BASE32.decode(text[1:])
        return raw[0] if raw else None
    if c in b"iso":
        return proto.b32_val(text[1]) if len(text) > 1 else None
    if c == b"r":
        return (proto.b32_val(text[1]) >> 1) & 15 if len(text) > 1 else None
    if text[:1] in HEX:
        return int(text[:1], 16)
    return None


class DownAsm:
    """Reassembles downstream packets per session from the data answers the server sends."""

    def __init__(self):
        self.cur = {}     # uid -> (seq, {frag: body}, first_time)

    def reset(self, uid):
        self.cur.pop(uid, None)

    def feed(self, uid, h, body, t):
        """Returns the inflated frame when this answer completes a packet, else None."""
        if not body:
            return None
        st = self.cur.get(uid)
        if st is None or st[0] != h["dn_seq"]:
            st = (h["dn_seq"], {}, t)
            self.cur[uid] = st
        if h["dn_frag"] == 0 and st[1].get(0, body) != body:
            st = (h["dn_seq"], {}, t)          # a new packet that happens to reuse the sequence number
            self.cur[uid] = st
        st[1].setdefault(h["dn_frag"], body)
        if h["last"]:
            parts = []
            for i in range(h["dn_frag"] + 1):
                if i not in st[1]:
                    return None
                parts.append(st[1][i])
            try:
                return zlib.decompress(b"".join(parts))
            except zlib.error:
                return None
        return None


def mon_c03(k, domain, password, up_frames, wildcard=False, srv="srv", check_ip=True):
    """Returns (violations, stats, kinds) - kinds = set of (effect, verdict) classes observed."""
    dl = _domain_labels(domain, wildcard)
    viol = []
    st = {"c03_vacks": 0, "c03_logins_ok": 0, "c03_login_replies_checked": 0, "c03_priv_accepted": 0,
          "c03_priv_refused": 0, "c03_tun_writes_checked": 0, "c03_forwards_checked": 0,
          "c03_snapshot_rows_checked": 0, "c03_setting_changes_checked": 0, "c03_raw_logins_ok": 0,
          "c03_unauth_effect_attempts": 0}
    kinds = set()
    ch = {}          # slot -> current challenge
    authed = {}      # slot -> bool
    rawauthed = {}
    vack_in_interval = set()
    locked = {}
    all_challenges = []
    rebind_ok = set()      # slots for which a correct (raw) login arrived since the previous snapshot
    by_dgram = {}    # datagram bytes -> frame bytes
    for f, rec in up_frames.items():
        for d in rec["dgrams"]:
            by_dgram[d] = f
    raw_login_dgram = {}   # recv id of a raw login datagram -> did it carry the correct response?
    ok_at_recv = {}  # frame -> True if some carrying datagram arrived while its slot was authorised
    seen_at_recv = set()
    asm = DownAsm()
    prev_rows = None

    def bad(key, what, ev, **kw):
        w = {"time_us": ev[0]}
        w.update(kw)
        viol.append((key, what, w))

    def check_frame_effect(frame, ev, effect):
        rec = up_frames.get(frame)
        if rec is None:
            return
        if effect == "tun_write":
            st["c03_tun_writes_checked"] += 1
        else:
            st["c03_forwards_checked"] += 1
        if ok_at_recv.get(frame):
            kinds.add((effect, rec["via"], "authorised"))
            return
        bad("C03:%s-without-login" % effect,
            "server %s a packet sent upstream for slot %d (%s) although no correct response to that slot's current challenge had been received"
            % ("wrote to its tun" if effect == "tun_write" else "forwarded to a client", rec["slot"], rec["via"]),
            ev, slot=rec["slot"], via=rec["via"], sent_by=rec["by"], frame=frame.hex()[:120],
            carrying_datagram_seen=frame in seen_at_recv)

    bound = {}      # slot -> address (ip) the server bound it to: the VACK's destination, moved by a correct raw login
    for ev in k.log:
        kind, who, kw = ev[1], ev[2], ev[3]
        if who != srv:
            continue
        if kind == "recv":
            d = kw["data"]
            f = by_dgram.get(d)
            if d[:3] == proto.RAW_MAGIC:
                if len(d) < 4:
                    continue
                cmd, uid = d[3] & 0xF0, d[3] & 0x0F
                if cmd == proto.RAW_LOGIN:
                    good_raw = len(d) >= 20 and bool(authed.get(uid)) and uid in ch and \
                        d[4:20] == proto.login_hash(password, (ch[uid] + 1) & 0xFFFFFFFF)
                    raw_login_dgram[kw["id"]] = good_raw
                    if good_raw:
                        if not rawauthed.get(uid):
                            st["c03_raw_logins_ok"] += 1
                        rawauthed[uid] = True
                        rebind_ok.add(uid)
                if f is not None:
                    seen_at_recv.add(f)
                    if rawauthed.get(up_frames[f]["slot"]):
                        ok_at_recv[f] = True
                    else:
                        st["c03_unauth_effect_attempts"] += 1
                continue
            if f is not None:
                seen_at_recv.add(f)
                if authed.get(up_frames[f]["slot"]):
                    ok_at_recv[f] = True
                else:
                    st["c03_unauth_effect_attempts"] += 1
            try:
                m = proto.parse_msg(d)
            except proto.ParseError:
                continue
            if m.qr or not m.qd:
                continue
            text = data_text(m.qd[0][0], dl)
            if not text or text[:1].lower() != b"l":
                continue
            raw = proto.BASE32.decode(text[1:])
            if len(raw) >= 17:
                uid = raw[0]
                if uid in ch and raw[1:17] == proto.login_hash(password, ch[uid]):
                    if not authed.get(uid):
                        st["c03_logins_ok"] += 1
                    authed[uid] = True
                    rebind_ok.add(uid)
            continue
        if kind == "tun_write":
            check_frame_effect(bytes(kw["data"]), ev, "tun_write")
            continue
        if kind == "send":
            d = kw["data"]
            if d[:3] == proto.RAW_MAGIC:
                if len(d) < 4:
                    continue
                cmd, uid = d[3] & 0xF0, d[3] & 0x0F
                if cmd == proto.RAW_LOGIN:
                    # the reply (and the rebinding of the session to the sender) is an effect of the datagram being
                    # handled: that very datagram must carry the response, not merely some earlier one
                    cause_ok = raw_login_dgram.get(kw.get("cause"), None)
                    if cause_ok is False:
                        bad("C03:raw-login-accepted-without-valid-response",
                            "server acknowledged (and bound the session to the sender of) a raw-mode login for slot %d that does not carry the response to challenge+1" % uid,
                            ev, slot=uid, sent_to=kw["dst"][0])
                    elif rawauthed.get(uid):
                        kinds.add(("raw-login-reply", "authorised"))
                        bound[uid] = kw["dst"][0]        # (a correct raw login is the sanctioned way to move a session)
                    else:
                        bad("C03:raw-login-accepted-without-valid-response",
                            "server acknowledged a raw-mode login for slot %d that had not answered challenge+1 after a DNS login" % uid,
                            ev, slot=uid, dns_login_done=bool(authed.get(uid)))
                elif cmd == proto.RAW_DATA:
                    try:
                        fr = zlib.decompress(d[4:])
                    except zlib.error:
                        fr = None
                    if fr is not None:
                        check_frame_effect(fr, ev, "forward")
                continue
            try:
                m = proto.parse_msg(d)
            except proto.ParseError:
                continue
            if not m.qr or not m.qd:
                continue
            text = data_text(m.qd[0][0], dl)
            if not text:
                continue
            try:
                p = proto.extract_payload(m)
            except (proto.Undecodable, proto.ParseError, IndexError, struct.error):
                continue
            c = text[:1].lower()
            if c == b"v":
                if p[:4] == b"VACK" and len(p) >= 9:
                    uid = p[8]
                    ch[uid] = struct.unpack(">I", p[4:8])[0]
                    all_challenges.append(ch[uid])
                    locked[uid] = False
                    authed[uid] = False
                    rawauthed[uid] = False
                    vack_in_interval.add(uid)
                    asm.reset(uid)
                    st["c03_vacks"] += 1
                    bound[uid] = kw["dst"][0]
                continue
            uid = named_slot(text)
            if c == b"l":
                if LOGIN_OK.match(p):
                    st["c03_login_replies_checked"] += 1
                    raw = proto.BASE32.decode(text[1:])
                    good = len(raw) >= 17 and uid in ch and raw[1:17] == proto.login_hash(password, ch[uid])
                    if good:
                        kinds.add(("login-accept", "authorised"))
                    else:
                        bad("C03:login-accepted-without-valid-response",
                            "server accepted a login for slot %r whose 16 bytes are not the MD5 response to that slot's current challenge" % uid,
                            ev, slot=uid, challenge_known=uid in ch, query=b".".join(m.qd[0][0])[:90].decode("latin1"))
                else:
                    kinds.add(("login", p[:6].decode("latin1")))
                continue
            effect = None
            if c == b"i" and p[:1] == b"I" and len(p) in (5, 17):
                effect = "address-disclosed"
            elif c == b"s" and p in CODEC_NAMES:
                effect = "codec-switched"
            elif c == b"o" and p in OPTION_NAMES:
                effect = "option-set"
            elif c == b"n" and len(p) == 2:
                raw = proto.BASE32.decode(text[1:])
                if len(raw) >= 3 and p == raw[1:3]:
                    effect = "fragsize-set"
            if effect:
                if check_ip and authed.get(uid) and bound.get(uid) is not None and kw["dst"][0] != bound[uid]:
                    # with source checking on, the session that answered the challenge is the one at the address the slot is bound
                    # to; whoever asks from elsewhere has answered nothing
                    bad("C03:%s-for-an-address-that-never-logged-in" % effect,
                        "server answered %r to a %s request naming slot %r from %s; the session that answered the slot's challenge is at %s"
                        % (p[:12], c.decode().upper(), uid, kw["dst"][0], bound[uid]), ev, slot=uid)
                elif authed.get(uid) and not check_ip and locked.get(uid) and effect in ("codec-switched", "option-set", "fragsize-set"):
                    # without source checking the server cannot tell on whose behalf a request comes; that is what the options
                    # lock is for: once a session has set its fragment size (end of its handshake) its codec, options and
                    # fragment size stay as they are until the slot is handed out again
                    bad("C03:options-changed-after-lock",
                        "with -c, the server answered %r to a %s request for slot %r after that session had completed its handshake (fragment size set)"
                        % (p[:12], c.decode().upper(), uid), ev, slot=uid, query=b".".join(m.qd[0][0])[:90].decode("latin1"))
                elif authed.get(uid):
                    st["c03_priv_accepted"] += 1
                    kinds.add((effect, "authorised"))
                    if effect == "fragsize-set":
                        locked[uid] = True
                else:
                    bad("C03:%s-without-login" % effect,
                        "server answered %r to a %s request naming slot %r, which has not answered its current challenge"
                        % (p[:12], c.decode().upper(), uid), ev, slot=uid, query=b".".join(m.qd[0][0])[:90].decode("latin1"))
            elif c in b"isonr" and p in (b"BADIP", b"BADLEN", b"BADCODEC", b"BADFRAG"):
                if not authed.get(uid):
                    st["c03_priv_refused"] += 1
                    kinds.add((c.decode(), "refused", p.decode()))
            elif (c == b"p" or text[:1] in HEX) and len(p) >= 2 and p != b"BADIP":
                # a data-header answer: when it carries a packet that some client sent upstream this is a forward
                h = proto.parse_down_header(p)
                fr = asm.feed(uid, h, p[2:], ev[0])
                if fr is not None:
                    check_frame_effect(fr, ev, "forward")
            elif p == b"BADIP" and not authed.get(uid):
                st["c03_priv_refused"] += 1
                kinds.add(("pd", "refused", "BADIP"))
            continue
        if kind == "wait" and "rows" in kw:
            rows = kw["rows"]
            if rows is prev_rows:
                vack_in_interval.clear()
                rebind_ok.clear()
                continue
            for u, r in enumerate(rows):
                st["c03_snapshot_rows_checked"] += 1
                # cross-check (earlier detection, not the primary oracle): table flags imply shadow flags
                if r["active"] and r["authenticated"] and not authed.get(u):
                    bad("C03:slot-marked-authenticated-without-login",
                        "server table marks slot %d authenticated although no correct response to its current challenge was received" % u,
                        ev, slot=u)
                if r["active"] and r["authenticated_raw"] and not rawauthed.get(u):
                    bad("C03:slot-marked-raw-authenticated-without-login",
                        "server table marks slot %d raw-authenticated without a correct raw login" % u, ev, slot=u)
                if prev_rows is not None and u < len(prev_rows):
                    o = prev_rows[u]
                    # the address a session is bound to (what source checking compares against, and where raw-mode
                    # traffic goes) is set by the version handshake and by correct logins only
                    ha = (o["host_family"], bytes(o["host_addr"]), o["host_port"])
                    hb = (r["host_family"], bytes(r["host_addr"]), r["host_port"])
                    if ha != hb and r["active"]:
                        st["c03_rebinds_checked"] = st.get("c03_rebinds_checked", 0) + 1
                        if u in vack_in_interval or u in rebind_ok:
                            kinds.add(("session-rebound", "authorised"))
                        else:
                            bad("C03:session-rebound-without-login",
                                "slot %d is now bound to %r (was %r) although neither a version handshake nor a correct response to its "
                                "current challenge arrived in between" % (u, hb, ha), ev, slot=u)
                    a = (o["encbits"], o["downenc"], o["lazy"], o["fragsize"], o["conn"])
                    b = (r["encbits"], r["downenc"], r["lazy"], r["fragsize"], r["conn"])
                    if a != b and r["active"]:
                        st["c03_setting_changes_checked"] += 1
                        if u in vack_in_interval or authed.get(u):
                            if r["conn"] == CONN_RAW and o["conn"] != CONN_RAW and not rawauthed.get(u) and u not in vack_in_interval:
                                bad("C03:raw-mode-without-raw-login", "slot %d switched to raw UDP mode without a correct raw login" % u, ev, slot=u)
                            else:
                                kinds.add(("settings-changed", "authorised"))
                        else:
                            bad("C03:settings-changed-without-login",
                                "codec/options/fragment size/connection of slot %d changed %r -> %r although the slot has not answered its current challenge" % (u, a, b),
                                ev, slot=u)
            prev_rows = rows
            vack_in_interval.clear()
            rebind_ok.clear()
    # "The current challenge" only means something if challenges differ: a login response seen on the wire for one session
    # must not be the right answer for the next.  (32-bit random values: a repeat among a few dozen is a 1-in-10^7 event.)
    st["c03_challenges_seen"] = len(all_challenges)
    if len(all_challenges) >= 4:
        from collections import Counter
        val, cnt = Counter(all_challenges).most_common(1)[0]
        if cnt >= 3:
            viol.append(("C03:challenge-repeated", "the challenge 0x%08x was handed out %d times in %d version handshakes: a login response overheard once answers all of them"
                         % (val, cnt, len(all_challenges)), {"time_us": 0, "challenges": ["%08x" % c for c in all_challenges[:12]]}))
    return viol, st, kinds


# ---------------------------------------------------------------------------
# C04

def _ip_of_frame(frame):
    if len(frame) >= 24:
        return socket.inet_ntoa(frame[20:24])
    return None


def mon_c04(k, domain, check_ip, offered, up_frames, wildcard=False, srv="srv", server_tun_ip=None):
    """History monitors of C04 (the spoof differential is separate, in checks/c04.py):
    routing   - a packet for tunnel address A reaches only the session assigned A, which must have logged
                in before the packet entered the server and be the slot's current holder;
    takeover  - no VACK for a slot that had an accepted message less than 60 s earlier;
    expiry    - a request naming a slot silent for more than 60 s is refused;
    source    - (check_ip on) a DNS request naming a slot from another address than the one it is bound to
                is refused (BADIP or silence).
    """
    dl = _domain_labels(domain, wildcard)
    viol = []
    st = {"c04_vacks": 0, "c04_deliveries_checked": 0, "c04_takeover_checks": 0, "c04_expired_requests_refused": 0,
          "c04_foreign_requests_refused": 0, "c04_slot_reuses": 0, "c04_odd_frames_dropped": 0, "c04_rebinds": 0}
    kinds = set()
    slot = {}        # uid -> {"owner": addr ip, "login_t": us|None, "tun_ip": str|None, "last_ok_s": int, "vack_t": us}
    asm = DownAsm()
    pending = {}     # (src, id, labels) -> (uid, recv second, src ip)  queries awaiting their answer
    delivered_ids = set()

    def sec(t_us):
        # seconds of the clock as it would read had it never been set back (steps are whole seconds, so it ticks when the
        # server's does): a gap measured with it is never shorter than the gap the server computes
        return (getattr(k, "epoch0_us", k.epoch_us) + t_us) // 1000000
    back = getattr(k, "stepped_back_s", 0)      # (the server may take a session for alive that much longer)

    def bad(key, what, ev, **kw):
        w = {"time_us": ev[0]}
        w.update(kw)
        viol.append((key, what, w))

    def delivery(uid, dst_ip, frame, ev):
        st["c04_deliveries_checked"] += 1
        s = slot.get(uid)
        a = _ip_of_frame(frame)
        entered = None
        if frame in offered:
            entered = offered[frame]["t"]
        elif frame in up_frames:
            entered = up_frames[frame]["t"]
        if a is not None and server_tun_ip is not None and a == server_tun_ip:
            # a packet addressed to the server's own tunnel address belongs on the server's tun, whatever the table says
            bad("C04:packet-for-the-server-sent-to-a-session", "a packet for the server's own tunnel address %s was sent to slot %r" % (a, uid), ev, slot=uid)
            return
        if s is None or s["login_t"] is None:
            bad("C04:delivered-to-session-not-logged-in", "a packet for %s was sent to slot %r, which is not logged in" % (a, uid), ev, slot=uid)
            return
        if a is not None and s["tun_ip"] is not None and a != s["tun_ip"]:
            bad("C04:delivered-to-wrong-session", "a packet for tunnel address %s was sent to slot %d, which was assigned %s" % (a, uid, s["tun_ip"]),
                ev, slot=uid, frame=frame.hex()[:120])
            return
        if entered is not None and entered < s["login_t"] and entered < s["vack_t"]:
            bad("C04:delivered-packet-from-before-session", "slot %d received a packet that entered the server before this session existed" % uid, ev, slot=uid)
            return
        if check_ip and s["owner"] is not None and dst_ip != s["owner"]:
            bad("C04:delivered-to-foreign-address", "a packet for slot %d (bound to %s) was sent to %s" % (uid, s["owner"], dst_ip), ev, slot=uid)
            return
        kinds.add(("delivered", "raw" if ev[3]["data"][:3] == proto.RAW_MAGIC else "dns", "c2c" if frame in up_frames else "tun"))

    def permitted(s, ip):
        return (not check_ip) or s["owner"] == ip

    for ev in k.log:
        kind, who, kw = ev[1], ev[2], ev[3]
        if who != srv:
            continue
        if kind == "tun_write":
            # a packet a session sent upstream has just been accepted and written out: that session is active now
            # (raw data has no acknowledgement on the wire; this is the only proof of its acceptance)
            rec = up_frames.get(bytes(kw["data"]))
            if rec is not None and rec.get("own") and slot.get(rec["slot"]) is not None:
                s = slot[rec["slot"]]
                if rec["t"] >= s.get("vack_t", 0):
                    s["last_ok_s"] = max(s["last_ok_s"], sec(ev[0]))
                    st["c04_activity_by_accepted_data"] = st.get("c04_activity_by_accepted_data", 0) + 1
            continue
        if kind == "recv":
            d = kw["data"]
            now_s = sec(ev[0])
            if d[:3] == proto.RAW_MAGIC:
                # raw data / ping / login may be accepted without any reply: "possibly accepted" keeps the
                # expiry rule from firing on a session that is in fact alive
                if len(d) >= 4:
                    s = slot.get(d[3] & 0x0F)
                    if s is not None:
                        s["last_maybe_s"] = max(s["last_maybe_s"], now_s)
                continue
            try:
                m = proto.parse_msg(d)
            except proto.ParseError:
                continue
            if m.qr or not m.qd:
                continue
            text = data_text(m.qd[0][0], dl)
            if not text:
                continue
            uid = named_slot(text)
            s = slot.get(uid)
            silent = None
            if s is not None:
                silent = now_s - max(s["last_ok_s"], s["last_maybe_s"])
                c0 = text[:1].lower()
                if (c0 in b"lp" or text[:1] in HEX) and permitted(s, kw["src"][0]):
                    # may be accepted and held back without an answer (lazy mode)
                    s["last_maybe_s"] = max(s["last_maybe_s"], now_s)
            # whether the source was the address the slot was bound to *when the request arrived* (a later
            # sanctioned rebind must not make an earlier, legitimately held query look foreign)
            pending[(kw["src"], m.id, tuple(m.qd[0][0]))] = (uid, now_s, kw["src"][0], silent,
                                                             s is None or permitted(s, kw["src"][0]))
            continue
        if kind != "send":
            continue
        d = kw["data"]
        now_s = sec(ev[0])
        if d[:3] == proto.RAW_MAGIC:
            if len(d) >= 4:
                cmd, uid = d[3] & 0xF0, d[3] & 0x0F
                s = slot.get(uid)
                if cmd == proto.RAW_LOGIN and s is not None:
                    # the sanctioned rebind: a correct raw login moves the session to the sender's address
                    if s["owner"] != kw["dst"][0]:
                        st["c04_rebinds"] += 1
                        kinds.add(("rebind-by-raw-login",))
                    s["owner"] = kw["dst"][0]
                    s["last_ok_s"] = max(s["last_ok_s"], now_s)
                elif cmd == proto.RAW_PING and s is not None:
                    s["last_ok_s"] = max(s["last_ok_s"], now_s)
                elif cmd == proto.RAW_DATA:
                    try:
                        fr = zlib.decompress(d[4:])
                    except zlib.error:
                        fr = None
                    if fr is not None and (fr in offered or fr in up_frames):
                        delivery(uid, kw["dst"][0], fr, ev)
            continue
        try:
            m = proto.parse_msg(d)
        except proto.ParseError:
            continue
        if not m.qr or not m.qd:
            continue
        text = data_text(m.qd[0][0], dl)
        if not text:
            continue
        try:
            p = proto.extract_payload(m)
        except (proto.Undecodable, proto.ParseError, IndexError, struct.error):
            continue
        q = pending.pop((kw["dst"], m.id, tuple(m.qd[0][0])), None)
        c = text[:1].lower()
        if c == b"v":
            if p[:4] == b"VACK" and len(p) >= 9:
                uid = p[8]
                asm.reset(uid)
                st["c04_vacks"] += 1
                old = slot.get(uid)
                if old is not None:
                    st["c04_takeover_checks"] += 1
                    gap = now_s - old["last_ok_s"]
                    # "never takes over a slot whose session was active during the last 60 seconds": a session whose
                    # last message was accepted exactly 60 s ago was active during the last 60 s (and is still served:
                    # it is refused only after *more* than 60 s); whole seconds, as the server's clock
                    if gap <= 60:
                        bad("C04:slot-taken-over", "a new session was given slot %d only %d s after that slot's session last had a message accepted" % (uid, gap),
                            ev, slot=uid, previous_owner=old["owner"], new_owner=kw["dst"][0])
                    else:
                        st["c04_slot_reuses"] += 1
                        kinds.add(("slot-reused", "gap=61" if gap == 61 else "gap>61"))
                slot[uid] = {"owner": kw["dst"][0], "login_t": None, "tun_ip": None, "last_ok_s": now_s, "last_maybe_s": now_s,
                             "vack_t": ev[0]}
            continue
        uid = named_slot(text)
        s = slot.get(uid)
        if s is None or q is None:
            # q is None: answer to a remembered duplicate / from the answer cache - carries no new acceptance
            continue
        q_uid, q_s, q_ip, silent, q_permitted = q
        is_pd = c == b"p" or text[:1] in HEX
        served = False
        if c == b"l":
            served = p not in (b"BADIP", b"BADLEN")
            if LOGIN_OK.match(p):
                s["login_t"] = ev[0]
                s["tun_ip"] = p.split(b"-")[1].decode()
        elif is_pd:
            served = len(p) >= 2 and p not in (b"BADIP", b"x")
            if served:
                h = proto.parse_down_header(p)
                fr = asm.feed(uid, h, p[2:], ev[0])
                if fr is not None and (fr in offered or fr in up_frames):
                    delivery(uid, kw["dst"][0], fr, ev)
        elif c in b"isonr":
            served = p not in (b"BADIP", b"BADLEN")
        else:
            continue
        what = "login" if c == b"l" else ("ping/data" if is_pd else c.decode().upper() + " request")
        if served:
            if silent is not None and silent >= 62 + back:
                bad("C04:expired-session-served", "%s naming slot %d was served %d s after the slot's last (possibly) accepted message"
                    % (what, uid, silent), ev, slot=uid)
            elif check_ip and not q_permitted:
                bad("C04:foreign-source-served", "%s naming slot %d (bound to %s) from %s was served with %r"
                    % (what, uid, s["owner"], q_ip, p[:12]), ev, slot=uid)
            else:
                kinds.add(("served", "l" if c == b"l" else "pd" if is_pd else c.decode()))
            if c == b"l" or is_pd:
                s["last_ok_s"] = max(s["last_ok_s"], q_s)      # these refresh the session's liveness
        elif p == b"BADIP":
            if silent is not None and silent >= 61 + back:
                st["c04_expired_requests_refused"] += 1
                kinds.add(("expired-refused", "l" if c == b"l" else "pd" if is_pd else c.decode()))
            elif check_ip and not q_permitted:
                st["c04_foreign_requests_refused"] += 1
                kinds.add(("foreign-refused", "l" if c == b"l" else "pd" if is_pd else c.decode()))
    return viol, st, kinds
