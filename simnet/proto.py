"""Independent implementation of iodine protocol 0x00000502 and the DNS wire format, written from
doc/proto_00000502.txt and RFC 1035 (not transliterated from the C sources).  Used by the monitors
as decoder/oracle and by the model client / hostile server as workload generator.
Python stdlib only.
"""
import hashlib
import struct
import zlib

T_A, T_NS, T_CNAME, T_NULL, T_MX, T_TXT, T_SRV, T_OPT = 1, 2, 5, 10, 15, 16, 33, 41
T_PRIVATE = 65399
QTYPES = {"NULL": T_NULL, "PRIVATE": T_PRIVATE, "TXT": T_TXT, "SRV": T_SRV, "MX": T_MX, "CNAME": T_CNAME, "A": T_A}
QTYPE_NAMES = {v: k for k, v in QTYPES.items()}
PROTOCOL_VERSION = 0x00000502
RAW_MAGIC = b"\x10\xd1\x9e"

# ---------------------------------------------------------------------------
# codecs: generic MSB-first bit packers over an alphabet

B32 = b"abcdefghijklmnopqrstuvwxyz012345"
B64 = b"abcdefghijklmnopqrstuvwxyzABCDEFGHIJKLMNOPQRSTUVWXYZ-0123456789+"
B64U = b"abcdefghijklmnopqrstuvwxyzABCDEFGHIJKLMNOPQRSTUVWXYZ-0123456789_"
B128 = (b"abcdefghijklmnopqrstuvwxyzABCDEFGHIJKLMNOPQRSTUVWXYZ0123456789" + bytes(range(0xBC, 0xFE)))
assert len(B32) == 32 and len(B64) == 64 and len(B64U) == 64 and len(B128) == 128


class Codec:
    def __init__(self, name, alphabet, bits, code, letter_txt, letter_host, fold=False):
        self.name = name
        self.alphabet = alphabet
        self.bits = bits
        self.code = code              # value used in the S (switch codec) request
        self.letter_txt = letter_txt  # downstream prefix letter in TXT answers
        self.letter_host = letter_host
        self.rev = {}
        for i, c in enumerate(alphabet):
            self.rev[c] = i
            if fold and 97 <= c <= 122:
                self.rev[c - 32] = i

    def encode(self, data):
        acc = 0
        nb = 0
        out = bytearray()
        b = self.bits
        mask = (1 << b) - 1
        al = self.alphabet
        for byte in data:
            acc = (acc << 8) | byte
            nb += 8
            while nb >= b:
                nb -= b
                out.append(al[(acc >> nb) & mask])
            acc &= (1 << nb) - 1
        if nb:
            out.append(al[(acc << (b - nb)) & mask])
        return bytes(out)

    def decode(self, text):
        """Unknown characters count as zero bits (what the C decoders document)."""
        acc = 0
        nb = 0
        out = bytearray()
        b = self.bits
        rev = self.rev
        for c in text:
            acc = (acc << b) | rev.get(c, 0)
            nb += b
            if nb >= 8:
                nb -= 8
                out.append((acc >> nb) & 0xFF)
                acc &= (1 << nb) - 1
        return bytes(out)

    def enc_len(self, n):
        return (8 * n + self.bits - 1) // self.bits

    def dec_len(self, nchars):
        return (nchars * self.bits) // 8


BASE32 = Codec("Base32", B32, 5, 5, b"t", b"h", fold=True)
BASE64 = Codec("Base64", B64, 6, 6, b"s", b"i")
BASE64U = Codec("Base64u", B64U, 6, 26, b"u", b"j")
BASE128 = Codec("Base128", B128, 7, 7, b"v", b"k")
CODECS = {"Base32": BASE32, "Base64": BASE64, "Base64u": BASE64U, "Base128": BASE128}
CODEC_BY_BITS = {5: BASE32, 6: BASE64, 26: BASE64U, 7: BASE128}
DOWN_BY_LETTER = {"T": BASE32, "S": BASE64, "U": BASE64U, "V": BASE128}


def b32_char(v):
    return B32[v & 31:(v & 31) + 1]


def b32_val(c):
    return BASE32.rev.get(c, 0)


# ---------------------------------------------------------------------------
# DNS wire format (builder + tolerant parser; the strict parser lives in dnsstrict.py)

def labels_from_dotted(name):
    """bytes 'a.b.c' -> [b'a', b'b', b'c'] (empty labels dropped like strtok does)."""
    return [l for l in name.split(b".") if l]


def encode_name(labels):
    out = bytearray()
    for l in labels:
        if not 1 <= len(l) <= 63:
            raise ValueError("label length %d" % len(l))
        out.append(len(l))
        out += l
    out.append(0)
    return bytes(out)


def build_query(qid, labels, qtype, edns0=False, rd=True, qclass=1):
    hdr = struct.pack(">HHHHHH", qid & 0xFFFF, 0x0100 if rd else 0, 1, 0, 0, 1 if edns0 else 0)
    body = encode_name(labels) + struct.pack(">HH", qtype, qclass)
    if edns0:
        body += b"\x00" + struct.pack(">HHHHH", T_OPT, 4096, 0, 0x8000, 0)
    return hdr + body


def dotsplit(data, maxlabel=57):
    """Split encoded text into labels of at most maxlabel chars."""
    return [data[i:i + maxlabel] for i in range(0, len(data), maxlabel)] or []


class ParseError(Exception):
    pass


def read_name(msg, off, depth=0):
    """Tolerant reader: returns (labels, next_offset). Raises ParseError on loops / overruns."""
    labels = []
    jumped = False
    nxt = None
    hops = 0
    total = 0
    while True:
        if off >= len(msg):
            raise ParseError("name runs past end")
        l = msg[off]
        if l == 0:
            off += 1
            break
        if l & 0xC0 == 0xC0:
            if off + 1 >= len(msg):
                raise ParseError("pointer truncated")
            tgt = ((l & 0x3F) << 8) | msg[off + 1]
            if not jumped:
                nxt = off + 2
            jumped = True
            hops += 1
            if hops > 64:
                raise ParseError("pointer loop")
            off = tgt
            continue
        if l & 0xC0:
            raise ParseError("bad label type")
        if off + 1 + l > len(msg):
            raise ParseError("label runs past end")
        labels.append(bytes(msg[off + 1:off + 1 + l]))
        total += l + 1
        if total > 255:
            raise ParseError("name too long")
        off += 1 + l
    return labels, (nxt if jumped else off)


class Msg:
    __slots__ = ("id", "flags", "qr", "rcode", "qd", "an", "ns", "ar", "raw")

    def __repr__(self):
        return "Msg(id=%d qr=%d rcode=%d qd=%r an=%d)" % (self.id, self.qr, self.rcode, self.qd[:1], len(self.an))


def parse_msg(data):
    """Tolerant DNS parser. Returns Msg or raises ParseError. RR = (labels, type, class, ttl, rdata_off, rdata_len)."""
    if len(data) < 12:
        raise ParseError("short header")
    m = Msg()
    m.raw = data
    m.id, m.flags, qd, an, ns, ar = struct.unpack_from(">HHHHHH", data, 0)
    m.qr = (m.flags >> 15) & 1
    m.rcode = m.flags & 15
    off = 12
    m.qd = []
    for _ in range(qd):
        labels, off = read_name(data, off)
        if off + 4 > len(data):
            raise ParseError("question truncated")
        t, c = struct.unpack_from(">HH", data, off)
        off += 4
        m.qd.append((labels, t, c))
    secs = []
    for cnt in (an, ns, ar):
        rrs = []
        for _ in range(cnt):
            labels, off = read_name(data, off)
            if off + 10 > len(data):
                raise ParseError("rr header truncated")
            t, c, ttl, rdl = struct.unpack_from(">HHIH", data, off)
            off += 10
            if off + rdl > len(data):
                raise ParseError("rdata truncated")
            rrs.append((labels, t, c, ttl, off, rdl))
            off += rdl
        secs.append(rrs)
    m.an, m.ns, m.ar = secs
    return m


def build_answer_raw(qid, qlabels, qtype, rrs, rcode=0, aa=True, compress=True, qclass=1, extra=b"",
                     counts=None):
    """rrs: list of (type, rdata bytes). Owner name is a pointer to the question (or repeated)."""
    flags = 0x8000 | (0x0400 if aa else 0) | (rcode & 15)
    q = encode_name(qlabels) + struct.pack(">HH", qtype, qclass)
    body = bytearray(q)
    for (t, rdata) in rrs:
        body += (b"\xc0\x0c" if compress else encode_name(qlabels))
        body += struct.pack(">HHIH", t, 1, 0, len(rdata)) + rdata
    qd, an, ns, ar = (1, len(rrs), 0, 0) if counts is None else counts
    return struct.pack(">HHHHHH", qid & 0xFFFF, flags, qd, an, ns, ar) + bytes(body) + extra


# ---------------------------------------------------------------------------
# upstream (client -> server) message construction

def host_labels(cmd, encoded, domain_labels, maxlabel=57):
    """cmd byte(s) + encoded payload, split into labels, followed by the tunnel domain."""
    text = cmd + encoded
    return dotsplit(text, maxlabel) + list(domain_labels)


def up_b32(cmd, payload, domain_labels):
    return host_labels(cmd, BASE32.encode(payload), domain_labels)


def msg_version(domain_labels, cmc, version=PROTOCOL_VERSION):
    return up_b32(b"v", struct.pack(">IH", version, cmc & 0xFFFF), domain_labels)


def login_hash(password, challenge):
    """MD5 of (first 32 bytes of zero-padded password) xor (8 x big-endian challenge)."""
    p = (password + b"\0" * 32)[:32]
    c = struct.pack(">I", challenge & 0xFFFFFFFF)
    return hashlib.md5(bytes(p[i] ^ c[i % 4] for i in range(32))).digest()


def msg_login(domain_labels, userid, digest, cmc):
    return up_b32(b"l", bytes([userid & 0xFF]) + digest + struct.pack(">H", cmc & 0xFFFF), domain_labels)


def cmc3(cmc):
    return b32_char(cmc >> 10) + b32_char(cmc >> 5) + b32_char(cmc)


def msg_ip(domain_labels, userid, cmc):
    return [b"i" + b32_char(userid) + cmc3(cmc)] + list(domain_labels)


def msg_switch_codec(domain_labels, userid, code, cmc):
    return [b"s" + b32_char(userid) + b32_char(code) + cmc3(cmc)] + list(domain_labels)


def msg_option(domain_labels, userid, optchar, cmc):
    return [b"o" + b32_char(userid) + optchar + cmc3(cmc)] + list(domain_labels)


def msg_downcheck(domain_labels, codecchar, variant, cmc):
    return [b"y" + codecchar + b32_char(variant) + cmc3(cmc)] + list(domain_labels)


def msg_upcheck(domain_labels, text, cmc):
    return [b"z" + cmc3(cmc) + text] + list(domain_labels)


def msg_fragprobe(domain_labels, userid, size, filler):
    hdr = b"r" + b32_char((userid << 1) | ((size >> 10) & 1)) + b32_char(size >> 5) + b32_char(size) + b"d"
    return host_labels(hdr, filler, domain_labels)


def msg_setfrag(domain_labels, userid, size, cmc):
    return up_b32(b"n", struct.pack(">BHH", userid & 0xFF, size & 0xFFFF, cmc & 0xFFFF), domain_labels)


def msg_ping(domain_labels, userid, dn_seq, dn_frag, cmc):
    return up_b32(b"p", struct.pack(">BBH", userid & 0xFF, ((dn_seq & 7) << 4) | (dn_frag & 15), cmc & 0xFFFF),
                  domain_labels)


DATACMC = b"abcdefghijklmnopqrstuvwxyz0123456789"


def data_header(userid, up_seq, up_frag, dn_seq, dn_frag, last, cmc_index):
    hexch = b"0123456789abcdef"[userid & 15:(userid & 15) + 1]
    c1 = b32_char(((up_seq & 7) << 2) | ((up_frag & 15) >> 2))
    c2 = b32_char(((up_frag & 3) << 3) | (dn_seq & 7))
    c3 = b32_char(((dn_frag & 15) << 1) | (1 if last else 0))
    return hexch + c1 + c2 + c3 + DATACMC[cmc_index % 36:cmc_index % 36 + 1]


def msg_data(domain_labels, header5, encoded_payload):
    return host_labels(header5, encoded_payload, domain_labels)


def parse_up_data_header(first_label_and_more):
    """Decode the 5-char upstream data header from the start of the query text."""
    t = first_label_and_more
    uid = int(t[0:1], 16)
    a, b, c = b32_val(t[1]), b32_val(t[2]), b32_val(t[3])
    return {"userid": uid, "up_seq": (a >> 2) & 7, "up_frag": ((a & 3) << 2) | ((b >> 3) & 3),
            "dn_seq": b & 7, "dn_frag": (c >> 1) & 15, "last": c & 1, "cmc": t[4:5]}


def raw_frame(cmd, userid, payload=b""):
    return RAW_MAGIC + bytes([(cmd & 0xF0) | (userid & 0x0F)]) + payload


RAW_LOGIN, RAW_DATA, RAW_PING = 0x10, 0x20, 0x30

# ---------------------------------------------------------------------------
# downstream (server -> client) payload extraction from a parsed answer


class Undecodable(Exception):
    pass


def _name_text(labels):
    return b".".join(labels)


def _host_decode(text):
    """One hostname-encoded chunk: prefix letter, dotted encoded data, '.xy' suffix."""
    if len(text) < 5:
        raise Undecodable("hostname chunk too short")
    letter = text[0:1].lower()
    body = text[1:len(text) - 3].replace(b".", b"")
    for c in (BASE32, BASE64, BASE64U, BASE128):
        if c.letter_host == letter:
            return c.decode(body)
    raise Undecodable("unknown hostname codec letter %r" % letter)


def _txt_strings(rdata):
    out = []
    i = 0
    while i < len(rdata):
        l = rdata[i]
        i += 1
        if i + l > len(rdata):
            raise Undecodable("TXT string overruns RDATA")
        out.append(rdata[i:i + l])
        i += l
    return out


def extract_payload(m, qtype=None):
    """Payload carried by answer Msg m (the bytes the client hands to its tunnel logic)."""
    if not m.qd:
        raise Undecodable("no question")
    if qtype is None:
        qtype = m.qd[0][1]
    if not m.an:
        raise Undecodable("no answer records")
    data = m.raw
    if qtype in (T_NULL, T_PRIVATE):
        _l, _t, _c, _ttl, off, rdl = m.an[0]
        return bytes(data[off:off + rdl])
    if qtype == T_TXT:
        _l, t, _c, _ttl, off, rdl = m.an[0]
        text = b"".join(_txt_strings(data[off:off + rdl]))
        if not text:
            raise Undecodable("empty TXT")
        letter = text[0:1].lower()
        if letter == b"r":
            return bytes(text[1:])
        for c in (BASE32, BASE64, BASE64U, BASE128):
            if c.letter_txt == letter:
                return c.decode(text[1:])
        raise Undecodable("unknown TXT codec letter %r" % letter)
    if qtype in (T_CNAME, T_A):
        _l, t, _c, _ttl, off, rdl = m.an[0]
        if t != T_CNAME:
            raise Undecodable("answer to CNAME/A question is type %d" % t)
        labels, _ = read_name(data, off)
        return _host_decode(_name_text(labels))
    if qtype in (T_MX, T_SRV):
        byp = {}
        for (_l, t, _c, _ttl, off, rdl) in m.an:
            if t != qtype:
                continue
            pref = struct.unpack_from(">H", data, off)[0]
            noff = off + (6 if qtype == T_SRV else 2)
            labels, _ = read_name(data, noff)
            byp[pref] = _name_text(labels)
        out = b""
        k = 10
        while k in byp:
            out += _host_decode(byp[k])
            k += 10
        if not byp:
            raise Undecodable("no MX/SRV records")
        return out
    raise Undecodable("qtype %d" % qtype)


def parse_down_header(payload):
    """2-byte downstream data header -> dict (payload must be >= 2 bytes)."""
    b0, b1 = payload[0], payload[1]
    return {"compressed": b0 >> 7, "up_seq": (b0 >> 4) & 7, "up_frag": b0 & 15,
            "dn_seq": (b1 >> 5) & 7, "dn_frag": (b1 >> 1) & 15, "last": b1 & 1}


def deflate(frame):
    return zlib.compress(frame, 9)


def inflate(data):
    return zlib.decompress(data)


TUN_HDR = b"\x00\x00\x08\x00"


def make_frame(src_ip, dst_ip, ident, size, style="random", rng=None):
    """A tun frame: 4-byte Linux tun header + IPv4-like packet with a unique 8-byte id in the payload.
    size = total frame length (>= 4+20+8 for a full header; shorter sizes produce truncated frames)."""
    import socket as _s
    n_ip = max(size - 4, 0)
    hdr = bytearray(20)
    hdr[0] = 0x45
    struct.pack_into(">H", hdr, 2, n_ip & 0xFFFF)
    hdr[8] = 64
    hdr[9] = 17
    hdr[12:16] = _s.inet_aton(src_ip)
    hdr[16:20] = _s.inet_aton(dst_ip)
    body_n = max(n_ip - 20, 0)
    idb = struct.pack(">Q", ident)
    if style == "zeros":
        fill = b"\0" * body_n
    elif style == "text":
        fill = (b"The quick brown fox jumps over the lazy dog. " * (body_n // 45 + 1))[:body_n]
    else:
        fill = bytes(rng.getrandbits(8) for _ in range(body_n)) if rng else bytes((i * 131 + 7) & 255 for i in range(body_n))
    body = (idb + fill)[:body_n] if body_n >= 8 else fill[:body_n]
    return (TUN_HDR + bytes(hdr) + body)[:max(size, 0)] if size >= 24 else (TUN_HDR + bytes(hdr))[:size]


def frame_ident(frame):
    if len(frame) >= 32:
        return struct.unpack_from(">Q", frame, 24)[0]
    return None
