"""Adversarial multi-session histories against the real server: the workload of C03 (no privileged
effect without answering the current challenge) and of the history monitors of C04 (routing by
tunnel address, no slot takeover, expiry).

A history is a seeded sequence of operations by *parties* (model clients): legitimate sessions at
every stage (version only, failed login, logged in, raw mode), and attackers that name other
parties' userids - from the owner's own address or from foreign addresses - in every privileged
command, with login responses for stale / foreign / off-by-one challenges, interleaved with time
advances across the 60 s expiry and with slot reuse.  Every tun frame put into the system carries
a unique id, so that any delivery identifies the message that carried it.
"""
import random
import socket
import struct

from . import kernel, mclient, proto, scen
from .scen import US

TUNS = ["10.9.0.1/24", "10.9.0.1/24", "10.9.0.5/28", "172.20.1.1/16", "10.9.0.1/29", "10.9.0.2/30",
        "10.0.0.1/8", "192.168.77.129/27", "10.9.0.14/28", "10.9.0.6/29"]
# the server in the middle / at the end of the block of addresses it hands out (all 16 slots in use)
CROWD_TUNS = ["10.9.0.16/27", "10.9.0.17/27", "10.9.0.15/27", "10.9.0.8/24", "172.20.0.16/16", "10.9.0.1/24", "192.168.77.145/27", "10.9.0.18/24"]
CMDS = ["I", "S", "O", "N", "R", "P", "data", "rawlogin", "rawdata", "rawping"]
LOGINS = ["L_replay", "L_other", "L_bitflip", "L_pm1", "L_short", "L_wrongpw", "L_truncdigest", "L_relatedpw"]


def gen_cfg(rng, idx):
    pw = bytes(rng.choice(range(1, 256)) for _ in range(rng.choice([1, 3, 6, 8, 16, 31, 32, 32])))
    if rng.random() < 0.4:
        pw = rng.choice([b"secret", b"x", b"correct horse battery staple!!!", b"\xff" * 32, b"pass word", b"Two Words", b"tab\there", b"MiXeD case 123"])
    cfg = {"tun": TUNS[idx % len(TUNS)] if idx < 2 * len(TUNS) else rng.choice(TUNS),
            "check_ip_off": rng.random() < 0.4,
            "password_hex": pw.hex(),
            "nops": rng.randint(35, 90),
            "v6": rng.random() < 0.35,
            "qtype": rng.choice(list(proto.QTYPES.values())),
            # the server is given its password on standard input (no -P, no environment variable) when that is possible
            "pw_stdin": rng.random() < 0.3 and b"\n" not in pw and b"\0" not in pw and pw.strip() == pw and len(pw) <= 32,
            "jail": rng.random() < 0.25,
            "rseed": rng.getrandbits(32)}
    if idx % 8 == 5:
        # a full house: every slot of a 16-slot pool taken before the history starts
        cfg.update(tun=CROWD_TUNS[(idx // 8) % len(CROWD_TUNS)], crowd=True)
    cfg["clock_steps"] = idx % 5 == 2       # histories in which the server's wall clock is set back now and then
    # other options of iodined, written behind the password on the command line (their arguments are no passwords)
    orng = random.Random(cfg["rseed"] ^ 0x0A7E)
    cfg["opts_after"] = orng.choice([[], [], ["-i", "3600"], ["-i", "86400", "-p", "53"], ["-m", "1200"], ["-n", "192.0.2.9"], ["-p", "53", "-D"],
                                     ["-l", "0.0.0.0"], ["-i", "7200", "-m", "1000"]])
    return cfg


class Party:
    def __init__(self, mc, role, name):
        self.mc = mc
        self.role = role
        self.name = name
        self.slot = None
        self.stage = "none"      # none | v | l | raw
        self.last_act = None     # virtual us of the last message this party had accepted (best knowledge)
        self.login_t = None
        self.dead = False        # believed expired / slot lost


class Hist:
    pass


def _ip4(n):
    return socket.inet_ntoa(struct.pack("<I", n))     # tun_ip in the snapshot is in network byte order (LE load)


def run_history(tag, cfg, seed, nops=None):
    rng = random.Random(cfg["rseed"] ^ (seed * 2654435761 & 0xFFFFFFFF))
    sim = scen.Sim(tag, seed)
    k = sim.k
    k.keep_snaps = True
    H = Hist()
    H.sim, H.k, H.cfg, H.rng = sim, k, cfg, rng
    H.password = bytes.fromhex(cfg["password_hex"])
    H.ok = False
    H.why = None
    H.parties = []
    H.up_frames = {}       # frame bytes -> {"slot", "via", "dgrams": [bytes], "by": party name, "t"}
    H.offered = {}         # frame bytes -> {"t", "dst"}
    H.slot_challenges = {} # slot -> [challenges handed out, in order]
    H.ops = {}
    H.attacks = {}         # (kind, target state, source) -> count
    H.ident = 1
    extra = ["-c"] if cfg["check_ip_off"] else []
    if cfg.get("jail"):
        extra += ["-t", "/var/empty"]          # iodined chroots into an empty directory after start-up
    H.srv = sim.server(tun=cfg["tun"], password=H.password, extra=extra, password_on_stdin=bool(cfg.get("pw_stdin")),
                       extra_after=cfg.get("opts_after") or ())
    H.argv_words = [w.encode() for w in (cfg.get("opts_after") or []) if not w.startswith("-")] + [cfg["tun"].encode(), sim.domain.encode()]
    if not H.srv.alive():
        H.why = "server-died-at-start"
        return H
    H.server_tun_ip = cfg["tun"].split("/")[0]
    H.bits = int(cfg["tun"].split("/")[1])
    H.domain = sim.domain
    H.nleg = 0
    H.natt = 0
    n = cfg["nops"] if nops is None else nops
    # start with two sessions so that there is always something to attack
    _join(H, "l")
    _join(H, rng.choice(["v", "l", "raw"]))
    if cfg.get("crowd"):
        for _c in range(14):
            _join(H, rng.choice(["l", "l", "l", "raw"]))
        # everybody talks to the server and to a neighbour once
        live = [p for p in H.parties if p.role == "legit" and p.stage in ("l", "raw")]
        for p in live:
            _send_up(H, p, _frame(H, p.mc.tun_ip, H.server_tun_ip))
        for p in live[::3]:
            o = rng.choice(live)
            if o is not p:
                _send_up(H, p, _frame(H, p.mc.tun_ip, o.mc.tun_ip))
                o.mc.pump(300000, 60000)
    weights = (["join"] * 3 + ["join_same_ip"] * 2 + ["legit"] * 6 + ["down"] * 3 + ["attack"] * 10 + ["login_attack"] * 5 +
               ["advance"] * 3 + ["raw_stream"] * 1 + ["reuse"] * 2 + ["down_odd"] * 2 + ["raw_shadow"] * 2 +
               (["clock_back"] * 2 if cfg.get("clock_steps") else []))
    for _ in range(n):
        if not H.srv.alive() or k.stalled:
            break
        op = rng.choice(weights)
        H.ops[op] = H.ops.get(op, 0) + 1
        OPS[op](H)
    # let everything drain: every party that believes it has a slot polls for a while
    for p in H.parties:
        if p.stage in ("l", "raw") and not p.dead and H.srv.alive():
            p.mc.pump(600000, 100000)
    H.ok = True
    return H


# ---------------------------------------------------------------------------

class PortRouter(kernel.Actor):
    """Several model clients behind one address (a NAT / a shared resolver): answers go to whoever owns the port."""

    def __init__(self, ip, first):
        kernel.Actor.__init__(self, ip)
        self.children = [first]

    def on_datagram(self, src, dst, data):
        for c in self.children:
            if c.sport == dst[1]:
                return c.on_datagram(src, dst, data)
        return self.children[0].on_datagram(src, dst, data)


def _new_party(H, role, share_with=None, ip_override=None):
    rng = H.rng
    v6 = H.cfg["v6"] and rng.random() < 0.5
    if ip_override is not None:
        ip = ip_override
        v6 = ":" in ip
        H.natt += 1
    elif share_with is not None:
        ip = share_with.mc.ip
        v6 = ":" in ip
        H.nleg += 1
    elif role == "legit":
        H.nleg += 1
        ip = ("fd53::2:%x" % H.nleg) if v6 else "10.53.2.%d" % H.nleg
    else:
        H.natt += 1
        # (IPv6 outsiders partly share the leading bits of the legitimate clients' addresses: same provider, same site)
        ip = (H.rng.choice(["fd66::%x", "fd53::66:%x", "fd53:0:1::%x", "fd53::2:%x00"]) % H.natt) if v6 else "10.66.0.%d" % H.natt
    server = (scen.SERVER_IP6 if v6 else scen.SERVER_IP, 53)
    mc = mclient.ModelClient(ip, server, H.domain, H.password, random.Random(rng.getrandbits(32)),
                             qtype=H.cfg["qtype"] if rng.random() < 0.6 else rng.choice(list(proto.QTYPES.values())))
    if share_with is not None:
        cur = H.k.actors[ip]
        if not isinstance(cur, PortRouter):
            cur = PortRouter(ip, cur)
            H.k.add_actor(ip, cur)
        used = {c.sport for c in cur.children}
        while mc.sport in used:
            mc.sport = rng.randrange(1024, 65000)
        mc.kernel = H.k
        cur.children.append(mc)
    else:
        H.k.add_actor(ip, mc)
    p = Party(mc, role, "%s%d" % (role[0], H.nleg if role == "legit" else H.natt))
    H.parties.append(p)
    return p


def _version(H, p):
    pl = p.mc.version()
    if pl and pl[:4] == b"VACK" and len(pl) >= 9:
        p.slot = p.mc.userid
        p.stage = "v"
        p.dead = False
        p.last_act = H.k.now
        H.slot_challenges.setdefault(p.slot, []).append(p.mc.challenge)
        # whoever held that slot before has lost it
        for o in H.parties:
            if o is not p and o.slot == p.slot:
                o.dead = True
        return True
    return False


def _login(H, p):
    r = p.mc.login()
    if r is not None and p.mc.login_reply is not None:
        p.stage = "l"
        p.login_t = H.k.now
        p.last_act = H.k.now
        return True
    return False


def _raw_login(H, p):
    n0 = len(p.mc.raw_in)
    p.mc.raw_login()
    H.k.run(H.k.now + 50000)
    if len(p.mc.raw_in) > n0:
        p.stage = "raw"
        p.last_act = H.k.now
        return True
    return False


def _join(H, want=None, share_with=None):
    rng = H.rng
    p = _new_party(H, "legit", share_with)
    if not _version(H, p):
        return p
    want = want or rng.choice(["v", "badlogin", "l", "l", "l", "raw"])
    if want == "v":
        return p
    if want == "badlogin":
        d = bytearray(proto.login_hash(H.password, p.mc.challenge))
        d[rng.randrange(16)] ^= 1 << rng.randrange(8)
        p.mc.login(digest=bytes(d))
        if rng.random() < 0.5:
            return p
    if not _login(H, p):
        return p
    mc = p.mc
    if rng.random() < 0.5:
        mc.switch_codec(rng.choice(list(proto.CODECS.values())))
    if rng.random() < 0.3 and mc.qtype == proto.T_TXT:
        mc.option(rng.choice([b"s", b"u", b"v", b"r"]))
    if rng.random() < 0.4:
        mc.option(b"l")
    if rng.random() < 0.7:
        mc.set_frag(rng.choice([100, 200, 1200]) if mc.qtype in (proto.T_NULL, proto.T_PRIVATE, proto.T_TXT) else 100)
    if want == "raw":
        _raw_login(H, p)
    return p


def _alive(H, p, margin_s=55):
    return (not p.dead) and p.last_act is not None and H.k.now - p.last_act < margin_s * US


def _frame(H, src, dst, size=None):
    H.ident += 1
    size = size or H.rng.choice([32, 36, 40, 60, 100])
    return proto.make_frame(src, dst, (0xC3 << 40) | H.ident, size, H.rng.choice(["random", "text"]), H.rng)


def _send_up(H, p, frame, slot=None, via=None):
    """Party p sends `frame` upstream naming `slot` (default its own); single fragment for foreign slots."""
    mc = p.mc
    slot = p.slot if slot is None else slot
    own = slot == p.slot and p.stage in ("l", "raw") and not p.dead
    via = via or ("raw" if (p.stage == "raw" and own and H.rng.random() < 0.7) else "dns")
    rec = {"slot": slot, "via": via, "dgrams": [], "by": p.name, "t": H.k.now, "own": own}
    H.up_frames[frame] = rec
    if via == "raw":
        d = proto.raw_frame(proto.RAW_DATA, slot, proto.deflate(frame))
        rec["dgrams"].append(d)
        mc.send_raw_dgram(d)
        H.k.run(H.k.now + 30000)
        if own:
            p.last_act = H.k.now       # (no acknowledgement exists for raw data; best knowledge)
        return
    if own:
        ok = mc.send_frame(frame, wait_us=120000, max_tries=3)
        rec["dgrams"] = list(mc.final_dgrams)
        if ok:
            p.last_act = H.k.now
        return
    # somebody else's (or an unauthenticated) slot: one self-contained final fragment with a sequence
    # number the server would take as new
    seq = H.rng.randrange(8)
    snap = H.srv.snapshot
    if slot is not None and 0 <= slot < len(snap):
        seq = (snap[slot]["in_seq"] + 1 + H.rng.randrange(3)) & 7
    data = proto.deflate(frame)
    hdr = proto.data_header(slot & 15, seq, 0, 0, 0, 1, mc.datacmc)
    mc.datacmc += 1
    labels = proto.msg_data(mc.domain, hdr, proto.BASE32.encode(data))
    mc.query(labels)
    rec["dgrams"].append(mc.dgrams[-1])
    H.k.run(H.k.now + 30000)
    mc.drain()


def op_join(H):
    _join(H)


def op_join_same_ip(H):
    """A newcomer behind the address of a session that is still live (second client behind one NAT / resolver):
    it does the version handshake and then behaves like any party at that stage - including sending data and
    commands without having logged in."""
    live = [p for p in H.parties if p.role == "legit" and p.stage in ("l", "raw") and _alive(H, p)]
    if not live:
        return _join(H)
    owner = H.rng.choice(live)
    want = H.rng.choice(["v", "v", "badlogin", "l"])
    p = _join(H, want, share_with=owner)
    if p.slot is None:
        return
    if want != "l" or p.stage != "l":
        # not logged in: whatever slot the server handed out, nothing privileged may come of its traffic
        for _ in range(H.rng.randint(1, 3)):
            f = _frame(H, owner.mc.tun_ip or "10.9.0.2", H.server_tun_ip)
            _send_up(H, p, f, slot=p.slot)
            H.attacks[("data", "same-ip-newcomer", "owner-ip")] = H.attacks.get(("data", "same-ip-newcomer", "owner-ip"), 0) + 1
        p.mc.query(p.mc.ping_labels() if hasattr(p.mc, "ping_labels") else proto.msg_ping(p.mc.domain, p.slot, 0, 0, p.mc.new_cmc()))
        H.k.run(H.k.now + 30000)
        p.mc.drain()


def op_legit(H):
    rng = H.rng
    c = [p for p in H.parties if p.role == "legit" and p.stage in ("l", "raw") and _alive(H, p)]
    if not c:
        return _join(H, "l")
    p = rng.choice(c)
    mc = p.mc
    act = rng.choice(["ping", "ping", "up", "up", "c2c", "opt", "ip", "rawping"])
    if act == "ping":
        mc.ping(rng.choice([2000, 50000]))
        p.last_act = H.k.now
    elif act == "up":
        _send_up(H, p, _frame(H, mc.tun_ip, H.server_tun_ip))
    elif act == "c2c":
        others = [o for o in c if o is not p]
        if others:
            o = rng.choice(others)
            _send_up(H, p, _frame(H, mc.tun_ip, o.mc.tun_ip))
            o.mc.pump(300000, 60000)
            o.last_act = H.k.now
    elif act == "opt":
        w = rng.randrange(3)
        if w == 0:
            mc.switch_codec(rng.choice(list(proto.CODECS.values())))
        elif w == 1:
            mc.option(rng.choice([b"l", b"i", b"t"]))
        else:
            mc.set_frag(rng.choice([50, 100, 200]))
        p.last_act = H.k.now
    elif act == "ip":
        mc.ip_request()
    elif act == "rawping" and p.stage == "raw":
        mc.raw_ping()
        H.k.run(H.k.now + 20000)
        p.last_act = H.k.now


def _slot_ip(H, slot):
    snap = H.srv.snapshot
    if 0 <= slot < len(snap):
        return _ip4(snap[slot]["tun_ip"])
    return None


def op_down(H):
    rng = H.rng
    c = [p for p in H.parties if p.stage in ("l", "raw") and _alive(H, p)]
    if not c:
        return
    p = rng.choice(c)
    f = _frame(H, H.server_tun_ip, p.mc.tun_ip, size=rng.choice([40, 100, 300]))
    H.offered[f] = {"t": H.k.now, "dst": p.mc.tun_ip}
    H.k.offer_tun("srv", f, H.ident)
    p.mc.pump(rng.choice([200000, 600000]), 50000)
    p.last_act = H.k.now


def op_down_odd(H):
    """Frames for addresses that must not be served: slots that have only done V, expired or
    never-used slots, addresses outside the pool; then everybody polls."""
    rng = H.rng
    snap = H.srv.snapshot
    kind = rng.choice(["vonly", "expired", "unused", "outside", "server"])
    dst = None
    if kind == "vonly":
        c = [p for p in H.parties if p.stage == "v" and not p.dead and p.slot is not None]
        if c:
            dst = _slot_ip(H, rng.choice(c).slot)
    elif kind == "expired":
        c = [p for p in H.parties if p.stage in ("l", "raw") and p.last_act is not None and H.k.now - p.last_act > 62 * US]
        if c:
            dst = c[0].mc.tun_ip
    elif kind == "unused":
        c = [i for i, u in enumerate(snap) if not u["active"]]
        if c:
            dst = _slot_ip(H, rng.choice(c))
    elif kind == "server":
        dst = H.server_tun_ip
    if dst is None:
        dst = "198.51.100.%d" % rng.randint(1, 250)
    f = _frame(H, H.server_tun_ip, dst)
    H.offered[f] = {"t": H.k.now, "dst": dst, "odd": kind}
    H.k.offer_tun("srv", f, H.ident)
    H.k.run(H.k.now + 20000)
    for p in H.parties:
        if p.slot is not None and p.stage != "none" and H.srv.alive():
            p.mc.ping(10000)
            if p.stage == "raw":
                p.mc.raw_ping()
    H.k.run(H.k.now + 50000)
    for p in H.parties:
        p.mc.drain()


def _pick_target(H):
    """(slot, state label, owner party or None)"""
    rng = H.rng
    snap = H.srv.snapshot
    r = rng.random()
    if r < 0.35:
        c = [p for p in H.parties if p.stage == "v" and not p.dead and p.slot is not None]
        if c:
            p = rng.choice(c)
            return p.slot, "vonly", p
    if r < 0.6:
        c = [p for p in H.parties if p.stage in ("l", "raw") and not p.dead and p.slot is not None]
        if c:
            p = rng.choice(c)
            return p.slot, "authed" if _alive(H, p, 58) else "stale", p
    if r < 0.75:
        c = [p for p in H.parties if p.dead and p.slot is not None]
        if c:
            p = rng.choice(c)
            return p.slot, "lost", p
    if r < 0.88:
        c = [i for i, u in enumerate(snap) if not u["active"]]
        if c:
            return rng.choice(c), "never", None
    return rng.choice([len(snap), 15, 16, 17, 31, 200, 255]), "range", None


def _attacker(H, owner, want_foreign):
    if owner is not None and not want_foreign:
        return owner, "owner"
    if owner is not None and ":" not in owner.mc.ip and H.rng.random() < 0.15:
        # somebody in the other address family whose address ends in the very 32 bits of the owner's IPv4 address
        # (2001:db8:1:2::c633:6409 against 198.51.100.9): another host altogether
        b = socket.inet_aton(owner.mc.ip)
        twin = H.rng.choice(["2001:db8:1:2::%x:%x", "fd53::%x:%x", "fd00:1::ffff:%x:%x"]) % ((b[0] << 8) | b[1], (b[2] << 8) | b[3])
        for p in H.parties:
            if p.mc.ip == twin:
                return p, "foreign"
        if twin not in H.k.actors:
            return _new_party(H, "attacker", ip_override=twin), "foreign"
    c = [p for p in H.parties if p.role == "attacker"]
    if c and H.rng.random() < 0.7:
        a = H.rng.choice(c)
    else:
        a = _new_party(H, "attacker")
        if H.rng.random() < 0.3:
            _version(H, a)      # an attacker may legitimately hold a slot of its own (not logged in)
    return a, "foreign"


def _do_cmd(H, a, slot, kind):
    """Party a sends privileged command `kind` naming `slot`."""
    rng = H.rng
    mc = a.mc
    dom = mc.domain
    k = H.k
    if kind == "I":
        mc.ask(proto.msg_ip(dom, slot, mc.new_cmc()), timeout_us=100000)
    elif kind == "S":
        mc.ask(proto.msg_switch_codec(dom, slot, rng.choice([5, 6, 26, 7]), mc.new_cmc()), timeout_us=100000)
    elif kind == "O":
        mc.ask(proto.msg_option(dom, slot, rng.choice([b"t", b"s", b"u", b"v", b"r", b"l", b"i"]), mc.new_cmc()), timeout_us=100000)
    elif kind == "N":
        mc.ask(proto.msg_setfrag(dom, slot, rng.choice([2, 50, 199, 1200, 4000]), mc.new_cmc()), timeout_us=100000)
    elif kind == "R":
        mc.ask(proto.msg_fragprobe(dom, slot & 15, rng.choice([2, 100, 500]), proto.BASE32.encode(bytes(20))), timeout_us=100000)
    elif kind == "P":
        mc.ask(proto.msg_ping(dom, slot, rng.randrange(8), rng.randrange(16), mc.new_cmc()), timeout_us=100000)
    elif kind == "data":
        if slot > 15:
            slot &= 15
        _send_up(H, a, _frame(H, "10.250.0.%d" % rng.randint(1, 250), H.server_tun_ip if rng.random() < 0.6 else _any_client_ip(H)), slot=slot, via="dns")
    elif kind == "rawlogin":
        ch = (H.slot_challenges.get(slot) or [rng.getrandbits(32)])[-1]
        v = rng.randrange(4)
        if v == 0:      # the correct raw response - only privileged if the slot has done its DNS login
            dg = proto.login_hash(H.password, (ch + 1) & 0xFFFFFFFF)
        elif v == 1:    # the DNS-login response replayed as raw login
            dg = proto.login_hash(H.password, ch)
        elif v == 2:
            dg = proto.login_hash(H.password, (ch - 1) & 0xFFFFFFFF)
        else:
            dg = bytes(rng.getrandbits(8) for _ in range(16))
        mc.send_raw_dgram(proto.raw_frame(proto.RAW_LOGIN, slot & 15, dg + (b"" if rng.random() < 0.8 else b"x" * 5)))
        k.run(k.now + 30000)
    elif kind == "rawdata":
        _send_up(H, a, _frame(H, "10.250.1.%d" % rng.randint(1, 250), H.server_tun_ip if rng.random() < 0.6 else _any_client_ip(H)), slot=slot & 15, via="raw")
    elif kind == "rawping":
        mc.send_raw_dgram(proto.raw_frame(proto.RAW_PING, slot & 15))
        k.run(k.now + 20000)


def _any_client_ip(H):
    c = [p for p in H.parties if p.stage in ("l", "raw") and p.mc.tun_ip]
    return H.rng.choice(c).mc.tun_ip if c else H.server_tun_ip


def op_attack(H):
    rng = H.rng
    slot, state, owner = _pick_target(H)
    a, src = _attacker(H, owner, want_foreign=(state in ("authed", "stale") or rng.random() < 0.5))
    for _ in range(rng.randint(1, 4)):
        kind = rng.choice(CMDS)
        H.attacks[(kind, state, src)] = H.attacks.get((kind, state, src), 0) + 1
        _do_cmd(H, a, slot, kind)


def op_login_attack(H):
    """Login responses that must not open the slot, followed by privileged commands from the same party."""
    rng = H.rng
    c = [p for p in H.parties if p.stage == "v" and not p.dead and p.slot is not None]
    if not c or rng.random() < 0.25:
        p = _new_party(H, "legit")
        if not _version(H, p):
            return
    else:
        p = rng.choice(c)
    slot = p.slot
    ch = p.mc.challenge
    pw = H.password
    a, src = _attacker(H, p, want_foreign=rng.random() < 0.3)
    kind = rng.choice(LOGINS)
    good = proto.login_hash(pw, ch)
    dg = None
    if kind == "L_replay":
        old = [x for x in H.slot_challenges.get(slot, [])[:-1] if x != ch]
        if old:
            dg = proto.login_hash(pw, rng.choice(old))
    elif kind == "L_other":
        oth = [x[-1] for s, x in H.slot_challenges.items() if s != slot and x and x[-1] != ch]
        if oth:
            dg = proto.login_hash(pw, rng.choice(oth))
    elif kind == "L_bitflip":
        b = bytearray(good)
        b[rng.randrange(16)] ^= 1 << rng.randrange(8)
        dg = bytes(b)
    elif kind == "L_pm1":
        dg = proto.login_hash(pw, (ch + rng.choice([1, -1, 256, -256, 1 << 24])) & 0xFFFFFFFF)
    elif kind == "L_relatedpw":
        # a password related to the real one the way careless input handling relates them: the first word only, the last
        # character dropped, cut at 8 / 16 / 31 characters, the case of letters swapped, high bits stripped, a newline attached
        p0 = pw
        alts = [p0.split(b" ")[0], p0.split(b"\t")[0], p0[:-1], p0[:8], p0[:16], p0[:31], p0.swapcase(), bytes(c & 0x7F for c in p0),
                p0 + b"\n", p0.strip(), p0.lower()]
        alts += list(getattr(H, "argv_words", []))       # ... or something else that stood on iodined's command line
        alts = [a for a in alts if (a + b"\0" * 32)[:32] != (p0 + b"\0" * 32)[:32]]
        dg = proto.login_hash(rng.choice(alts), ch) if alts else None
    elif kind == "L_wrongpw":
        alt = bytearray((pw + b"\0" * 32)[:32])
        alt[rng.randrange(32)] ^= rng.choice([1, 0x20, 0x80])
        dg = proto.login_hash(bytes(alt), ch)
    H.attacks[(kind, "vonly", src)] = H.attacks.get((kind, "vonly", src), 0) + 1
    mc = a.mc
    if kind == "L_short":
        # correct digest but no CMC bytes behind it (17 bytes), or digest cut to 15 bytes
        mc.ask(proto.up_b32(b"l", bytes([slot & 0xFF]) + good, mc.domain), timeout_us=100000)
    elif kind == "L_truncdigest":
        mc.ask(proto.up_b32(b"l", bytes([slot & 0xFF]) + good[:15] + struct.pack(">H", mc.new_cmc()), mc.domain), timeout_us=100000)
    elif dg is not None:
        mc.ask(proto.msg_login(mc.domain, slot, dg, mc.new_cmc()), timeout_us=100000)
    else:
        return
    for _ in range(rng.randint(1, 3)):
        kind2 = rng.choice(CMDS)
        H.attacks[(kind2, "after-bad-login", src)] = H.attacks.get((kind2, "after-bad-login", src), 0) + 1
        _do_cmd(H, a, slot, kind2)
    # sometimes the rightful owner then logs in properly: the slot must work afterwards
    if rng.random() < 0.3 and a is p:
        _login(H, p)


def op_advance(H):
    rng = H.rng
    k = H.k
    dt = rng.choice([1, 5, 20, 50, 58, 59, 60, 60, 60, 61, 61, 62, 70, 125])
    keep = [p for p in H.parties if p.stage in ("l", "raw") and _alive(H, p) and rng.random() < 0.6]
    end = k.now + dt * US
    while k.now < end and H.srv.alive():
        k.run(min(end, k.now + 20 * US))
        for p in keep:
            if p.stage == "raw" and rng.random() < 0.5:
                p.mc.raw_ping()
                k.run(k.now + 5000)
            else:
                p.mc.ping(10000)
            p.last_act = k.now


def op_clock_back(H):
    """The server's wall clock is set back (NTP step, leap second, an administrator): sessions that were active a moment ago
    now have a time stamp in the future.  Newcomers arrive right afterwards; the live sessions carry on."""
    rng = H.rng
    k = H.k
    live = [p for p in H.parties if p.stage in ("l", "raw") and _alive(H, p)]
    for p in live[:4]:
        p.mc.ping(10000)
        p.last_act = k.now
    k.run(k.now + rng.choice([100000, 900000, 1500000]))
    k.clock_step(rng.choice([1, 2, 3, 5, 10, 30, 59, 61, 3600]))
    H.clock_steps = getattr(H, "clock_steps", 0) + 1
    for _ in range(rng.randint(1, 3)):
        k.run(k.now + rng.choice([10000, 400000, 1100000]))
        _join(H, rng.choice(["v", "l", "l"]))
    for p in live[:4]:
        if H.srv.alive():
            p.mc.ping(10000)
            p.last_act = k.now


def op_raw_stream(H):
    """A raw-mode session that is busy for longer than the expiry time without ever idling: only raw DATA, no pings,
    a packet every 15-45 s for 70-150 s; then a newcomer asks for a slot."""
    rng = H.rng
    k = H.k
    c = [p for p in H.parties if p.role == "legit" and p.stage == "raw" and _alive(H, p)]
    if not c:
        p = _join(H, "raw")
        if p.stage != "raw":
            return
    else:
        p = rng.choice(c)
    end = k.now + rng.choice([70, 100, 150]) * US
    while k.now < end and H.srv.alive():
        _send_up(H, p, _frame(H, p.mc.tun_ip, H.server_tun_ip), via="raw")
        k.run(k.now + rng.choice([15, 30, 45, 59]) * US)
    _send_up(H, p, _frame(H, p.mc.tun_ip, H.server_tun_ip), via="raw")
    k.run(k.now + rng.choice([1, 5, 30]) * US)
    _join(H, rng.choice(["v", "l"]))
    # and the busy session carries on
    _send_up(H, p, _frame(H, p.mc.tun_ip, H.server_tun_ip), via="raw")
    f = _frame(H, H.server_tun_ip, p.mc.tun_ip, size=60)
    H.offered[f] = {"t": k.now, "dst": p.mc.tun_ip}
    k.offer_tun("srv", f, None)
    k.run(k.now + 50000)


def op_reuse(H):
    """Let a session expire, have newcomers take its slot, then let the previous owner carry on as if
    nothing had happened (it must be refused until it logs in again)."""
    rng = H.rng
    k = H.k
    c = [p for p in H.parties if p.stage in ("l", "raw") and p.slot is not None and not p.dead]
    if not c:
        return
    old = rng.choice(c)
    if rng.random() < 0.5 and old.mc.tun_ip:
        # packets for the old session pile up in the server (it fetches at most the beginning of the first one)
        for _ in range(rng.randint(2, 4)):
            f = _frame(H, H.server_tun_ip, old.mc.tun_ip, size=rng.choice([100, 300]))
            H.offered[f] = {"t": k.now, "dst": old.mc.tun_ip}
            k.offer_tun("srv", f, H.ident)
            k.run(k.now + 2000)
        if rng.random() < 0.5:
            old.mc.query(old.mc.ping_labels())
            k.run(k.now + 20000)
    keep = [p for p in H.parties if p is not old and p.stage in ("l", "raw") and _alive(H, p) and rng.random() < 0.5]
    end = k.now + rng.choice([59, 60, 60, 60, 61, 61, 62, 65, 90]) * US      # around the liveness boundary
    while k.now < end:
        k.run(min(end, k.now + 20 * US))
        for p in keep:
            p.mc.ping(10000)
            p.last_act = k.now
    stage = rng.choice(["v", "l", "l"])
    for _ in range(rng.randint(1, 3)):
        n = _join(H, stage)
        if n.stage in ("l", "raw"):
            n.mc.pump(300000, 50000)
            n.last_act = k.now
        if n.slot == old.slot:
            break
    for _ in range(rng.randint(2, 5)):
        kind = rng.choice(CMDS)
        H.attacks[(kind, "lost-slot", "previous-owner")] = H.attacks.get((kind, "lost-slot", "previous-owner"), 0) + 1
        _do_cmd(H, old, old.slot, kind)


def op_raw_shadow(H):
    """Right after a session's genuine raw login a stranger sends a raw login that is too short to carry a response
    (the bytes of the genuine one are still in the server's receive buffer), then tries to use the session."""
    rng = H.rng
    k = H.k
    c = [p for p in H.parties if p.stage in ("l", "raw") and _alive(H, p) and p.slot is not None]
    if not c:
        return
    p = rng.choice(c)
    a, src = _attacker(H, p, want_foreign=True)
    p.mc.raw_login()
    k.run(k.now + rng.choice([1500, 3000]))
    if rng.random() < 0.3:
        p.mc.raw_ping()
        k.run(k.now + 1500)
    n = rng.choice([0, 0, 1, 4, 8, 15])
    a.mc.send_raw_dgram(proto.raw_frame(proto.RAW_LOGIN, p.slot & 15, bytes(rng.getrandbits(8) for _ in range(n))))
    H.attacks[("rawlogin-short", "authed", "foreign")] = H.attacks.get(("rawlogin-short", "authed", "foreign"), 0) + 1
    k.run(k.now + 3000)
    if len(p.mc.raw_in):
        p.stage = "raw"
        p.last_act = k.now
    for kind in ("rawdata", "rawping"):
        _do_cmd(H, a, p.slot, kind)


OPS = {"raw_shadow": op_raw_shadow, "join": op_join, "legit": op_legit, "down": op_down, "down_odd": op_down_odd, "attack": op_attack,
       "login_attack": op_login_attack, "advance": op_advance, "reuse": op_reuse, "join_same_ip": op_join_same_ip, "raw_stream": op_raw_stream,
       "clock_back": op_clock_back}
