#!/bin/sh
# usage: tools_mutant.sh <patch-file|-e 'sed-expr' file> -- <Cxx> [more checks]
# Applies a change to a scratch copy of /repo and runs the named quick checks against it.
# Never touches /repo or committed evidence.
set -e
D=$(mktemp -d /var/tmp/vf-mut-XXXXXX)
trap 'rm -rf "$D"' EXIT
mkdir -p "$D/repo" "$D/ev" "$D/rp"
rsync -a --exclude .git --exclude "*.o" --exclude bin --exclude tests/test /repo/ "$D/repo/"
if [ "$1" = "-e" ]; then
  sed -i -e "$2" "$D/repo/$3"; shift 3
else
  (cd "$D/repo" && patch -s -p1 < "$1"); shift 1
fi
[ "$1" = "--" ] && shift
diff -ru --exclude="*.o" --exclude=base64u.c /repo/src "$D/repo/src" | head -40 || true
rc=0
for c in "$@"; do
  VERIF_REPO="$D/repo" VERIF_EVIDENCE_DIR="$D/ev" VERIF_REPLAY_DIR="$D/rp" /verif/vf check "$c" || rc=$?
done
exit $rc
