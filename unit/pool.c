/* C18: tunnel address pool and lookup by tunnel address.
 * Links the tree's user.o; time() is redirected (-Wl,--wrap=time) to a clock owned by this driver.
 *
 * The reference below is written from the property text, not from user.c:
 *   pool   : count == min(16, 2^(32-bits) - 3); addresses pairwise distinct, inside the server's
 *            subnet, != server address, != network address, != broadcast address.
 *            (Which in-subnet addresses are chosen is NOT prescribed.)
 *   lookup : find_user_by_ip(a) == the slot i with tun_ip == a that is active && authenticated &&
 *            !disabled && now - last_pkt < 60, else -1.  Ages of exactly 60 s are never generated.
 *
 * usage: pool run <shard> <nshards> <seed> <exh_lo> <nrand_mid> <nrand_big> <nbases> <rounds>
 *          bits exh_lo..30   : every server host position 1 .. 2^(32-bits)-2
 *          bits 16..exh_lo-1 : boundary positions + nrand_mid random positions per netmask
 *          bits 8..15        : boundary positions + nrand_big random positions per netmask
 *          every (bits, position) is run on <nbases> of the base networks (rotating choice),
 *          each followed by <rounds> randomised lookup rounds
 *        pool one <a.b.c.d> <bits> <seed> <rounds>      a single configuration (replay)
 */
#include "drv.h"
#include <time.h>
#include <arpa/inet.h>
#include <netinet/in.h>
#include "common.h"
#include "encoding.h"
#include "user.h"

extern unsigned usercount;   /* defined in user.c */

/* ---- controlled clock -------------------------------------------------- */
static time_t clock_now = 1000000000;
static unsigned long long n_clock_steps;
static unsigned long long clock_calls;
time_t __wrap_time(time_t *t)
{
	clock_calls++;
	if (t) *t = clock_now;
	return clock_now;
}

/* ---- base networks (host byte order; masked down to the netmask under test) ------------- */
static const uint32_t BASES[] = {
	0x0A000000u, /* 10.0.0.0        */
	0xAC100000u, /* 172.16.0.0      */
	0xC0A80000u, /* 192.168.0.0     */
	0x64400000u, /* 100.64.0.0      */
	0xDFFFFFFCu, /* 223.255.255.252 first octet >= 128, all-ones network bits  */
	0x0AFEFDFCu, /* 10.254.253.252  */
	0xAC1FFFFCu, /* 172.31.255.252  */
	0xC0A8FFFCu, /* 192.168.255.252 */
	0x647FFFFCu, /* 100.127.255.252 */
	0x80000000u, /* 128.0.0.0       sign bit only */
	0xCB007100u, /* 203.0.113.0     */
	0xA9FE4D80u, /* 169.254.77.128  */
};
#define NBASES ((int)(sizeof(BASES) / sizeof(BASES[0])))

static unsigned long long n_pool, n_lookup, n_pool_bad;
static unsigned char seen_pool[33][2];
static unsigned long long base_used[NBASES];
enum { L_HIT, L_INACTIVE, L_NOAUTH, L_DISABLED, L_STALE, L_F_SERVER, L_F_NET, L_F_BCAST, L_F_NEIGH, L_F_OUTSIDE, L_MAX };
static unsigned long long seen_lookup[L_MAX];
static const char *lookup_name[L_MAX] = {
	"lookup hit", "lookup miss: inactive", "lookup miss: not authenticated", "lookup miss: disabled",
	"lookup miss: stale", "lookup miss: foreign address (server's own)", "lookup miss: foreign address (network)",
	"lookup miss: foreign address (broadcast)", "lookup miss: foreign address (unassigned neighbour)",
	"lookup miss: foreign address (outside subnet)" };
static int samples_left = 1;

static const char *dq(uint32_t h, char *buf)
{
	sprintf(buf, "%u.%u.%u.%u", h >> 24, (h >> 16) & 255, (h >> 8) & 255, h & 255);
	return buf;
}

#define MAXN 64
static const int AGES[5] = { 120, 61, 59, 1, 0 };   /* never exactly 60 */

static int live(const struct tun_user *u)
{
	return u->active && u->authenticated && !u->disabled && (long long)clock_now - (long long)u->last_pkt < 60;
}

static void describe_slots(char *dst, size_t len, unsigned n)
{
	size_t o = 0;
	unsigned i;
	char b[20];
	dst[0] = 0;
	for (i = 0; i < n && o + 60 < len; i++)
		o += snprintf(dst + o, len - o, "%s%u:%s:act=%d:auth=%d:dis=%d:age=%lld", i ? "," : "", i,
			      dq(ntohl(users[i].tun_ip), b), users[i].active, users[i].authenticated, users[i].disabled,
			      (long long)clock_now - (long long)users[i].last_pkt);
}

/* the configuration under test (host byte order) */
static uint32_t cur_net, cur_bcast, cur_mask;

/* one lookup comparison */
static void lookup_one(uint32_t server, int bits, uint32_t q, unsigned n)
{
	int r = find_user_by_ip(htonl(q));
	int owner_live = -1, owner_any = -1;
	unsigned j;
	char b1[20], b2[20], slots[1400];
	const char *key = NULL, *why = "";

	n_lookup++;
	for (j = 0; j < n; j++) {
		if (ntohl(users[j].tun_ip) != q) continue;
		if (owner_any < 0) owner_any = (int)j;
		if (live(&users[j]) && owner_live < 0) owner_live = (int)j;
	}
	if (r < -1 || r >= (int)n) {
		key = "C18:lookup:wrong-owner"; why = "returned index is not a slot";
	} else if (r >= 0) {
		if (ntohl(users[r].tun_ip) != q) { key = "C18:lookup:wrong-owner"; why = "returned slot owns a different address"; }
		else if (!live(&users[r])) { key = "C18:lookup:found-dead"; why = "returned slot is not a live logged-in session"; }
	} else if (owner_live >= 0) {
		key = "C18:lookup:missed-live"; why = "a live logged-in session owns the address but -1 was returned";
	}
	if (key) {
		describe_slots(slots, sizeof(slots), n);
		DRV_VIOL(key, "find_user_by_ip(%s) = %d, expected %d: %s\tserver=%s bits=%d now=%lld query=%s returned=%d expected=%d slots=[%s]",
			 dq(q, b1), r, owner_live, why, dq(server, b2), bits, (long long)clock_now, b1, r, owner_live, slots);
		return;
	}
	if (r >= 0) seen_lookup[L_HIT]++;
	else if (owner_any >= 0) {
		const struct tun_user *u = &users[owner_any];
		if (!u->active) seen_lookup[L_INACTIVE]++;
		else if (!u->authenticated) seen_lookup[L_NOAUTH]++;
		else if (u->disabled) seen_lookup[L_DISABLED]++;
		else seen_lookup[L_STALE]++;
	} else {
		if (q == server) seen_lookup[L_F_SERVER]++;
		else if (q == cur_net) seen_lookup[L_F_NET]++;
		else if (q == cur_bcast) seen_lookup[L_F_BCAST]++;
		else if ((q & cur_mask) == cur_net) seen_lookup[L_F_NEIGH]++;
		else seen_lookup[L_F_OUTSIDE]++;
	}
}

static void lookup_round(uint32_t server, int bits, uint32_t net, uint32_t bcast, uint32_t mask, unsigned n, int style)
{
	unsigned i;
	uint32_t out;

	cur_net = net; cur_bcast = bcast; cur_mask = mask;
	clock_now = (time_t)(1000000000u + drv_below(1000000000u));
	for (i = 0; i < n; i++) {
		if (style == 1) {          /* everybody logged in and fresh */
			users[i].active = 1; users[i].authenticated = 1; users[i].disabled = 0;
			users[i].last_pkt = clock_now - AGES[2 + drv_below(3)];
		} else {
			users[i].active = drv_below(4) != 0;
			users[i].authenticated = drv_below(4) != 0;
			users[i].disabled = drv_below(4) == 0;
			users[i].last_pkt = clock_now - AGES[drv_below(5)];
		}
	}
	for (i = 0; i < n; i++) {
		uint32_t a = ntohl(users[i].tun_ip);
		lookup_one(server, bits, a, n);
		lookup_one(server, bits, a + 1, n);
		lookup_one(server, bits, a - 1, n);
	}
	lookup_one(server, bits, server, n);
	lookup_one(server, bits, net, n);
	lookup_one(server, bits, bcast, n);
	/* an address outside the subnet: same host part, different network part */
	out = (server & ~mask) | ((net + ((uint32_t)(1 + drv_below(255)) << (32 - bits))) & mask);
	if ((out & mask) != net) lookup_one(server, bits, out, n);
	lookup_one(server, bits, 0u, n);
	lookup_one(server, bits, 0xFFFFFFFFu, n);
}

/* One configuration: server = (base & mask) | pos. Returns non-zero if the pool part failed. */
/* Sessions as the server creates them: slots handed out by find_available_user(), logged in, left silent for more
 * than a minute, handed out again.  A recycled slot belongs to a session that has not logged in: looking up its
 * address must find nobody until that session logs in; and a slot that was active less than a minute ago is never
 * handed out. */
static unsigned long long n_recycle_lookups, n_recycle_slots;

static void recycle_history(uint32_t server, int bits, unsigned n)
{
	unsigned i;
	int u;
	char b1[20], b3[20];
	for (i = 0; i < n; i++) {
		users[i].active = 0; users[i].authenticated = 0; users[i].authenticated_raw = 0; users[i].disabled = 0;
		users[i].last_pkt = 0;
	}
	clock_now += 1000;
	/* fill the pool, log everybody in */
	for (i = 0; i < n; i++) {
		u = find_available_user();
		if (u < 0 || (unsigned) u >= n) {
			DRV_VIOL("C18:sessions:slot-not-offered", "only %u of %u sessions could be created\tserver=%s bits=%d", i, n, dq(server, b3), bits);
			return;
		}
		users[u].authenticated = 1;
		users[u].last_pkt = clock_now;
	}
	if (find_available_user() >= 0)
		DRV_VIOL("C18:sessions:more-than-pool", "a %u-th session was created although the pool has %u addresses\tserver=%s bits=%d", n + 1, n, dq(server, b3), bits);
	for (i = 0; i < n; i++) {
		n_recycle_lookups++;
		if (find_user_by_ip(users[i].tun_ip) != (int) i)
			DRV_VIOL("C18:lookup:owner-not-found", "logged-in live session %u not found by its address %s\tserver=%s bits=%d", i, dq(ntohl(users[i].tun_ip), b1), dq(server, b3), bits);
	}
	/* the wall clock is stepped back (NTP step, VM resume, date -s): sessions that were active a moment ago are still
	   live, none of their slots may be handed out and every owner is still found by its address */
	{
		static const int STEP[] = { 1, 10, 30, 61, 3600, 86400 };
		time_t saved = clock_now;
		clock_now -= STEP[drv_below(6)];
		n_clock_steps++;
		if ((u = find_available_user()) >= 0) {
			DRV_VIOL("C18:sessions:live-slot-handed-out", "after the clock was stepped back by %lld s a new session was given slot %d, whose session had been active just before	server=%s bits=%d",
				 (long long)(saved - clock_now), u, dq(server, b3), bits);
			clock_now = saved;
			return;
		}
		for (i = 0; i < n; i++) {
			n_recycle_lookups++;
			if (find_user_by_ip(users[i].tun_ip) != (int) i)
				DRV_VIOL("C18:lookup:owner-not-found", "after the clock was stepped back, live session %u is not found by its address %s	server=%s bits=%d", i, dq(ntohl(users[i].tun_ip), b1), dq(server, b3), bits);
		}
		clock_now = saved;
	}
	/* a random subset stays alive, the others fall silent for > 60 s */
	clock_now += 30;
	for (i = 0; i < n; i++)
		if (drv_below(2)) users[i].last_pkt = clock_now;
	clock_now += 31 + drv_below(40);
	for (i = 0; i < n; i++) {
		int was_silent = users[i].last_pkt + 60 < clock_now;
		u = find_available_user();
		if (u < 0) break;
		n_recycle_slots++;
		if (users[u].last_pkt != clock_now) { /* find_available_user() stamps the slot it hands out */ }
		(void) was_silent;
		/* the new holder of slot u has not logged in */
		n_recycle_lookups++;
		if (find_user_by_ip(users[u].tun_ip) != -1)
			DRV_VIOL("C18:lookup:recycled-slot-found-before-login",
				 "slot %d was handed to a new session that has not logged in, yet its address %s still resolves to it\tserver=%s bits=%d",
				 u, dq(ntohl(users[u].tun_ip), b1), dq(server, b3), bits);
		users[u].authenticated = 1;
		n_recycle_lookups++;
		if (find_user_by_ip(users[u].tun_ip) != u)
			DRV_VIOL("C18:lookup:owner-not-found", "recycled slot %d not found by its address after login\tserver=%s bits=%d", u, dq(server, b3), bits);
	}
}

static int check_case(uint32_t base, int bits, uint32_t pos, int rounds)
{
	uint32_t mask = 0xFFFFFFFFu << (32 - bits);
	uint32_t net = base & mask, bcast = net | ~mask, server = net | pos;
	unsigned long long size = 1ULL << (32 - bits);
	unsigned expect = size - 3 < 16 ? (unsigned)(size - 3) : 16;
	uint32_t ip[MAXN];
	unsigned n, i, j;
	int ret, bad = 0, r;
	char b1[20], b2[20], b3[20], list[MAXN * 18 + 8];
	size_t o = 0;

	users = NULL;
	ret = init_users(htonl(server), bits);
	n_pool++;
	if (!users) {
		fprintf(stderr, "init_users left users == NULL (allocation failure?) server=%s bits=%d\n", dq(server, b1), bits);
		exit(3);
	}
	n = usercount;            /* what was allocated */
	if (n > MAXN) n = MAXN;
	list[0] = 0;
	for (i = 0; i < n; i++) {
		ip[i] = ntohl(users[i].tun_ip);
		o += snprintf(list + o, sizeof(list) - o, "%s%s", i ? "," : "", dq(ip[i], b1));
	}

	if (ret < 0 || (unsigned)ret != expect || usercount != expect) {
		DRV_VIOL("C18:pool:count", "init_users returned %d (usercount=%u), expected min(16, %llu-3) = %u\tserver=%s bits=%d returned=%d usercount=%u expected=%u pool=[%s]",
			 ret, usercount, size, expect, dq(server, b1), bits, ret, usercount, expect, list);
		bad = 1;
	}
	for (i = 0; i < n; i++) {
		if ((ip[i] & mask) != net) {
			DRV_VIOL("C18:pool:outside-subnet", "slot %u got %s which is outside %s/%d\tserver=%s bits=%d slot=%u addr=%s pool=[%s]",
				 i, dq(ip[i], b1), dq(net, b2), bits, dq(server, b3), bits, i, b1, list);
			bad = 1;
		}
		if (ip[i] == server) {
			DRV_VIOL("C18:pool:server-address", "slot %u got the server's own address %s\tserver=%s bits=%d slot=%u pool=[%s]",
				 i, dq(ip[i], b1), dq(server, b3), bits, i, list);
			bad = 1;
		}
		if (ip[i] == net || ip[i] == bcast) {
			DRV_VIOL("C18:pool:network-or-broadcast", "slot %u got %s, the %s address of %s/%d\tserver=%s bits=%d slot=%u addr=%s pool=[%s]",
				 i, dq(ip[i], b1), ip[i] == net ? "network" : "broadcast", dq(net, b2), bits, dq(server, b3), bits, i, b1, list);
			bad = 1;
		}
		for (j = 0; j < i; j++) {
			if (ip[j] == ip[i]) {
				DRV_VIOL("C18:pool:duplicate", "slots %u and %u both got %s\tserver=%s bits=%d slots=%u,%u addr=%s pool=[%s]",
					 j, i, dq(ip[i], b1), dq(server, b3), bits, j, i, b1, list);
				bad = 1;
			}
		}
	}
	if (bad) n_pool_bad++;
	else {
		/* measured: did the assignment have to step over the server's address? */
		int inside = 0;
		for (i = 0; i < n; i++) if (ip[i] > server) inside = 1;
		seen_pool[bits][inside] = 1;
		if (samples_left > 0 && inside && n >= 2 && pos > 1 && drv_below(bits > 26 ? 3 : 40) == 0) {
			samples_left--;
			DRV_S("server=%s/%d -> %u sessions: %s", dq(server, b3), bits, n, list);
		}
	}

	for (r = 0; r < rounds; r++)
		lookup_round(server, bits, net, bcast, mask, n, r == 0 && drv_below(4) == 0);

	if (!bad)
		recycle_history(server, bits, n);

	free(users);
	users = NULL;
	return bad;
}

static unsigned long long work;
static int shard, nsh, nbases, rounds;
static unsigned seed;

static void sched(int bits, uint32_t pos)
{
	int k;
	unsigned long long w = work++;
	if ((int)(w % (unsigned)nsh) != shard) return;
	for (k = 0; k < nbases; k++) {
		int bi = (int)((w / (unsigned)nsh + seed + (unsigned)bits * 5u + (unsigned)k * 5u) % NBASES);
		base_used[bi]++;
		check_case(BASES[bi], bits, pos, rounds);
	}
}

static void boundary(int bits, int big)
{
	uint32_t last = (uint32_t)((1ULL << (32 - bits)) - 2);
	static const uint32_t lo_mid[] = { 1, 2, 3, 15, 16, 17, 18, 19 };
	static const uint32_t lo_big[] = { 1, 2, 15, 16, 17, 18 };
	const uint32_t *lo = big ? lo_big : lo_mid;
	int nlo = big ? 6 : 8, i;
	for (i = 0; i < nlo; i++) sched(bits, lo[i]);
	sched(bits, last - 2);
	sched(bits, last - 1);
	sched(bits, last);
}

int main(int argc, char **argv)
{
	const char *mode = argc > 1 ? argv[1] : "run";
	int bits;

	if (!strcmp(mode, "one")) {
		struct in_addr a;
		uint32_t h, mask;
		if (argc < 4 || !inet_aton(argv[2], &a)) { fprintf(stderr, "usage: pool one <ip> <bits> [seed] [rounds]\n"); return 2; }
		bits = atoi(argv[3]);
		if (bits < 8 || bits > 30) { fprintf(stderr, "bits out of range\n"); return 2; }
		drv_seed(argc > 4 ? (unsigned)atoi(argv[4]) : 1);
		rounds = argc > 5 ? atoi(argv[5]) : 2000;
		h = ntohl(a.s_addr);
		mask = 0xFFFFFFFFu << (32 - bits);
		check_case(h, bits, h & ~mask, rounds);
	} else {
		int exh_lo, nrand_mid, nrand_big;
		unsigned k;
		if (argc < 10) { fprintf(stderr, "usage: pool run <shard> <nshards> <seed> <exh_lo> <nrand_mid> <nrand_big> <nbases> <rounds>\n"); return 2; }
		shard = atoi(argv[2]); nsh = atoi(argv[3]); seed = (unsigned)atoi(argv[4]);
		exh_lo = atoi(argv[5]); nrand_mid = atoi(argv[6]); nrand_big = atoi(argv[7]);
		nbases = atoi(argv[8]); rounds = atoi(argv[9]);
		if (nsh < 1 || shard < 0 || shard >= nsh || exh_lo < 16 || exh_lo > 30 || nbases < 1 || nbases > NBASES) return 2;
		drv_seed(seed * 7919u + (unsigned)shard * 104729u + 18);

		/* small subnets first so that a killed run still covered the skip logic everywhere */
		for (bits = 30; bits >= exh_lo; bits--) {
			uint32_t last = (uint32_t)((1ULL << (32 - bits)) - 2), pos;
			for (pos = 1; pos <= last; pos++) sched(bits, pos);
		}
		for (bits = exh_lo - 1; bits >= 8; bits--) {
			int big = bits < 16;
			uint32_t last = (uint32_t)((1ULL << (32 - bits)) - 2);
			int per = ((big ? nrand_big : nrand_mid) + nsh - 1) / nsh, i;
			boundary(bits, big);
			/* random positions: each shard draws its own share from its own stream */
			for (i = 0; i < per; i++) {
				uint32_t pos = 1 + (uint32_t)((drv_rand() >> 16) % last);
				for (k = 0; k < (unsigned)nbases; k++) {
					int bi = (int)drv_below(NBASES);
					base_used[bi]++;
					check_case(BASES[bi], bits, pos, rounds);
				}
			}
		}
	}

	DRV_E(n_pool + n_lookup);
	DRV_X("pool_configurations", n_pool);
	DRV_X("lookup_comparisons", n_lookup);
	DRV_X("recycle_lookups", n_recycle_lookups);
	DRV_X("recycled_slots", n_recycle_slots);
	DRV_X("clock_steps_back", n_clock_steps);
	if (n_clock_steps) DRV_N("clock-stepped-back");
	if (n_recycle_slots) DRV_N("recycle-history");
	DRV_X("clock_reads_by_code_under_test", clock_calls);
	{
		int b, s, l, k;
		char b1[20];
		for (b = 8; b <= 30; b++) for (s = 0; s < 2; s++)
			if (seen_pool[b][s]) {
				unsigned long long size = 1ULL << (32 - b);
				DRV_N("bits=%d count=%u skip=%s", b, size - 3 < 16 ? (unsigned)(size - 3) : 16u,
				      s ? "server inside the assigned range" : "server after the assigned range");
			}
		for (l = 0; l < L_MAX; l++) if (seen_lookup[l]) DRV_N("%s", lookup_name[l]);
		for (k = 0; k < NBASES; k++) if (base_used[k]) {
			char key[64];
			snprintf(key, sizeof(key), "cases_on_base_%s", dq(BASES[k], b1));
			DRV_X(key, base_used[k]);
		}
	}
	return 0;
}
