/* C19: login response = MD5((first 32 password bytes) xor (8 big-endian repetitions of the challenge)).
 * Links the tree's login.o + md5.o. The oracle lives in checks/c19.py (hashlib); this driver only
 * executes cases and reports what login_calculate() produced.
 *
 * stdin, one case per line:   <op> <seed as unsigned decimal> <buffer hex>
 *     op '=' : call with (int)seed
 *     op '+' : call with (int)((uint32_t)seed + 1)     raw-mode login towards the server
 *     op '-' : call with (int)((uint32_t)seed - 1)     raw-mode login reply
 *   (the +-1 is done here in unsigned arithmetic; the callers' signed seed+1 is another property)
 *   buffer = what the caller hands in as `pass`: >= 32 readable bytes (callers use char password[33]).
 *   It is copied into an exact-size heap block at a varying alignment, so reads past it trap in ASan.
 * stdout: "D <case index> <32 hex digits>" per case, then the usual E/X lines.
 *
 * Checked locally (needs no oracle):
 *   - the 16 output bytes do not depend on what the output buffer held before
 *   - buflen < 16 writes nothing; buflen == 16 writes nothing beyond 16 bytes (exact-size heap block)
 */
#include "drv.h"
#include <ctype.h>
#include "login.h"

static int hexval(int c)
{
	if (c >= '0' && c <= '9') return c - '0';
	if (c >= 'a' && c <= 'f') return c - 'a' + 10;
	if (c >= 'A' && c <= 'F') return c - 'A' + 10;
	return -1;
}

int main(void)
{
	char *line = NULL;
	size_t cap = 0;
	ssize_t got;
	unsigned long long idx = 0, calls = 0, shortcalls = 0;
	static const int SHORT[] = { 15, 8, 1, 0, -1, -16 };

	while ((got = getline(&line, &cap, stdin)) > 0) {
		char op = line[0];
		char *p = line + 1, *end;
		unsigned long su;
		uint32_t useed;
		int seed;
		size_t n = 0, off, i;
		unsigned char *blk, *buf;
		char *out, hx[40], hx2[40], bufhex[120];
		unsigned char d1[16], d2[16];

		if (op == '\n' || op == '#') continue;
		su = strtoul(p, &end, 10);
		if (end == p || (op != '=' && op != '+' && op != '-')) { fprintf(stderr, "bad case line: %s", line); return 2; }
		useed = (uint32_t)su;
		if (op == '+') useed += 1u;
		if (op == '-') useed -= 1u;
		seed = (int)useed;                 /* two's complement reinterpretation */
		while (*end == ' ') end++;
		/* decode hex into an exact-size block, at alignment idx % 4 */
		off = (size_t)(idx & 3);
		{
			size_t hl = 0;
			while (hexval((unsigned char)end[hl]) >= 0) hl++;
			n = hl / 2;
		}
		if (n < 32) { fprintf(stderr, "case %llu: buffer shorter than 32 bytes (callers always supply 33)\n", idx); return 2; }
		blk = malloc(off + n);
		buf = blk + off;
		for (i = 0; i < n; i++) buf[i] = (unsigned char)(hexval((unsigned char)end[2 * i]) * 16 + hexval((unsigned char)end[2 * i + 1]));

		out = malloc(16);                  /* exactly 16: a 17th byte written traps */
		memset(out, 0x00, 16);
		login_calculate(out, 16, (const char *)buf, seed);
		memcpy(d1, out, 16);
		memset(out, 0xFF, 16);
		login_calculate(out, 16, (const char *)buf, seed);
		memcpy(d2, out, 16);
		calls += 2;
		if (memcmp(d1, d2, 16) != 0) {
			drv_hex(hx, sizeof(hx), d1, 16); drv_hex(hx2, sizeof(hx2), d2, 16);
			drv_hex(bufhex, sizeof(bufhex), buf, n > 48 ? 48 : n);
			DRV_VIOL("C19:depends-on-output-buffer", "digest differs with the prior contents of the output buffer: %s (zeros) vs %s (0xff)\tbuffer=%s seed=%u (int %d)",
				 hx, hx2, bufhex, useed, seed);
		}
		/* short output buffers: nothing may be written */
		{
			int k = (int)(idx % (sizeof(SHORT) / sizeof(SHORT[0])));
			memset(out, 0xC3, 16);
			login_calculate(out, SHORT[k], (const char *)buf, seed);
			shortcalls++;
			for (i = 0; i < 16; i++) if ((unsigned char)out[i] != 0xC3) break;
			if (i < 16) {
				drv_hex(bufhex, sizeof(bufhex), buf, n > 48 ? 48 : n);
				DRV_VIOL("C19:short-buffer-written", "buflen=%d but output byte %zu was written\tbuffer=%s seed=%u buflen=%d",
					 SHORT[k], i, bufhex, useed, SHORT[k]);
			}
		}
		drv_hex(hx, sizeof(hx), d1, 16);
		printf("D %llu %s\n", idx, hx);
		free(out);
		free(blk);
		idx++;
	}
	free(line);
	DRV_E(idx);
	DRV_X("login_calculate_calls", calls + shortcalls);
	DRV_X("short_buffer_calls", shortcalls);
	return 0;
}
