/* C17: tunnel domain validation and query-name matching follow label boundaries exactly.
 * Links the tree's common.o and compares check_topdomain() / query_datalen() with a
 * reference written from the property text (split into labels, compare labels from the
 * right) - deliberately NOT the backward character scan of the code under test.
 * Every string handed to the code under test lives in an exact-size heap block, so a read
 * before or past it is an ASan report.
 *
 * usage: domain <shard> <nshards> <seed> <matchlen> <nrandom>
 *   phase 1  validation boundary cases (label 62..65, total 0..140, every byte value, '*' positions)
 *   phase 2  validation of EVERY string of length 0..7 over {a,A,b,-,.,*,0} x allow_wildcard {0,1}
 *   phase 3  matching of EVERY string of length 0..matchlen over that alphabet without ".."
 *            against the fixed domain set DOMS[]
 *   phase 4  nrandom seeded cases: random accepted domain (<=128), validation of it and of a
 *            damaged copy, random name (<=255) that with probability 1/2 ends in the domain or a near miss
 * Work items are numbered by one counter; a shard handles the items with counter % nshards == shard.
 * Random case i depends only on (seed, i), not on the sharding.
 */
#include "drv.h"
#include "common.h"

#define REF_MAXLEN   128
#define REF_MAXLABEL 63
#define MAXLAB       400

static void harness_die(const char *msg)
{
	fprintf(stderr, "domain driver internal error: %s\n", msg);
	exit(3);
}

/* ------------------------------------------------------------------ helpers */

struct labels { int n; int off[MAXLAB]; int len[MAXLAB]; };

/* split on '.': always at least one (possibly empty) label */
static void split_labels(const unsigned char *s, int n, struct labels *L)
{
	int i, start = 0;
	L->n = 0;
	for (i = 0; i <= n; i++) {
		if (i == n || s[i] == '.') {
			if (L->n >= MAXLAB) harness_die("too many labels");
			L->off[L->n] = start;
			L->len[L->n] = i - start;
			L->n++;
			start = i + 1;
		}
	}
}

static int fold(unsigned char c) { return (c >= 'A' && c <= 'Z') ? c + ('a' - 'A') : c; }

static int eq_ci(const unsigned char *a, int alen, const unsigned char *b, int blen)
{
	int i;
	if (alen != blen) return 0;
	for (i = 0; i < alen; i++)
		if (fold(a[i]) != fold(b[i])) return 0;
	return 1;
}

static char *heapdup(const unsigned char *s, int n)
{
	char *p = malloc((size_t)n + 1);   /* exactly the string and its terminator */
	if (!p) harness_die("malloc");
	memcpy(p, s, (size_t)n);
	p[n] = 0;
	return p;
}

/* printable rendering for witnesses / samples */
static const char *esc(const unsigned char *s, int n)
{
	static char buf[4][1400];
	static int which;
	char *o = buf[which = (which + 1) & 3];
	int i, p = 0;
	for (i = 0; i < n && p < 1390; i++) {
		if (s[i] >= 0x20 && s[i] < 0x7f && s[i] != '\\' && s[i] != '"') o[p++] = (char)s[i];
		else p += sprintf(o + p, "\\x%02x", s[i]);
	}
	o[p] = 0;
	return o;
}

/* ------------------------------------------------------------------ reference: validation */

enum vreason { V_OK_PLAIN, V_OK_WILD, V_SHORT, V_LONG, V_STAR_FORBIDDEN, V_STAR_NOT_FIRST, V_STAR_NO_DOT,
	V_BADCHAR, V_ONE_LABEL, V_LEADING_DOT, V_TRAILING_DOT, V_EMPTY_LABEL, V_LABEL_LONG, V_NREASONS };
static const char *vreason_name[V_NREASONS] = { "ok-plain", "ok-wildcard", "shorter-than-3", "longer-than-128",
	"star-but-wildcard-not-allowed", "star-not-first", "leading-star-not-followed-by-dot", "illegal-character",
	"single-label", "leading-dot", "trailing-dot", "empty-label", "label-longer-than-63" };

static int is_domain_char(unsigned char c)
{
	return (c >= 'a' && c <= 'z') || (c >= 'A' && c <= 'Z') || (c >= '0' && c <= '9') || c == '-' || c == '.';
}

/* 1 = accepted. maxlen/maxlabel are parameters only so that "otherwise valid" boundary classes can be measured;
 * the oracle always uses REF_MAXLEN / REF_MAXLABEL. */
static int ref_validate_p(const unsigned char *s, int n, int allow_wildcard, int maxlen, int maxlabel, int *reason)
{
	struct labels L;
	int i, wild = 0;

	if (n < 3) { *reason = V_SHORT; return 0; }
	if (n > maxlen) { *reason = V_LONG; return 0; }
	for (i = 0; i < n; i++) {
		if (s[i] == '*') {
			if (!allow_wildcard) { *reason = V_STAR_FORBIDDEN; return 0; }
			if (i != 0) { *reason = V_STAR_NOT_FIRST; return 0; }
			if (s[1] != '.') { *reason = V_STAR_NO_DOT; return 0; }
			wild = 1;
		} else if (!is_domain_char(s[i])) {
			*reason = V_BADCHAR; return 0;
		}
	}
	split_labels(s, n, &L);
	if (L.n < 2) { *reason = V_ONE_LABEL; return 0; }
	if (L.len[0] == 0) { *reason = V_LEADING_DOT; return 0; }
	if (L.len[L.n - 1] == 0) { *reason = V_TRAILING_DOT; return 0; }
	for (i = 0; i < L.n; i++)
		if (L.len[i] == 0) { *reason = V_EMPTY_LABEL; return 0; }
	for (i = 0; i < L.n; i++)
		if (L.len[i] > maxlabel) { *reason = V_LABEL_LONG; return 0; }
	*reason = wild ? V_OK_WILD : V_OK_PLAIN;
	return 1;
}

static int ref_validate(const unsigned char *s, int n, int allow_wildcard, int *reason)
{
	return ref_validate_p(s, n, allow_wildcard, REF_MAXLEN, REF_MAXLABEL, reason);
}

/* ------------------------------------------------------------------ reference: matching */

struct dom {
	unsigned char s[REF_MAXLEN + 2];
	int n;
	struct labels L;
	int wild;       /* first label is the wildcard */
	int k;          /* number of literal labels */
	int restoff;    /* where the literal part starts in s */
	int restlen;
	char *heap;     /* exact-size copy handed to the code under test */
};

static void dom_init(struct dom *d, const unsigned char *s, int n)
{
	int reason;
	if (n > REF_MAXLEN) harness_die("domain too long");
	if (!ref_validate(s, n, 1, &reason)) harness_die("matching domain is not accepted by the reference validator");
	memcpy(d->s, s, (size_t)n);
	d->s[n] = 0;
	d->n = n;
	split_labels(s, n, &d->L);
	d->wild = (d->L.len[0] == 1 && s[0] == '*');
	d->k = d->L.n - d->wild;
	d->restoff = d->wild ? 2 : 0;
	d->restlen = n - d->restoff;
	d->heap = heapdup(s, n);
}

static void dom_free(struct dom *d) { free(d->heap); d->heap = NULL; }

enum mreason { R_OK, R_FEW_LABELS, R_MISMATCH, R_WILD_EMPTY, R_WILD_STAR };
static const char *mreason_name[] = { "match", "fewer-labels-than-domain", "label-differs",
	"empty-label-in-wildcard-position", "star-in-wildcard-label" };

/* returns data length (>= 0) or -1 */
static int ref_match(const unsigned char *q, const struct labels *Q, const struct dom *d, int *reason)
{
	int j, first, w;

	if (Q->n < d->k + d->wild) { *reason = R_FEW_LABELS; return -1; }
	first = Q->n - d->k;
	for (j = 0; j < d->k; j++) {
		if (!eq_ci(q + Q->off[first + j], Q->len[first + j],
			   d->s + d->L.off[d->wild + j], d->L.len[d->wild + j])) {
			*reason = R_MISMATCH;
			return -1;
		}
	}
	*reason = R_OK;
	if (!d->wild)
		return Q->off[first];
	w = first - 1;
	if (Q->len[w] == 0) { *reason = R_WILD_EMPTY; return -1; }
	if (memchr(q + Q->off[w], '*', (size_t)Q->len[w])) { *reason = R_WILD_STAR; return -1; }
	return Q->off[w];
}

/* ------------------------------------------------------------------ measured classes */

enum cls {
	VC_ACC_PLAIN, VC_ACC_WILD, VC_ACC_LEN3, VC_ACC_LEN128, VC_ACC_LABEL63, VC_ACC_WILD_ONLY_WHEN_ALLOWED,
	VC_REJ_SHORT, VC_REJ_LONG, VC_REJ_LEN129_ONLY, VC_REJ_STAR_FORBIDDEN, VC_REJ_STAR_POS, VC_REJ_STAR_NODOT,
	VC_REJ_BADCHAR, VC_REJ_HIGHBYTE, VC_REJ_ONE_LABEL, VC_REJ_LEAD_DOT, VC_REJ_TRAIL_DOT, VC_REJ_EMPTY_LABEL,
	VC_REJ_LABEL_LONG, VC_REJ_LABEL64_ONLY,
	MC_PLAIN_EQ, MC_PLAIN_DATA, MC_PLAIN_CASE, MC_PLAIN_LEADDOT, MC_PLAIN_STAR_DATA,
	MC_WILD_NODATA, MC_WILD_DATA, MC_WILD_CASE, MC_WILD_STAR_DATA, MC_ACC_LEN255,
	MC_REJ_FEW, MC_REJ_MISMATCH, MC_REJ_BOUNDARY, MC_REJ_SHARED_TAIL, MC_REJ_WILD_STAR, MC_REJ_WILD_EMPTY,
	MC_REJ_WILD_MISSING, MC_REJ_TRAILDOT, MC_REJ_EMPTY_NAME, MC_REJ_LONG_NAME,
	NCLS
};
static const char *cls_name[NCLS] = {
	"validate accepted plain", "validate accepted wildcard", "validate accepted: length 3 (minimum)",
	"validate accepted: length 128 (maximum)", "validate accepted: has a 63-char label",
	"validate: '*.x' accepted with wildcard allowed",
	"validate rejected: shorter than 3", "validate rejected: longer than 128",
	"validate rejected: 129 chars, otherwise valid", "validate rejected: '*' while wildcard not allowed",
	"validate rejected: '*' not first", "validate rejected: leading '*' not followed by '.'",
	"validate rejected: illegal ASCII character", "validate rejected: byte >= 0x80",
	"validate rejected: single label", "validate rejected: leading dot", "validate rejected: trailing dot",
	"validate rejected: consecutive dots", "validate rejected: label>63", "validate rejected: 64-char label, otherwise valid",
	"match plain accept datalen=0", "match plain accept datalen>0", "match plain accept: case differs",
	"match plain accept: data is a lone leading dot", "match plain accept: '*' in data part",
	"match wildcard accept datalen=0", "match wildcard accept datalen>0", "match wildcard accept: case differs",
	"match wildcard accept: '*' only in data part", "match accept: name of 255 chars",
	"match reject: fewer labels than domain", "match reject: label differs",
	"match reject: not at label boundary", "match reject: label differs (shared tail with domain)",
	"match reject: star in wildcard label", "match reject: empty label in wildcard position",
	"match reject: wildcard label missing (name is the bare domain)", "match reject: domain followed by trailing dot",
	"match reject: empty name", "match reject: name longer than 200"
};
static unsigned long long cls_count[NCLS];

static unsigned long long evals, n_validate, n_match, n_match_accept, n_random, n_random_accept, n_skipped;
static int shard, nshards;
static unsigned long long seed;
static unsigned long long work;
static const char *phase = "?";
static unsigned long long cur_case = 0;   /* random case number (0 outside phase 4) */
static int samples_left = 0;

static int mine(void) { return (int)(work++ % (unsigned long long)nshards) == shard; }

/* ------------------------------------------------------------------ one validation comparison */

static int do_validate(const unsigned char *s, int n, int allow)
{
	int reason, r2, ref, real, real_acc;
	char *copy, *err = NULL;
	struct labels L;
	int i;

	ref = ref_validate(s, n, allow, &reason);
	copy = heapdup(s, n);
	real = check_topdomain(copy, allow, (n_validate % 5 == 4) ? NULL : &err);
	free(copy);
	real_acc = (real == 0);
	evals++;
	n_validate++;

	if (real_acc && !ref) {
		DRV_VIOL("C17:validate:accepts-bad",
			 "check_topdomain(\"%s\", %d) accepted a domain the property rejects (%s)"
			 "\tstr=\"%s\" len=%d allow_wildcard=%d real_ret=%d reference=reject reason=%s phase=%s seed=%llu case=%llu",
			 esc(s, n), allow, vreason_name[reason], esc(s, n), n, allow, real, vreason_name[reason], phase, seed, cur_case);
		return ref;
	}
	if (!real_acc && ref) {
		DRV_VIOL("C17:validate:rejects-good",
			 "check_topdomain(\"%s\", %d) rejected (\"%s\") a domain the property accepts"
			 "\tstr=\"%s\" len=%d allow_wildcard=%d real_ret=%d real_msg=\"%s\" reference=accept phase=%s seed=%llu case=%llu",
			 esc(s, n), allow, err ? err : "-", esc(s, n), n, allow, real, err ? err : "-", phase, seed, cur_case);
		return ref;
	}

	/* agreement: record which class was exercised */
	switch (reason) {
	case V_OK_PLAIN:
	case V_OK_WILD:
		cls_count[reason == V_OK_WILD ? VC_ACC_WILD : VC_ACC_PLAIN]++;
		if (reason == V_OK_WILD) {
			if (!ref_validate(s, n, 0, &r2)) cls_count[VC_ACC_WILD_ONLY_WHEN_ALLOWED]++;
		}
		if (n == 3) cls_count[VC_ACC_LEN3]++;
		if (n == REF_MAXLEN) cls_count[VC_ACC_LEN128]++;
		split_labels(s, n, &L);
		for (i = 0; i < L.n; i++)
			if (L.len[i] == REF_MAXLABEL) { cls_count[VC_ACC_LABEL63]++; break; }
		break;
	case V_SHORT: cls_count[VC_REJ_SHORT]++; break;
	case V_LONG:
		cls_count[VC_REJ_LONG]++;
		if (n == REF_MAXLEN + 1 && ref_validate_p(s, n, allow, REF_MAXLEN + 1, REF_MAXLABEL, &r2))
			cls_count[VC_REJ_LEN129_ONLY]++;
		break;
	case V_STAR_FORBIDDEN: cls_count[VC_REJ_STAR_FORBIDDEN]++; break;
	case V_STAR_NOT_FIRST: cls_count[VC_REJ_STAR_POS]++; break;
	case V_STAR_NO_DOT: cls_count[VC_REJ_STAR_NODOT]++; break;
	case V_BADCHAR: {
		int high = 0;
		for (i = 0; i < n; i++) if (s[i] >= 0x80) high = 1;
		cls_count[high ? VC_REJ_HIGHBYTE : VC_REJ_BADCHAR]++;
		break;
	}
	case V_ONE_LABEL: cls_count[VC_REJ_ONE_LABEL]++; break;
	case V_LEADING_DOT: cls_count[VC_REJ_LEAD_DOT]++; break;
	case V_TRAILING_DOT: cls_count[VC_REJ_TRAIL_DOT]++; break;
	case V_EMPTY_LABEL: cls_count[VC_REJ_EMPTY_LABEL]++; break;
	case V_LABEL_LONG:
		cls_count[VC_REJ_LABEL_LONG]++;
		if (ref_validate_p(s, n, allow, REF_MAXLEN, REF_MAXLABEL + 1, &r2))
			cls_count[VC_REJ_LABEL64_ONLY]++;
		break;
	}
	if (samples_left > 0 && shard == 0 && n >= 3 &&
	    ((reason == V_OK_WILD && n_validate % 7 == 0) || (reason == V_LABEL_LONG) || (reason == V_STAR_NOT_FIRST && n > 5))) {
		static int done[V_NREASONS];
		if (!done[reason]) {
			done[reason] = 1;
			samples_left--;
			DRV_S("check_topdomain(\"%s\", allow_wildcard=%d) -> %d; reference: %s", esc(s, n), allow, real, vreason_name[reason]);
		}
	}
	return ref;
}

static void validate_both(const unsigned char *s, int n)
{
	do_validate(s, n, 0);
	do_validate(s, n, 1);
}

/* ------------------------------------------------------------------ one matching comparison */

static void do_match(const unsigned char *q, int qlen, const struct labels *Q, const char *qheap, const struct dom *d)
{
	int reason, ref, real;

	ref = ref_match(q, Q, d, &reason);
	if (ref >= 0 && !d->wild && ref != qlen - d->n) harness_die("reference datalen != strlen(qname)-strlen(domain)");
	if (ref > qlen) harness_die("reference datalen beyond name");
	real = query_datalen(qheap, d->heap);
	evals++;
	n_match++;

	if (real >= 0 && ref < 0) {
		DRV_VIOL("C17:match:false-accept",
			 "query_datalen(\"%s\", \"%s\") = %d but the name is outside the domain (%s)"
			 "\tqname=\"%s\" qlen=%d domain=\"%s\" real=%d reference=-1 reason=%s phase=%s seed=%llu case=%llu",
			 esc(q, qlen), esc(d->s, d->n), real, mreason_name[reason],
			 esc(q, qlen), qlen, esc(d->s, d->n), real, mreason_name[reason], phase, seed, cur_case);
		return;
	}
	if (real < 0 && ref >= 0) {
		DRV_VIOL("C17:match:false-reject",
			 "query_datalen(\"%s\", \"%s\") = %d but the name is inside the domain with %d data chars"
			 "\tqname=\"%s\" qlen=%d domain=\"%s\" real=%d reference=%d phase=%s seed=%llu case=%llu",
			 esc(q, qlen), esc(d->s, d->n), real, ref,
			 esc(q, qlen), qlen, esc(d->s, d->n), real, ref, phase, seed, cur_case);
		return;
	}
	if (real != ref && ref >= 0) {
		DRV_VIOL("C17:match:wrong-length",
			 "query_datalen(\"%s\", \"%s\") = %d, the part before the matched domain is %d chars"
			 "\tqname=\"%s\" qlen=%d domain=\"%s\" real=%d reference=%d phase=%s seed=%llu case=%llu",
			 esc(q, qlen), esc(d->s, d->n), real, ref,
			 esc(q, qlen), qlen, esc(d->s, d->n), real, ref, phase, seed, cur_case);
		return;
	}

	/* agreement: classify */
	if (ref >= 0) {
		int lit_at = qlen - d->restlen;   /* where the literal labels start in q */
		int case_differs = memcmp(q + lit_at, d->s + d->restoff, (size_t)d->restlen) != 0;
		int star_in_data = ref > 0 && memchr(q, '*', (size_t)ref) != NULL;
		n_match_accept++;
		if (cur_case) n_random_accept++;
		if (!d->wild) {
			cls_count[ref == 0 ? MC_PLAIN_EQ : MC_PLAIN_DATA]++;
			if (case_differs) cls_count[MC_PLAIN_CASE]++;
			if (ref == 1 && q[0] == '.') cls_count[MC_PLAIN_LEADDOT]++;
			if (star_in_data) cls_count[MC_PLAIN_STAR_DATA]++;
		} else {
			cls_count[ref == 0 ? MC_WILD_NODATA : MC_WILD_DATA]++;
			if (case_differs) cls_count[MC_WILD_CASE]++;
			if (star_in_data) cls_count[MC_WILD_STAR_DATA]++;
		}
		if (qlen == 255) cls_count[MC_ACC_LEN255]++;
		if (samples_left > 0 && shard == 0) {
			static int done[4];
			int slot = (d->wild ? 2 : 0) + (ref > 0 && case_differs ? 1 : 0);
			if (!done[slot] && (slot & 1) && qlen >= 6) {
				done[slot] = 1;
				samples_left--;
				DRV_S("query_datalen(\"%s\", \"%s\") -> %d; reference: %d", esc(q, qlen), esc(d->s, d->n), real, ref);
			}
		}
	} else {
		/* does the raw string end with the literal part of the domain (case-insensitively)? */
		int tail = qlen >= d->restlen && eq_ci(q + qlen - d->restlen, d->restlen, d->s + d->restoff, d->restlen);
		switch (reason) {
		case R_FEW_LABELS:
			cls_count[MC_REJ_FEW]++;
			if (tail && qlen > d->restlen && q[qlen - d->restlen - 1] != '.') cls_count[MC_REJ_BOUNDARY]++;
			if (tail && d->wild && qlen == d->restlen) cls_count[MC_REJ_WILD_MISSING]++;
			break;
		case R_MISMATCH:
			cls_count[MC_REJ_MISMATCH]++;
			if (tail && qlen > d->restlen && q[qlen - d->restlen - 1] != '.') cls_count[MC_REJ_BOUNDARY]++;
			else if (Q->n >= 2 && d->k >= 2 &&
				 eq_ci(q + Q->off[Q->n - 1], Q->len[Q->n - 1], d->s + d->L.off[d->L.n - 1], d->L.len[d->L.n - 1]))
				cls_count[MC_REJ_SHARED_TAIL]++;
			if (qlen > d->restlen && q[qlen - 1] == '.' &&
			    eq_ci(q + qlen - 1 - d->restlen, d->restlen, d->s + d->restoff, d->restlen))
				cls_count[MC_REJ_TRAILDOT]++;
			break;
		case R_WILD_EMPTY: cls_count[MC_REJ_WILD_EMPTY]++; break;
		case R_WILD_STAR: cls_count[MC_REJ_WILD_STAR]++; break;
		}
		if (qlen == 0) cls_count[MC_REJ_EMPTY_NAME]++;
		if (qlen > 200) cls_count[MC_REJ_LONG_NAME]++;
		if (samples_left > 0 && shard == 0 && qlen >= 6) {
			static int done[8];
			int boundary = (reason == R_MISMATCH || reason == R_FEW_LABELS) && tail && qlen > d->restlen;
			if ((reason == R_WILD_STAR || boundary) && !done[boundary ? 5 : reason]) {
				done[boundary ? 5 : reason] = 1;
				samples_left--;
				DRV_S("query_datalen(\"%s\", \"%s\") -> %d; reference: -1 (%s%s)", esc(q, qlen), esc(d->s, d->n), real,
				      mreason_name[reason], boundary ? ", tail equals the domain but not at a label boundary" : "");
			}
		}
	}
}

/* ------------------------------------------------------------------ exhaustive enumeration */

static const unsigned char ALPHA[7] = { 'a', 'A', 'b', '-', '.', '*', '0' };

static const char *DOMS[] = {
	"a.b", "A.b", "b.a", "a.a", "0.a", "a-b.a", "a.b.a", "aa.b", "B.A.b",
	"*.a.b", "*.A.b", "*.b.a", "*.a.a", "*.0.a", "*.a.b.a", "*.-.a",
};
#define NDOMS ((int)(sizeof(DOMS) / sizeof(DOMS[0])))
static struct dom doms[NDOMS];

static void match_all_doms(const unsigned char *s, int n)
{
	struct labels Q;
	char *qheap;
	int i;
	split_labels(s, n, &Q);
	qheap = heapdup(s, n);
	for (i = 0; i < NDOMS; i++)
		do_match(s, n, &Q, qheap, &doms[i]);
	free(qheap);
}

static unsigned long long enum_strings(int L, int no_dotdot, void (*fn)(const unsigned char *, int))
{
	int idx[16] = { 0 };
	unsigned char s[17];
	unsigned long long total = 0;
	int i;

	for (i = 0; i < L; i++) s[i] = ALPHA[0];
	s[L] = 0;
	for (;;) {
		int ok = 1;
		if (no_dotdot)
			for (i = 0; i + 1 < L; i++)
				if (s[i] == '.' && s[i + 1] == '.') { ok = 0; break; }
		if (ok) {
			total++;
			if (mine()) fn(s, L);
		}
		for (i = L - 1; i >= 0; i--) {
			if (++idx[i] < 7) { s[i] = ALPHA[idx[i]]; break; }
			idx[i] = 0;
			s[i] = ALPHA[0];
		}
		if (i < 0) break;
	}
	return total;
}

/* ------------------------------------------------------------------ validation boundary cases */

static int put_label(unsigned char *d, int pos, int len, unsigned char ch)
{
	memset(d + pos, ch, (size_t)len);
	return pos + len;
}

static void boundary_case(const unsigned char *s, int n)
{
	if (mine()) validate_both(s, n);
}

static void validate_boundaries(void)
{
	static const int LL[] = { 1, 2, 62, 63, 64, 65 };
	static const int L3[] = { 0, 1, 61, 62, 63, 64 };
	static const int STEPS[] = { 1, 2, 3, 4, 17, 30, 31, 42, 56, 62, 63, 64, 65 };
	unsigned char b[400];
	int a, c, e, w, n, T, step, pos, ch;
	static const char *fixed[] = {
		"", "a", "ab", "a.", ".a", ".", "..", "...", "a.b", "a..", "..a", ".a.", "a.b.", ".a.b", "a..b", "abc", "ab.",
		"*", "*.", "*.a", "*a.b", "a*.b", "a.*", "a.b*", "*.*.a", "**.a", "*..a", "*.a.", "a.*.b", "*.a*", "*.a.b.c", "*.ab", "*-.a",
		"a b.c", "a_b.c", "a/b.c", "a@b.c", "a.b c", " a.b", "a.b ", "a\tb.c", "a.b\n", "a,b.c", "a+b.c", "a:b.c", "a\x80.b", "\xff.ab",
		"-a.b", "a-.b", "-.-", "0.0", "1.2.3.4", "xn--a.b", "A.B", "Z.z", "a.b.c.d.e.f.g.h.i.j.k.l.m.n.o.p.q.r.s.t.u.v.w.x.y.z",
	};
	unsigned k;

	for (k = 0; k < sizeof(fixed) / sizeof(fixed[0]); k++)
		boundary_case((const unsigned char *)fixed[k], (int)strlen(fixed[k]));

	/* label lengths around 63, two or three labels, with / without "*." in front */
	for (w = 0; w < 2; w++)
	for (a = 0; a < 6; a++)
	for (c = 0; c < 6; c++)
	for (e = 0; e < 6; e++) {
		n = 0;
		if (w) { b[n++] = '*'; b[n++] = '.'; }
		n = put_label(b, n, LL[a], 'a'); b[n++] = '.';
		n = put_label(b, n, LL[c], 'B');
		if (L3[e]) { b[n++] = '.'; n = put_label(b, n, L3[e], '0'); }
		boundary_case(b, n);
	}
	/* every total length 0..140, filled with labels of a fixed step (trailing partial label), with / without "*." */
	for (w = 0; w < 2; w++)
	for (a = 0; a < (int)(sizeof(STEPS) / sizeof(STEPS[0])); a++)
	for (T = 0; T <= 140; T++) {
		step = STEPS[a];
		pos = 0;
		if (w && T >= 2) { b[pos++] = '*'; b[pos++] = '.'; }
		while (pos < T) {
			int l = step;
			if (l > T - pos) l = T - pos;
			pos = put_label(b, pos, l, (unsigned char)('a' + (pos % 7)));
			if (pos < T) b[pos++] = '.';
		}
		boundary_case(b, T);
	}
	/* every byte value 1..255 at the first, second, middle and last position of short and long valid domains */
	for (ch = 1; ch < 256; ch++) {
		static const char *bases[] = { "ab.cd", "*.abc.de", "abcdefghijklmnopqrstuvwxyz0123456789.ABCDEFGHIJKLMNOPQRSTUVWXYZ-0.x-y" };
		for (k = 0; k < 3; k++) {
			int bl = (int)strlen(bases[k]);
			int posn[4];
			int j;
			posn[0] = 0; posn[1] = 1; posn[2] = bl / 2; posn[3] = bl - 1;
			for (j = 0; j < 4; j++) {
				memcpy(b, bases[k], (size_t)bl);
				b[posn[j]] = (unsigned char)ch;
				boundary_case(b, bl);
			}
		}
	}
	/* '*' at every position of a 128-char domain and of a short one */
	{
		static const char *bases[] = { "ab.cd.ef", NULL };
		unsigned char longd[130];
		int ln = 0, j;
		while (ln < 128) {
			int l = 31;
			if (l > 128 - ln) l = 128 - ln;
			ln = put_label(longd, ln, l, 'k');
			if (ln < 128) longd[ln++] = '.';
		}
		for (j = 0; j < ln; j++) {
			memcpy(b, longd, (size_t)ln);
			b[j] = '*';
			boundary_case(b, ln);
		}
		for (j = 0; j < 8; j++) {
			memcpy(b, bases[0], 8);
			b[j] = '*';
			boundary_case(b, 8);
		}
	}
}

/* ------------------------------------------------------------------ random long names */

static const char DCH[] = "abcxyzABCXYZ019-";
static const char QCH[] = "abcxyzABCXYZ019-_*";

static void gen_label(unsigned char *dst, int len, const char *alpha, int nalpha, int star_ok)
{
	int i;
	for (i = 0; i < len; i++) {
		unsigned char c;
		do {
			c = (unsigned char)alpha[drv_below((unsigned)nalpha)];
		} while (c == '*' && !star_ok);
		dst[i] = c;
	}
}

static int gen_domain(unsigned char *d)
{
	int tries, reason;
	for (tries = 0; tries < 60; tries++) {
		int wild = drv_below(3) == 0;
		unsigned r = drv_below(10);
		int T = r < 5 ? 3 + (int)drv_below(18) : r < 9 ? 21 + (int)drv_below(108) : 120 + (int)drv_below(9);
		int pos = 0;
		if (wild) { d[0] = '*'; d[1] = '.'; pos = 2; }
		if (T < pos + 1) T = pos + 1;
		while (pos < T) {
			int l = drv_below(2) ? 1 + (int)drv_below(8) : 1 + (int)drv_below(63);
			if (l > T - pos) l = T - pos;
			if (pos + l == T - 1) { if (l > 1) l--; else l++; }
			gen_label(d + pos, l, DCH, (int)sizeof(DCH) - 1, 0);
			pos += l;
			if (pos < T) d[pos++] = '.';
		}
		if (ref_validate(d, T, 1, &reason)) return T;
	}
	memcpy(d, "a.b", 3);
	return 3;
}

/* a damaged copy of a valid domain, for validation only */
static int damage_domain(unsigned char *o, const unsigned char *d, int n)
{
	static const unsigned char bad[] = { ' ', '_', '/', '@', '*', 0x80, '.', '!', 0xe9, '\\', '"', '~' };
	int at = (int)drv_below((unsigned)n), m = n, i;
	memcpy(o, d, (size_t)n);
	switch (drv_below(6)) {
	case 0: o[at] = bad[drv_below(sizeof(bad))]; break;
	case 1: /* insert one char: may push a label to 64 or the total to 129 */
		memmove(o + at + 1, o + at, (size_t)(n - at)); o[at] = 'q'; m = n + 1; break;
	case 2: /* grow the last label until the total is 127..131 */
		m = 127 + (int)drv_below(5);
		if (m < n) m = n;
		for (i = n; i < m; i++) o[i] = (i % 64 == 63 && drv_below(2)) ? '.' : 'w';
		break;
	case 3: memmove(o + 2, o, (size_t)n); o[0] = '*'; o[1] = drv_below(4) ? '.' : 'a'; m = n + 2; break;
	case 4: memmove(o + at, o + at + 1, (size_t)(n - at - 1)); m = n - 1; break;
	default: { /* stretch one label to 63/64/65 */
		struct labels L;
		int li, grow;
		split_labels(d, n, &L);
		li = (int)drv_below((unsigned)L.n);
		grow = 63 + (int)drv_below(3) - L.len[li];
		if (grow < 0) grow = 0;
		at = L.off[li] + L.len[li];
		memmove(o + at + grow, o + at, (size_t)(n - at));
		memset(o + at, 'g', (size_t)grow);
		m = n + grow;
		break;
	}
	}
	return m;
}

static int gen_qname(unsigned char *out, const struct dom *d)
{
	unsigned char lit[200], wl[24], suf[500], pre[1200], all[1800];
	int ll = d->restlen, wlen, sl = 0, pl = 0, n, i, kind = -1, noprefix = 0, fill = 0, glue = 0;

	/* case-randomised literal part */
	memcpy(lit, d->s + d->restoff, (size_t)ll);
	if (drv_below(4))
		for (i = 0; i < ll; i++)
			if (((lit[i] | 0x20) >= 'a' && (lit[i] | 0x20) <= 'z') && drv_below(2)) lit[i] ^= 0x20;
	wlen = 1 + (int)drv_below(10);
	gen_label(wl, wlen, "abcxyzABCXYZ019-_", 17, 0);

	if (drv_below(2)) {
		kind = (int)drv_below(9);
		if (d->wild && kind != 6 && !(kind == 2 && drv_below(2))) {
			if (kind == 3) {
				if (drv_below(3) == 0) { wl[0] = '*'; wlen = 1; }
				else wl[drv_below((unsigned)wlen)] = '*';
			}
			memcpy(suf, wl, (size_t)wlen); sl = wlen; suf[sl++] = '.';
		} else if (!d->wild && kind == 3) {
			suf[sl++] = '*'; suf[sl++] = '.';
		}
		switch (kind) {
		case 1:
			if (drv_below(2)) {
				lit[drv_below((unsigned)ll)] = (unsigned char)"abcxyzABCXYZ019-."[drv_below(17)];
			} else {
				/* a byte that differs from the original in one or two bits (0x20, 0x40, 0x80, 0x10, 0x01 ...): what sloppy
				 * case folding ("| 0x20", "& 0xdf", "^ 0x20") would still accept - e.g. 0x0e for '.', 0x0d for '-',
				 * 0x10..0x19 for digits, '@' / '`' next to letters */
				static const unsigned char flips[] = { 0x20, 0x20, 0x20, 0x40, 0x80, 0x10, 0x01, 0x60, 0xa0 };
				int at2 = (int)drv_below((unsigned)ll);
				unsigned char nb = (unsigned char)(lit[at2] ^ flips[drv_below(sizeof(flips))]);
				if (nb != 0 && nb != '.') lit[at2] = nb;
				else lit[at2] = (unsigned char)(lit[at2] ^ 0x02);
				if (lit[at2] == 0 || lit[at2] == '.') lit[at2] = 'q';
			}
			break;
		case 2: /* label boundary shifted: extra characters glued to the first literal label */
			if (sl && suf[sl - 1] == '.' && drv_below(2)) sl--;      /* "wl" + rest without the dot */
			else { suf[sl++] = (unsigned char)"xa-0"[drv_below(4)]; }
			if (drv_below(3) == 0) glue = 1;                          /* and no dot after the prefix either */
			break;
		case 4: { /* first literal label dropped */
			int cut = d->L.len[d->wild] + 1;
			if (cut > ll) cut = ll;
			memmove(lit, lit + cut, (size_t)(ll - cut));
			ll -= cut;
			break;
		}
		case 6: noprefix = (int)drv_below(3); break;
		case 8: fill = 1; break;
		}
		memcpy(suf + sl, lit, (size_t)ll); sl += ll;
		if (kind == 5) suf[sl++] = '.';
		if (kind == 7) { suf[sl++] = '.'; gen_label(suf + sl, 3, DCH, 16, 0); sl += 3; }
	}
	if (drv_below(16) == 0) fill = 1;

	/* data labels in front */
	if (noprefix == 0 || kind != 6) {
		int nl = (int)drv_below(6);
		if (kind < 0 && nl == 0 && drv_below(4)) nl = 1;
		for (i = 0; i < nl; i++) {
			int l = drv_below(4) ? 1 + (int)drv_below(12) : 1 + (int)drv_below(63);
			gen_label(pre + pl, l, QCH, (int)sizeof(QCH) - 1, 1);
			if (drv_below(64) == 0) pre[pl + (int)drv_below((unsigned)l)] = (unsigned char)(0x80 + drv_below(128));
			pl += l;
			pre[pl++] = '.';
		}
		if (fill) {
			while (pl + sl < 255) {
				int need = 255 - pl - sl;
				int l = need - 1 > 63 ? 63 : need - 1;
				if (l < 1) l = 1;
				gen_label(pre + pl, l, QCH, (int)sizeof(QCH) - 1, 1);
				pl += l;
				pre[pl++] = '.';
			}
		}
		if (pl && (sl == 0 || glue || suf[0] == '.')) pl--;     /* no dot at the junction */
	} else if (noprefix == 1) {
		pre[pl++] = '.';                                            /* lone leading dot */
	}
	memcpy(all, pre, (size_t)pl);
	memcpy(all + pl, suf, (size_t)sl);
	n = pl + sl;
	i = 0;
	if (n > 255) { i = n - 255; n = 255; }
	if (n < 255 && n > 0 && all[i] != '.' && drv_below(16) == 0) {
		/* leading dot = empty first label (tests/common.c expects ".r.foo.com" to carry 1 data char) */
		out[0] = '.';
		memcpy(out + 1, all + i, (size_t)n);
		n++;
	} else {
		memcpy(out, all + i, (size_t)n);
	}
	out[n] = 0;
	return n;
}

static void random_case(unsigned long long casenum)
{
	unsigned char dbuf[140], bad[300], q[300];
	struct dom d;
	struct labels Q;
	char *qheap;
	int dn, bn, qn, i;

	drv_seed((seed + 1) * 0x9E3779B97F4A7C15ULL ^ (casenum * 0xD1342543DE82EF95ULL + 0x632BE59BD9B4E019ULL));
	for (i = 0; i < 4; i++) drv_rand();
	cur_case = casenum;

	dn = gen_domain(dbuf);
	validate_both(dbuf, dn);
	if (drv_below(4) == 0) {
		bn = damage_domain(bad, dbuf, dn);
		validate_both(bad, bn);
	}
	dom_init(&d, dbuf, dn);
	qn = gen_qname(q, &d);
	for (i = 0; i + 1 < qn; i++)
		if (q[i] == '.' && q[i + 1] == '.') { n_skipped++; dom_free(&d); return; }   /* outside the quantifier */
	if (qn > 255) harness_die("random name longer than 255");
	split_labels(q, qn, &Q);
	qheap = heapdup(q, qn);
	do_match(q, qn, &Q, qheap, &d);
	/* the same name against the bare literal part / the wildcarded variant of the domain */
	if (drv_below(4) == 0) {
		struct dom d2;
		unsigned char alt[140];
		int an, reason;
		if (d.wild) { an = d.restlen; memcpy(alt, d.s + 2, (size_t)an); }
		else { an = d.n + 2; alt[0] = '*'; alt[1] = '.'; memcpy(alt + 2, d.s, (size_t)d.n); }
		if (ref_validate(alt, an, 1, &reason)) {
			dom_init(&d2, alt, an);
			do_match(q, qn, &Q, qheap, &d2);
			dom_free(&d2);
		}
	}
	free(qheap);
	dom_free(&d);
	n_random++;
}

/* ------------------------------------------------------------------ main */

int main(int argc, char **argv)
{
	int matchlen = argc > 4 ? atoi(argv[4]) : 6;
	unsigned long long nrandom = argc > 5 ? strtoull(argv[5], NULL, 10) : 10000;
	unsigned long long i, total;
	int L, c;

	shard = argc > 1 ? atoi(argv[1]) : 0;
	nshards = argc > 2 ? atoi(argv[2]) : 1;
	seed = argc > 3 ? strtoull(argv[3], NULL, 10) : 1;
	if (nshards < 1 || shard < 0 || shard >= nshards || matchlen < 0 || matchlen > 10) harness_die("bad arguments");
	samples_left = 8;

	phase = "validate-boundary";
	validate_boundaries();

	phase = "validate-exhaustive";
	total = 0;
	for (L = 0; L <= 7; L++)
		total += enum_strings(L, 0, validate_both);
	if (shard == 0) DRV_X("validate_exhaustive_strings_len0to7", total);

	phase = "match-exhaustive";
	for (c = 0; c < NDOMS; c++) {
		int n = (int)strlen(DOMS[c]);
		dom_init(&doms[c], (const unsigned char *)DOMS[c], n);
		if (mine()) {
			/* the fixed domains must also be accepted by the code under test */
			if (!do_validate((const unsigned char *)DOMS[c], n, 1)) harness_die("fixed domain rejected by reference");
		}
	}
	total = 0;
	for (L = 0; L <= matchlen; L++)
		total += enum_strings(L, 1, match_all_doms);
	if (shard == 0) {
		DRV_X("match_exhaustive_names_without_dotdot", total);
		DRV_X("match_exhaustive_maxlen", matchlen);
		DRV_X("match_exhaustive_domains", NDOMS);
	}
	for (c = 0; c < NDOMS; c++) dom_free(&doms[c]);

	phase = "random";
	for (i = 0; i < nrandom; i++)
		if (mine()) random_case(i + 1);
	cur_case = 0;

	DRV_E(evals);
	DRV_X("validate_comparisons", n_validate);
	DRV_X("match_comparisons", n_match);
	DRV_X("match_accepts", n_match_accept);
	DRV_X("random_names", n_random);
	DRV_X("random_name_accepts", n_random_accept);
	DRV_X("random_names_skipped_dotdot", n_skipped);
	for (c = 0; c < NCLS; c++)
		if (cls_count[c]) DRV_N("%s", cls_name[c]);
	return 0;
}
