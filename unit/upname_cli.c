/* C08 (client half): the tree's client.c compiled as text, plus thin accessors.
 *
 * Nothing of the client is re-implemented here.  The configuration goes through the client's own
 * public setters where they exist (client_set_topdomain / _hostname_maxlen / _password /
 * _lazymode / _qtype / _nameserver); the upstream codec, the user id triple and the packet
 * cursor have no setter and are assigned the way handshake_version(), handshake_switch_codec()
 * and tunnel_dns()/tunnel_tun() in client.c assign them.
 *
 * send_query()'s "receiving too few answers" logic is kept inert: lazymode is 0 and
 * send_query_sendcnt stays at its initial -1, so handshake_lazyoff() is never entered.
 */
#include "client.c"

#define DRV_CLI_FD 1001

static const struct encoder *drv_cli_codecs[4] = { &base32_ops, &base64_ops, &base64u_ops, &base128_ops };

void drv_cli_start(const char *domain, int maxlen, int codec, int edns0, const char *pw)
{
	struct sockaddr_storage ss;
	struct sockaddr_in *sin = (struct sockaddr_in *) &ss;

	memset(&ss, 0, sizeof(ss));
	sin->sin_family = AF_INET;
	sin->sin_port = htons(53);
	sin->sin_addr.s_addr = htonl(0x7f000001);
	client_set_nameserver(&ss, sizeof(*sin));

	client_init();                      /* fresh rand_seed / chunkid, packet counters at 0 */
	client_set_topdomain(domain);
	client_set_hostname_maxlen(maxlen);
	client_set_password(pw);
	client_set_lazymode(0);
	client_set_selecttimeout(4);
	client_set_qtype("NULL");
	dataenc = drv_cli_codecs[codec & 3];
	dnsc_use_edns0 = edns0;
	send_query_sendcnt = -1;
	send_query_recvcnt = 0;
	outpkt.offset = 0;
	outpkt.sentlen = 0;
}

int drv_cli_get_maxlen(void) { return hostname_maxlen; }

/* what handshake_version() does with the VACK answer */
void drv_cli_set_user(int uid)
{
	static const char hex[] = "0123456789abcdef";
	static const char hex2[] = "0123456789ABCDEF";
	userid = uid;
	userid_char = hex[uid & 15];
	userid_char2 = hex2[uid & 15];
}

/* the downstream position the client acknowledges in every header (free protocol field) */
void drv_cli_set_downpos(int seqno, int fragment)
{
	inpkt.seqno = seqno & 7;
	inpkt.fragment = fragment & 15;
}

/* what tunnel_tun() does when a new packet is ready to go up */
void drv_cli_new_packet(const unsigned char *data, int len)
{
	memcpy(outpkt.data, data, len);
	outpkt.len = len;
	outpkt.offset = 0;
	outpkt.sentlen = 0;
	outpkt.seqno = (outpkt.seqno + 1) & 7;
	outpkt.fragment = 0;
	outchunkresent = 0;
}

/* what tunnel_dns() does when the chunk in flight is acknowledged and more is left */
void drv_cli_ack_advance(void)
{
	outpkt.offset += outpkt.sentlen;
	outpkt.fragment++;
	outchunkresent = 0;
}

void drv_cli_packet_done(void)
{
	outpkt.offset = 0;
	outpkt.len = 0;
	outpkt.sentlen = 0;
}

int drv_cli_offset(void) { return outpkt.offset; }
int drv_cli_sentlen(void) { return outpkt.sentlen; }
int drv_cli_seqno(void) { return outpkt.seqno & 7; }
int drv_cli_fragment(void) { return outpkt.fragment & 15; }
unsigned drv_cli_last_id(void) { return chunkid; }

void drv_cli_send_chunk(void) { send_chunk(DRV_CLI_FD); }
void drv_cli_send_ping(void) { send_ping(DRV_CLI_FD); }
void drv_cli_send_version(void) { send_version(DRV_CLI_FD, PROTOCOL_VERSION); }
void drv_cli_send_setfrag(int fragsize) { send_set_downstream_fragsize(DRV_CLI_FD, fragsize); }
void drv_cli_send_probe(int fragsize) { send_fragsize_probe(DRV_CLI_FD, fragsize); }

/* what handshake_login() does with the seed from the VACK answer */
void drv_cli_send_login(int seed)
{
	char login[16];
	login_calculate(login, 16, password, seed);
	send_login(DRV_CLI_FD, login, 16);
}
