/* C12: a datagram is interpreted from its own bytes only.
 * Differential oracle: dns_decode() on the same datagram with different contents of the receive
 * buffer beyond the datagram's length must produce identical observables.
 *
 * usage: residue <shard> <nshards> <seed> <rounds>
 */
#include "drv.h"
#include <arpa/inet.h>
#include "common.h"
#include "dns.h"
#include "encoding.h"
#include "read.h"

#define BUFSZ 65536
#define NRES 7
#define T_NULL_ 10
#define T_TXT_ 16
#define T_CNAME_ 5
#define T_A_ 1
#define T_MX_ 15
#define T_SRV_ 33

static unsigned char *bufs[NRES];
static unsigned long long evals, differing, trapclass[8];
static const char *domain = "t.example.com";

struct obs {
	int rv;
	char name[QUERY_NAME_SIZE];
	unsigned short type, id, rcode;
	unsigned char out[8192];
	int outlen;
};

static void fill_residue(int i, unsigned char *tail, size_t n, const unsigned char *prev, size_t prevlen, size_t dlen)
{
	size_t k;
	switch (i) {
	case 0: memset(tail, 0, n); break;
	case 1: memset(tail, 0xFF, n); break;
	case 2: for (k = 0; k < n; k++) tail[k] = (unsigned char)(k + 1); break;
	case 3: for (k = 0; k < n; k++) tail[k] = (k & 1) ? 0x0C : 0xC0; break;
	case 4: {
		/* plausible continuation: labels, the tunnel domain, type/class, RR tails, text */
		static const unsigned char cont[] =
			"\x05zabcd\x01t\x07" "example\x03" "com\x00\x00\x0a\x00\x01"
			"\xc0\x0c\x00\x0a\x00\x01\x00\x00\x00\x00\x00\x08SECRETS!"
			"\x07secret1\x07secret2\xc0\x0c\x00\x10\x00\x01\x00\x00\x00\x00\x00\x09\x08tAAAAAAA"
			"\x00\x0a\x09hsecretxy\x02zz\x00";
		for (k = 0; k < n; k++) tail[k] = cont[k % (sizeof(cont) - 1)];
		break;
	}
	case 6: {
		/* small big-endian numbers (10, 20, 30: what the protocol uses as MX/SRV preferences; 1: class IN; short lengths) */
		static const unsigned char nums[] = "\x00\x0a\x00\x14\x00\x1e\x00\x01\x00\x02\x00\x28";
		for (k = 0; k < n; k++) tail[k] = nums[k % (sizeof(nums) - 1)];
		break;
	}
	default:
		/* what a previous, longer datagram of another client left behind */
		for (k = 0; k < n; k++) {
			size_t pos = dlen + k;
			tail[k] = pos < prevlen ? prev[pos] : (unsigned char)(0x41 + (pos % 23));
		}
		break;
	}
}

/* What the decoder was last used for must not matter either: before every decode of the datagram under test, one of
   two different earlier datagrams (another client's query, another answer) is decoded, alternating with the residue
   index, so that the decoder's own scratch memory (stack locals, statics) differs between the runs compared. */
#define NHIST 4
static unsigned char histq[NHIST][600], hista[NHIST][2400];
static size_t histqlen[NHIST], histalen[NHIST];
static unsigned long long hist_calls;

static void decode_history(int i)
{
	struct query q0;
	static char sink[8192];
	if (!histqlen[0]) return;
	memset(&q0, 0, sizeof(q0));
	dns_decode(NULL, 0, &q0, QR_QUERY, (char *)histq[i % NHIST], histqlen[i % NHIST]);
	memset(&q0, 0, sizeof(q0));
	dns_decode(sink, sizeof(sink), &q0, QR_ANSWER, (char *)hista[i % NHIST], histalen[i % NHIST]);
	hist_calls += 2;
}

static void run_one(int qr, const unsigned char *d, size_t dlen, int i, struct obs *o,
		    const unsigned char *prev, size_t prevlen, size_t outcap)
{
	struct query q;
	unsigned char *b = bufs[i];
	decode_history(i);
	memcpy(b, d, dlen);
	fill_residue(i, b + dlen, 4096 + 600 < BUFSZ - dlen ? 4096 + 600 : BUFSZ - dlen, prev, prevlen, dlen);
	memset(&q, 0, sizeof(q));
	memset(o, 0, sizeof(*o));
	memset(o->out, 0x5A, sizeof(o->out));
	if (qr == QR_QUERY)
		o->rv = dns_decode(NULL, 0, &q, QR_QUERY, (char *)b, dlen);
	else
		o->rv = dns_decode((char *)o->out, outcap, &q, QR_ANSWER, (char *)b, dlen);
	memcpy(o->name, q.name, sizeof(o->name));
	o->type = q.type; o->id = q.id; o->rcode = q.rcode;
	o->outlen = o->rv > 0 ? (o->rv > (int)sizeof(o->out) ? (int)sizeof(o->out) : o->rv) : 0;
}

static int same(const struct obs *a, const struct obs *b, int qr)
{
	if (a->rv != b->rv || a->type != b->type || a->id != b->id || a->rcode != b->rcode) return 0;
	if (qr == QR_QUERY) {
		if (a->rv > 0 && strcmp(a->name, b->name)) return 0;
	} else {
		if (a->name[0] != b->name[0]) return 0;
		if (a->outlen && memcmp(a->out, b->out, a->outlen)) return 0;
	}
	return 1;
}

static const char *kindname;
static struct { const char *k; int seen[3]; } classes[32];
static void note_class(const char *k, int rv)
{
	int i, c = rv > 0 ? 2 : (rv == 0 ? 1 : 0);
	for (i = 0; i < 32 && classes[i].k; i++)
		if (classes[i].k == k) { classes[i].seen[c] = 1; return; }
	if (i < 32) { classes[i].k = k; classes[i].seen[c] = 1; }
}

static void check(int qr, const unsigned char *d, size_t dlen, const unsigned char *prev, size_t prevlen, size_t outcap)
{
	static struct obs o[NRES];
	int i;
	if (dlen > 5000) return;
	for (i = 0; i < NRES; i++) run_one(qr, d, dlen, i, &o[i], prev, prevlen, outcap);
	evals++;
	note_class(kindname, o[0].rv);
	for (i = 1; i < NRES; i++) {
		if (!same(&o[0], &o[i], qr)) {
			char hx[700], key[96], n0[80], n1[80];
			differing++;
			drv_hex(hx, sizeof(hx), d, dlen > 300 ? 300 : dlen);
			drv_hex(n0, sizeof(n0), qr == QR_QUERY ? (void *)o[0].name : (void *)o[0].out, 30);
			drv_hex(n1, sizeof(n1), qr == QR_QUERY ? (void *)o[i].name : (void *)o[i].out, 30);
			snprintf(key, sizeof(key), "C12:decode-depends-on-residue:%s", kindname);
			DRV_VIOL(key, "%s of %zu bytes decodes differently with residue 0 (rv=%d) and residue %d (rv=%d): %s vs %s\tdatagram=%s",
				 kindname, dlen, o[0].rv, i, o[i].rv, n0, n1, hx);
			return;
		}
	}
}

/* --- datagram builders ---------------------------------------------------- */

static size_t put_labels(unsigned char *p, const char *dotted)
{
	size_t n = 0;
	const char *s = dotted;
	while (*s) {
		const char *e = strchr(s, '.');
		size_t l = e ? (size_t)(e - s) : strlen(s);
		p[n++] = (unsigned char)l;
		memcpy(p + n, s, l); n += l;
		s += l;
		if (*s == '.') s++;
	}
	p[n++] = 0;
	return n;
}

static size_t mk_query(unsigned char *d, const char *name, unsigned short type, int edns)
{
	size_t n = 12;
	memset(d, 0, 12);
	d[0] = drv_rand(); d[1] = drv_rand() | 1; d[2] = 0x01; d[5] = 1;
	n += put_labels(d + n, name);
	d[n++] = type >> 8; d[n++] = type & 0xFF; d[n++] = 0; d[n++] = 1;
	if (edns) {
		static const unsigned char opt[] = {0, 0, 41, 0x10, 0, 0, 0, 0x80, 0, 0, 0};
		d[11] = 1;
		memcpy(d + n, opt, sizeof(opt)); n += sizeof(opt);
	}
	return n;
}

static void rand_b32(char *s, int n) { int i; for (i = 0; i < n; i++) s[i] = "abcdefghijklmnopqrstuvwxyz012345"[drv_below(32)]; s[n] = 0; }

static void mk_qname(char *out, size_t cap)
{
	char data[200];
	int n = 1 + drv_below(120), i, o = 0;
	rand_b32(data, n);
	data[0] = "pPzZvV0aL"[drv_below(9)];
	for (i = 0; i < n; i++) {
		out[o++] = data[i];
		if ((i % 57) == 56 && i + 1 < n) out[o++] = '.';
	}
	out[o++] = '.';
	strcpy(out + o, domain);
}

/* answers are produced by the tree's own encoder (it is the server's writer) */
static size_t mk_answer(unsigned char *d, size_t cap, unsigned short type, int datalen)
{
	struct query q;
	char data[8192];
	char qn[300];
	int len, i;
	memset(&q, 0, sizeof(q));
	mk_qname(qn, sizeof(qn));
	strncpy(q.name, qn, sizeof(q.name) - 1);
	q.type = type;
	q.id = 1 + drv_below(65000);
	if (type == T_CNAME_ || type == T_A_) {
		char enc[120]; rand_b32(enc, 20 + drv_below(80));
		snprintf(data, sizeof(data), "h%s.xy", enc);
		len = dns_encode((char *)d, cap, &q, QR_ANSWER, data, sizeof(data));
	} else if (type == T_MX_ || type == T_SRV_) {
		int nrec = 1 + drv_below(4), o = 0;
		for (i = 0; i < nrec; i++) {
			char enc[120]; rand_b32(enc, 10 + drv_below(90));
			o += snprintf(data + o, sizeof(data) - o, "h%s.xy", enc) + 1;
		}
		data[o] = 0;
		len = dns_encode((char *)d, cap, &q, QR_ANSWER, data, sizeof(data));
	} else if (type == T_TXT_) {
		data[0] = 't';
		rand_b32(data + 1, datalen);
		len = dns_encode((char *)d, cap, &q, QR_ANSWER, data, datalen + 1);
	} else {
		for (i = 0; i < datalen; i++) data[i] = drv_rand();
		len = dns_encode((char *)d, cap, &q, QR_ANSWER, data, datalen);
	}
	return len > 0 ? (size_t)len : 0;
}

int main(int argc, char **argv)
{
	int shard = argc > 1 ? atoi(argv[1]) : 0;
	int nsh = argc > 2 ? atoi(argv[2]) : 1;
	unsigned seed = argc > 3 ? (unsigned)atoi(argv[3]) : 1;
	int rounds = argc > 4 ? atoi(argv[4]) : 20;
	static unsigned char d[BUFSZ], m[BUFSZ], prev[BUFSZ];
	static const unsigned short atypes[] = {T_NULL_, 65399, T_TXT_, T_CNAME_, T_A_, T_MX_, T_SRV_};
	static const char *anames[] = {"answer-NULL", "answer-PRIVATE", "answer-TXT", "answer-CNAME", "answer-A", "answer-MX", "answer-SRV"};
	int r, i, work = 0;
	size_t prevlen;

	for (i = 0; i < NRES; i++) bufs[i] = malloc(BUFSZ);
	drv_seed(seed * 2654435761u + (unsigned)shard * 97u + 3);
	/* the "previous datagram of another client": a long valid query with recognisable data */
	prevlen = mk_query(prev, "0abcdzSECRETDATAOFANOTHERCLIENTaaaaaaaaaaaaaaaaaaaaaaaaaaa.bbbbbbbbbbbbbbbbbbbbbbbbbbbbbbbbbbbbbbbbbbbbbbbbbbbbbbbbbbb.t.example.com", T_NULL_, 1);
	memcpy(prev + prevlen, "\xc0\x0c\x00\x0a\x00\x01\x00\x00\x00\x00\x00\x10SIXTEENBYTESDATA", 28); prevlen += 28;

	histqlen[0] = mk_query(histq[0], "zFIRSTOTHERCLIENTSNAMEfirstotherclientsname0123456789.ccccccccccccccccccccccccccccccc.t.example.com", 16, 0);
	histqlen[1] = mk_query(histq[1], "1qqqqSECONDOTHERCLIENTSDATAqqqqqqqqqqqqqqqqqqqqqqqqqqqqqqqqq.dddddddddddddddddddddddddddddddddddddddddddddd.t.example.com", T_NULL_, 1);
	histalen[0] = mk_answer(hista[0], sizeof(hista[0]), T_CNAME_, 120);
	histalen[1] = mk_answer(hista[1], sizeof(hista[1]), T_MX_, 200);
	/* 2: an MX answer of several records that breaks off inside its last record (useless as a whole: what was read from the
	   records in front of the break must not show in later decodes); 3: a complete SRV answer of several records */
	memcpy(histq[2], histq[1], histqlen[1]); histqlen[2] = histqlen[1];
	memcpy(histq[3], histq[0], histqlen[0]); histqlen[3] = histqlen[0];
	do { histalen[2] = mk_answer(hista[2], sizeof(hista[2]), T_MX_, 200); } while (hista[2][7] < 3);
	histalen[2] -= 7;
	do { histalen[3] = mk_answer(hista[3], sizeof(hista[3]), T_SRV_, 200); } while (hista[3][7] < 3);

	for (r = 0; r < rounds; r++) {
		char qn[300];
		size_t n, k;
		int t;
		if (work++ % nsh != shard) { drv_rand(); continue; }

		/* A. valid query cut at every byte */
		kindname = "query-truncated";
		mk_qname(qn, sizeof(qn));
		n = mk_query(d, qn, (unsigned short[]){10, 16, 5, 1, 15, 33, 2}[drv_below(7)], drv_below(2));
		for (k = 0; k <= n; k++) check(QR_QUERY, d, k, prev, prevlen, 0);

		/* B. name ending in a compression pointer that targets the end region */
		kindname = "query-pointer-near-end";
		for (t = -6; t <= 6; t++) {
			size_t nn = 12;
			int tgt;
			memset(m, 0, 12); m[1] = 7; m[2] = 1; m[5] = 1;
			m[nn++] = 5; memcpy(m + nn, "zabcd", 5); nn += 5;
			tgt = (int)nn + 2 + 4 + t;	/* relative to the datagram end */
			if (tgt < 0) tgt = 0;
			m[nn++] = 0xC0 | ((tgt >> 8) & 0x3F); m[nn++] = tgt & 0xFF;
			m[nn++] = 0; m[nn++] = 10; m[nn++] = 0; m[nn++] = 1;
			check(QR_QUERY, m, nn, prev, prevlen, 0);
			check(QR_QUERY, m, nn - 4, prev, prevlen, 0);
			/* pointer as very first element */
			nn = 12;
			tgt = 12 + 2 + 4 + t;
			m[nn++] = 0xC0; m[nn++] = tgt & 0xFF;
			m[nn++] = 0; m[nn++] = 10; m[nn++] = 0; m[nn++] = 1;
			check(QR_QUERY, m, nn, prev, prevlen, 0);
		}

		/* C. label length byte claiming more than is present */
		kindname = "query-label-overrun";
		for (t = 0; t < 12; t++) {
			size_t nn = 12;
			int have = drv_below(20), claim = have + 1 + drv_below(40);
			memset(m, 0, 12); m[1] = 9; m[2] = 1; m[5] = 1;
			m[nn++] = 1; m[nn++] = 'z';
			m[nn++] = claim > 63 ? 63 : claim;
			for (k = 0; k < (size_t)have; k++) m[nn++] = 'a' + drv_below(26);
			check(QR_QUERY, m, nn, prev, prevlen, 0);
		}

		/* D. answers of every type: cut at every byte, RDLENGTH inflated, TXT string length inflated */
		for (t = 0; t < 7; t++) {
			size_t outcap = drv_below(2) ? 4096 : 8192;
			kindname = anames[t];
			n = mk_answer(d, sizeof(d), atypes[t], 2 + drv_below(300));
			if (!n) continue;
			for (k = 12; k <= n; k += (n > 400 ? 1 + drv_below(3) : 1)) check(QR_ANSWER, d, k, prev, prevlen, outcap);
			/* locate the first answer RR's RDLENGTH: question name + 4, then pointer(2)+type(2)+class(2)+ttl(4) */
			{
				size_t q = 12;
				while (q < n && d[q]) q += d[q] + 1;
				q += 1 + 4;
				if (q + 12 <= n) {
					static const int add[] = {1, 2, 255, 4096, 60000};
					size_t rdl = q + 10;
					int a;
					for (a = 0; a < 5; a++) {
						unsigned v = ((d[rdl] << 8) | d[rdl + 1]) + add[a];
						memcpy(m, d, n);
						m[rdl] = (v >> 8) & 0xFF; m[rdl + 1] = v & 0xFF;
						check(QR_ANSWER, m, n, prev, prevlen, outcap);
						check(QR_ANSWER, m, n - drv_below(n - rdl), prev, prevlen, outcap);
					}
					if (atypes[t] == T_TXT_) {
						memcpy(m, d, n);
						m[rdl + 2] = 255;	/* first character-string claims 255 bytes */
						check(QR_ANSWER, m, n, prev, prevlen, outcap);
						check(QR_ANSWER, m, rdl + 2 + 1 + drv_below(40), prev, prevlen, outcap);
					}
					/* name in RDATA replaced by a pointer to the end region */
					if (atypes[t] == T_CNAME_ || atypes[t] == T_A_) {
						int e;
						for (e = -3; e <= 3; e++) {
							size_t nn = rdl + 2;
							int tgt = (int)nn + 2 + e;
							memcpy(m, d, n);
							m[rdl] = 0; m[rdl + 1] = 2;
							m[nn++] = 0xC0 | ((tgt >> 8) & 0x3F); m[nn++] = tgt & 0xFF;
							check(QR_ANSWER, m, nn, prev, prevlen, outcap);
						}
					}
				}
			}
		}
	}
	/* E. (once per shard) answers to A / CNAME questions whose record is a plain A record with RDLENGTH 0..6 and the
	   datagram ending right after the bytes RDLENGTH announces - or earlier */
	for (r = 0; r < 64; r++) {
		size_t nn, q;
		int rdl, cut, qt;
		if (r % nsh != shard % nsh) continue;
		kindname = "answer-A-record-short";
		qt = (r & 1) ? T_A_ : T_CNAME_;
		nn = mk_query(m, "paaaaaaa.t.example.com", (unsigned short)qt, 0);
		m[2] = 0x84; m[3] = 0; m[7] = 1;	/* response, one answer */
		q = nn;
		for (rdl = 0; rdl <= 6; rdl++) {
			for (cut = 0; cut <= rdl; cut++) {
				size_t e = q;
				int k2;
				m[e++] = 0xC0; m[e++] = 0x0C;
				m[e++] = 0; m[e++] = 1;	/* type A */
				m[e++] = 0; m[e++] = 1;
				m[e++] = 0; m[e++] = 0; m[e++] = 0; m[e++] = 0;
				m[e++] = 0; m[e++] = (unsigned char)rdl;
				for (k2 = 0; k2 < rdl - cut; k2++) m[e++] = (unsigned char)(0xE0 + k2);
				check(QR_ANSWER, m, e, prev, prevlen, 4096);
			}
		}
	}
	/* G. MX / SRV answers with several records: the last record's RDLENGTH shrunk to 0..3 with the datagram ending right
	   there, one record's priority made unusable or its neighbour removed (a gap in 10, 20, 30 ..), priorities swapped */
	for (r = 0; r < 48; r++) {
		size_t n, q2, e;
		int ty = (r & 1) ? T_MX_ : T_SRV_, nrec, i2;
		size_t rec[8], rdl[8];
		if (r % nsh != shard % nsh) continue;
		n = mk_answer(d, sizeof(d), (unsigned short)ty, 0);
		if (!n) continue;
		nrec = (d[6] << 8) | d[7];
		q2 = 12;
		while (q2 < n && d[q2]) q2 += d[q2] + 1;
		q2 += 1 + 4;
		e = q2;
		for (i2 = 0; i2 < nrec && i2 < 8; i2++) {
			rec[i2] = e; rdl[i2] = (size_t)((d[e + 10] << 8) | d[e + 11]);
			e += 12 + rdl[i2];
		}
		if (nrec < 2 || nrec > 8 || e != n) continue;
		kindname = (ty == T_MX_) ? "answer-MX-last-record-short" : "answer-SRV-last-record-short";
		for (i2 = 0; i2 <= 3; i2++) {
			memcpy(m, d, n);
			m[rec[nrec - 1] + 10] = 0; m[rec[nrec - 1] + 11] = (unsigned char)i2;
			check(QR_ANSWER, m, rec[nrec - 1] + 12 + (size_t)i2, prev, prevlen, 4096);
		}
		kindname = (ty == T_MX_) ? "answer-MX-priority-gap" : "answer-SRV-priority-gap";
		/* priority of the first / a middle record made odd (not a multiple of 10) */
		for (i2 = 0; i2 < nrec - 1; i2++) {
			memcpy(m, d, n);
			m[rec[i2] + 13] ^= 5;
			check(QR_ANSWER, m, n, prev, prevlen, 4096);
		}
		/* a middle / the first record removed, count adjusted */
		for (i2 = 0; i2 < nrec - 1; i2++) {
			size_t cutlen = 12 + rdl[i2];
			memcpy(m, d, rec[i2]);
			memcpy(m + rec[i2], d + rec[i2] + cutlen, n - rec[i2] - cutlen);
			m[7] = (unsigned char)(nrec - 1);
			check(QR_ANSWER, m, n - cutlen, prev, prevlen, 4096);
		}
	}
	/* F. answers whose question name is nothing but a compression pointer to outside the datagram (the name reader
	   writes nothing): the first character used for matching replies must not come from an earlier decode */
	for (r = 0; r < 32; r++) {
		size_t e = 12;
		int off = (r & 1) ? 0x3FFF : 40 + r;
		if (r % nsh != shard % nsh) continue;
		kindname = "answer-question-name-pointer-first";
		memset(m, 0, 12); m[0] = 0x12; m[1] = 0x34; m[2] = 0x84; m[5] = 1; m[7] = (r & 2) ? 1 : 0;
		m[e++] = 0xC0 | ((off >> 8) & 0x3F); m[e++] = off & 0xFF;
		m[e++] = 0; m[e++] = (r & 4) ? 16 : 10; m[e++] = 0; m[e++] = 1;
		if (r & 2) {
			m[e++] = 0xC0; m[e++] = 0x0C; m[e++] = 0; m[e++] = (r & 4) ? 16 : 10; m[e++] = 0; m[e++] = 1;
			m[e++] = 0; m[e++] = 0; m[e++] = 0; m[e++] = 0; m[e++] = 0; m[e++] = 5;
			m[e++] = 4; m[e++] = 't'; m[e++] = 'a'; m[e++] = 'b'; m[e++] = 'c';
		}
		check(QR_ANSWER, m, e, prev, prevlen, 4096);
	}
	DRV_E(evals * NRES);
	DRV_X("datagrams", evals);
	DRV_X("datagrams_with_differing_decodes", differing);
	DRV_X("history_decodes_interleaved", hist_calls);
	for (i = 0; i < 32 && classes[i].k; i++) {
		static const char *cn[] = {"error", "rejected", "decoded"};
		int c;
		for (c = 0; c < 3; c++)
			if (classes[i].seen[c]) DRV_N("%s -> %s", classes[i].k, cn[c]);
	}
	if (shard == 0) DRV_S("residues: zeros, 0xFF, ascending, C0 0C pairs, plausible continuation, previous longer datagram; kinds: truncated queries, pointers/labels reaching the end, answers of 7 types cut at every byte, inflated RDLENGTH / TXT string length");
	return 0;
}
