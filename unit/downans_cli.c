/* C09, client half: the tree's client.c is compiled as text (no source edit), so that the static
 * reply reader read_dns_withq() can be called.  It receives through recvfrom(), which the driver
 * redirects (-Wl,--wrap=recvfrom, see downans_main.c).  client_init() puts the client into
 * CONN_DNS_NULL, the mode in which answers are DNS-decoded.
 */
#include "client.c"

#define DRV_FAKE_FD 4242   /* same value in downans_srv.c and downans_main.c */

int drv_cli_read(char *buf, int buflen, struct query *q)
{
	static int inited = 0;

	if (!inited) {
		client_init();
		inited = 1;
	}
	return read_dns_withq(DRV_FAKE_FD, 0, buf, buflen, q);
}
