/* C08: upstream query names are legal, within the configured limit, end in the tunnel domain,
 * and the server extracts exactly the reported payload prefix from them.
 *
 * One process holds the tree's client.c (upname_cli.c) and iodined.c (upname_srv.c) as compiled
 * text.  The client's real builders (send_version, send_login, send_ping, send_fragsize_probe,
 * send_chunk, send_set_downstream_fragsize) run; sendto() is redirected (-Wl,--wrap) so the
 * datagram lands here; the same bytes are then handed to the server's real tunnel_dns() through a
 * redirected recvmsg().  Every session is set up by a real 'V' and 'L' message.
 *
 * Oracle (written from RFC 1035 and the property text, none of it calls the tree):
 *   name text  : the host name the client hands to dns_encode() has <= L characters, no empty
 *                label, labels <= 63, ends in ".<domain>" with something in front of it
 *   datagram   : 12-byte header, QR=0, QDCOUNT=1, question name = labels of 1..63 bytes ending in
 *                a zero byte, no compression, <= 255 bytes on the wire, dotted length <= L, last
 *                labels byte-equal to the tunnel domain's labels, type NULL class IN, the OPT
 *                record iff EDNS0 is on, nothing after it; the labels spell the name text
 *   data chunk : 1 <= outpkt.sentlen <= bytes remaining; the bytes the server appended to
 *                users[uid].inpacket are payload[off .. off+sentlen)
 *   other kinds: what build_hostname() reported is 1..len; what the server's unpack_data()
 *                produced is that prefix; and when the message was carried whole the server's
 *                visible reaction is the protocol's (VACK / address line / fragsize stored /
 *                2-byte data header with the query's id / probe answer of the requested size)
 *
 * usage: upname run <shard> <nshards> <seed> <quick|thorough>
 *        upname one <L> <domlen> <codec 0..3> <seed>           (replay of one configuration)
 */
#include "drv.h"
#include <stdarg.h>
#include <errno.h>
#include <unistd.h>
#include <sys/types.h>
#include <sys/socket.h>
#include <netinet/in.h>
#include <arpa/inet.h>
#include "common.h"
#include "dns.h"
#include "encoding.h"
#include "user.h"

#define CLI_FD 1001
#define SRV_DNS_FD 1002
#define SRV_TUN_FD 1003
#define QT_NULL 10

/* ---- upname_cli.c ---- */
void drv_cli_start(const char *domain, int maxlen, int codec, int edns0, const char *pw);
int drv_cli_get_maxlen(void);
void drv_cli_set_user(int uid);
void drv_cli_set_downpos(int seqno, int fragment);
void drv_cli_new_packet(const unsigned char *data, int len);
void drv_cli_ack_advance(void);
void drv_cli_packet_done(void);
int drv_cli_offset(void);
int drv_cli_sentlen(void);
unsigned drv_cli_last_id(void);
void drv_cli_send_chunk(void);
void drv_cli_send_ping(void);
void drv_cli_send_version(void);
void drv_cli_send_setfrag(int fragsize);
void drv_cli_send_probe(int fragsize);
void drv_cli_send_login(int seed);
/* ---- upname_srv.c ---- */
int drv_srv_boot(const char *pw);
void drv_srv_config(const char *domain, int uid);
int drv_srv_feed(void);
void drv_srv_switch_codec(int uid, int codec);
void drv_srv_force_auth(int uid);
int drv_srv_domain_ok(char *client_domain, char *server_domain);

static const char *CODEC_NAME[4] = { "b32", "b64", "b64u", "b128" };
static const int CODEC_BLOCKRAW[4] = { 5, 3, 3, 7 };
static char PASSWORD[33] = "c08-Pass.word";   /* 33 bytes like iodine.c's buffer: login_calculate() reads 32 */

/* ------------------------------------------------------------------------------------------
 * redirected libc / tree entry points
 * ---------------------------------------------------------------------------------------- */
static int in_cli, in_srv;

static unsigned char cli_dgram[8192];
static int cli_len = -1;               /* -1: the builder emitted nothing */
static int cli_sends;

#define MAXANS 6
static unsigned char srv_ans[MAXANS][65536 + 64];
static int srv_ans_len[MAXANS];
static int srv_nans;

static const unsigned char *feed_buf;
static int feed_len;

static unsigned long long tun_writes;

ssize_t __real_sendto(int, const void *, size_t, int, const struct sockaddr *, socklen_t);
static int cli_send_fail;
static unsigned long long cli_send_failed, n_failed_retransmissions;

ssize_t __wrap_sendto(int fd, const void *buf, size_t len, int flags, const struct sockaddr *to, socklen_t tolen)
{
	if (fd == CLI_FD) {
		if (cli_send_fail) {
			/* the operating system refuses this transmission (full interface queue, link down) */
			cli_send_failed++;
			errno = ENOBUFS;
			return -1;
		}
		cli_sends++;
		cli_len = len > sizeof(cli_dgram) ? (int)sizeof(cli_dgram) : (int)len;
		memcpy(cli_dgram, buf, cli_len);
		return len;
	}
	if (fd == SRV_DNS_FD) {
		if (srv_nans < MAXANS) {
			int n = len > 65536 ? 65536 : (int)len;
			memcpy(srv_ans[srv_nans], buf, n);
			srv_ans_len[srv_nans] = n;
			srv_nans++;
		}
		return len;
	}
	return __real_sendto(fd, buf, len, flags, to, tolen);
}

ssize_t __real_recvmsg(int, struct msghdr *, int);
ssize_t __wrap_recvmsg(int fd, struct msghdr *msg, int flags)
{
	struct sockaddr_in sin;
	int n;
	if (fd != SRV_DNS_FD)
		return __real_recvmsg(fd, msg, flags);
	if (feed_len <= 0) { errno = EAGAIN; return -1; }
	memset(&sin, 0, sizeof(sin));
	sin.sin_family = AF_INET;
	sin.sin_port = htons(40053);
	sin.sin_addr.s_addr = htonl(0xC0000207);        /* 192.0.2.7 */
	if (msg->msg_name && msg->msg_namelen >= sizeof(sin)) {
		memcpy(msg->msg_name, &sin, sizeof(sin));
		msg->msg_namelen = sizeof(sin);
	}
	n = feed_len;
	if ((size_t)n > msg->msg_iov[0].iov_len) n = (int)msg->msg_iov[0].iov_len;
	memcpy(msg->msg_iov[0].iov_base, feed_buf, n);
	msg->msg_controllen = 0;
	msg->msg_flags = 0;
	feed_len = 0;
	return n;
}

ssize_t __real_write(int, const void *, size_t);
ssize_t __wrap_write(int fd, const void *buf, size_t n)
{
	if (fd == SRV_TUN_FD) { tun_writes++; return n; }
	return __real_write(fd, buf, n);
}

void __wrap_syslog(int pri, const char *fmt, ...) { (void)pri; (void)fmt; }
void __wrap___syslog_chk(int pri, int flag, const char *fmt, ...) { (void)pri; (void)flag; (void)fmt; }

/* the host name text the client passes down to the DNS encoder */
static char name_txt[4200];
static int name_txt_len = -1;
static unsigned long long n_txt_seen;
int __real_dns_encode(char *, size_t, struct query *, qr_t, const char *, size_t);
int __wrap_dns_encode(char *buf, size_t buflen, struct query *q, qr_t qr, const char *data, size_t datalen)
{
	if (in_cli && qr == QR_QUERY) {
		size_t n = datalen < sizeof(name_txt) - 1 ? datalen : sizeof(name_txt) - 1;
		memcpy(name_txt, data, n);
		name_txt[n] = 0;
		name_txt_len = (int)n;
		n_txt_seen++;
	}
	return __real_dns_encode(buf, buflen, q, qr, data, datalen);
}

/* what the name builder was given and what it reported */
static unsigned char bh_data[4200];
static int bh_calls, bh_datalen, bh_ret;
static unsigned long long n_bh_seen;
int __real_build_hostname(char *, size_t, const char *, const size_t, const char *, const struct encoder *, int);
int __wrap_build_hostname(char *buf, size_t buflen, const char *data, const size_t datalen, const char *td,
			  const struct encoder *enc, int maxlen)
{
	int r = __real_build_hostname(buf, buflen, data, datalen, td, enc, maxlen);
	if (in_cli) {
		size_t n = datalen < sizeof(bh_data) ? datalen : sizeof(bh_data);
		memcpy(bh_data, data, n);
		bh_datalen = (int)datalen;
		bh_ret = r;
		bh_calls++;
		n_bh_seen++;
	}
	return r;
}

/* what the server's extraction produced */
static unsigned char up_data[4200];
static int up_calls, up_ret;
static unsigned long long n_up_seen;
int __real_unpack_data(char *, size_t, char *, size_t, const struct encoder *);
int __wrap_unpack_data(char *buf, size_t buflen, char *data, size_t datalen, const struct encoder *enc)
{
	int r = __real_unpack_data(buf, buflen, data, datalen, enc);
	if (in_srv) {
		int n = r < 0 ? 0 : (r > (int)sizeof(up_data) ? (int)sizeof(up_data) : r);
		memcpy(up_data, buf, n);
		up_ret = r;
		up_calls++;
		n_up_seen++;
	}
	return r;
}

/* ------------------------------------------------------------------------------------------
 * case context, witnesses
 * ---------------------------------------------------------------------------------------- */
static struct {
	unsigned long long seed;
	int L, dlen, codec, edns, uid, srvmode;
	const char *kind;
	int paylen, off, sentlen, chunk;
	const char *style;
} cx;

static char cli_domain[140], srv_domain[140];
static int dom_nlab, dom_lablen[70];
static const char *dom_lab[70];
static const char *SRVMODE[3] = { "exact", "wildcard", "casefold" };

static unsigned long long evals, n_chunks, n_cases, n_triples, n_login_prefix_only, n_violating;
static unsigned char seen_cls[4][8][8][16];
static unsigned char seen_kind[6], seen_srvmode[3][2];
static const char *KIND_NAME[6] = { "version", "login", "ping", "probe", "setfrag", "login carried as a prefix only (server sees exactly the reported bytes)" };
static int samples_left = 1;
static unsigned long long sample_at;   /* configuration count from which the sample line is taken */
static int triple_failed;              /* after a violation the two ends may be out of step: the rest of the
                                          configuration is skipped so that no consequential reports appear */
static int last_dotted;                /* dotted length of the last question name that passed */

static void esc(char *dst, size_t dstlen, const unsigned char *s, int n)
{
	size_t o = 0;
	int i;
	for (i = 0; i < n && o + 6 < dstlen; i++) {
		if (s[i] >= 0x21 && s[i] < 0x7f && s[i] != '\\')
			dst[o++] = (char)s[i];
		else
			o += snprintf(dst + o, dstlen - o, "\\x%02x", s[i]);
	}
	dst[o] = 0;
}

static void viol(const char *key, const char *fmt, ...)
{
	char what[400], nm[2400], wire[1400];
	va_list ap;
	va_start(ap, fmt);
	vsnprintf(what, sizeof(what), fmt, ap);
	va_end(ap);
	n_violating++;
	triple_failed = 1;
	if (name_txt_len >= 0) esc(nm, sizeof(nm), (unsigned char *)name_txt, name_txt_len > 560 ? 560 : name_txt_len);
	else strcpy(nm, "(not captured)");
	if (cli_len > 0) drv_hex(wire, sizeof(wire), cli_dgram, cli_len > 600 ? 600 : cli_len);
	else strcpy(wire, "(none)");
	DRV_VIOL(key, "%s %s: %s\tL=%d domlen=%d codec=%d(%s) seed=%llu edns0=%d uid=%d srvdom=%s kind=%s paylen=%d off=%d chunk=%d sentlen=%d style=%s domain=%s served=%s name[%d]=%s datagram[%d]=%s",
		 cx.kind, CODEC_NAME[cx.codec], what,
		 cx.L, cx.dlen, cx.codec, CODEC_NAME[cx.codec], cx.seed, cx.edns, cx.uid, SRVMODE[cx.srvmode], cx.kind,
		 cx.paylen, cx.off, cx.chunk, cx.sentlen, cx.style, cli_domain, srv_domain, name_txt_len, nm, cli_len, wire);
}

static uint64_t mix(uint64_t a, uint64_t b, uint64_t c, uint64_t d)
{
	uint64_t x = a * 0x9E3779B97F4A7C15ULL + b;
	x ^= x >> 30; x *= 0xBF58476D1CE4E5B9ULL;
	x += c * 0x94D049BB133111EBULL;
	x ^= x >> 27; x *= 0x94D049BB133111EBULL;
	x += d * 0xD6E8FEB86659FD93ULL;
	x ^= x >> 31; x *= 0x9E3779B97F4A7C15ULL;
	x ^= x >> 29;
	return x;
}

/* ------------------------------------------------------------------------------------------
 * tunnel domains: exactly d characters, >= 2 labels of 1..63 letters/digits/'-'
 * ---------------------------------------------------------------------------------------- */
static void gen_domain(char *out, int d, uint64_t h)
{
	static const char an[] = "abcdefghijklmnopqrstuvwxyz0123456789";
	int style, remaining = d, first = 1, pos = 0, i;

	drv_seed(h);
	style = (int)drv_below(6);
	while (remaining > 0) {
		int maxs = remaining < 63 ? remaining : 63;
		int s;
		switch (style) {
		case 0: s = 63; break;                                   /* as many full labels as fit */
		case 1: s = 1; break;                                    /* one-character labels */
		case 2: s = 1 + (int)drv_below(63); break;
		case 3: s = first ? 1 : 1 + (int)drv_below(63); break;  /* "x.<rest>" */
		case 4: s = first ? 63 : 1 + (int)drv_below(8); break;
		default: s = drv_below(3) == 0 ? 63 : (drv_below(2) ? 1 : 1 + (int)drv_below(20)); break;
		}
		if (s > maxs) s = maxs;
		if (first && s > remaining - 2) s = remaining - 2;       /* room for ".x" */
		if (s == remaining - 1) { if (s > 1) s--; else s = remaining; }
		for (i = 0; i < s; i++) {
			char c;
			if (i > 0 && i < s - 1 && drv_below(9) == 0) c = '-';
			else {
				c = an[drv_below(36)];
				if (c >= 'a' && c <= 'z' && drv_below(4) == 0) c = (char)(c - 32);
			}
			out[pos++] = c;
		}
		remaining -= s;
		if (remaining > 0) { out[pos++] = '.'; remaining--; }
		first = 0;
	}
	out[pos] = 0;
}

static void split_domain(void)
{
	const char *p = cli_domain;
	dom_nlab = 0;
	while (*p) {
		const char *e = strchr(p, '.');
		int n = e ? (int)(e - p) : (int)strlen(p);
		dom_lab[dom_nlab] = p;
		dom_lablen[dom_nlab] = n;
		dom_nlab++;
		p += n;
		if (*p == '.') p++;
	}
}

/* ------------------------------------------------------------------------------------------
 * the strict name check
 * ---------------------------------------------------------------------------------------- */
static int check_name(void)
{
	const unsigned char *p = cli_dgram;
	int len = cli_len, L = cx.L;
	int bad = 0, pos, nlab = 0, laboff[140], lablen[140], dotted = 0, wire, i, j;
	char rebuilt[300];

	evals++;
	if (cli_len < 0) { viol("C08:nothing-sent", "the builder produced no datagram"); return 1; }

	/* (1) the name text handed to the DNS encoder */
	if (name_txt_len >= 0) {
		int n = name_txt_len, start = 0, dl = (int)strlen(cli_domain);
		int rep_empty = 0, rep_long = 0;
		if (n > L) { viol("C08:name-over-L", "built name has %d characters, limit is %d", n, L); bad++; }
		if (n + 2 > 255) { viol("C08:name-over-255", "built name needs %d bytes on the wire", n + 2); bad++; }
		for (i = 0; i <= n; i++) {
			if (i == n || name_txt[i] == '.') {
				int ll = i - start;
				if (ll == 0 && !rep_empty) { viol("C08:empty-label", "built name has an empty label at character %d", start); rep_empty = 1; bad++; }
				if (ll > 63 && !rep_long) { viol("C08:label-too-long", "built name has a %d-character label at character %d", ll, start); rep_long = 1; bad++; }
				start = i + 1;
			}
		}
		if (!(n > dl + 1 && name_txt[n - dl - 1] == '.' && memcmp(name_txt + n - dl, cli_domain, dl) == 0)) {
			viol("C08:domain-suffix", "built name does not end in .%s after a non-empty data part", cli_domain); bad++;
		}
		if (bad) return bad;
	}

	/* (2) the datagram */
	if (len < 12 + 2 + 4) { viol("C08:malformed-query", "datagram of %d bytes is too short for a question", len); return 1; }
	if (p[0] == 0 && p[1] == 0) { viol("C08:malformed-query", "DNS id is 0 (the server drops such data and ping queries)"); return 1; }
	if ((p[2] & 0x80) || (p[2] & 0x78)) { viol("C08:malformed-query", "header flags %02x%02x are not a standard query", p[2], p[3]); return 1; }
	if (p[4] != 0 || p[5] != 1 || p[6] || p[7] || p[8] || p[9] || p[10] != 0 || p[11] != (cx.edns ? 1 : 0)) {
		viol("C08:malformed-query", "section counts qd=%d an=%d ns=%d ar=%d (expected 1/0/0/%d)", (p[4] << 8) | p[5],
		     (p[6] << 8) | p[7], (p[8] << 8) | p[9], (p[10] << 8) | p[11], cx.edns ? 1 : 0);
		return 1;
	}
	pos = 12;
	for (;;) {
		int c;
		if (pos >= len) { viol("C08:malformed-query", "question name runs past the datagram"); return 1; }
		c = p[pos];
		if (c == 0) break;
		if (c >= 0xC0) { viol("C08:malformed-query", "compression pointer in a query name at offset %d", pos); return 1; }
		if (c > 63) { viol("C08:label-too-long", "label length byte %d at offset %d", c, pos); return 1; }
		if (pos + 1 + c > len) { viol("C08:malformed-query", "label at offset %d runs past the datagram", pos); return 1; }
		if (nlab >= 130) { viol("C08:name-over-255", "more than 130 labels"); return 1; }
		laboff[nlab] = pos + 1;
		lablen[nlab] = c;
		nlab++;
		dotted += c + (nlab > 1 ? 1 : 0);
		pos += 1 + c;
	}
	wire = pos + 1 - 12;
	pos++;
	if (wire > 255) { viol("C08:name-over-255", "question name takes %d bytes on the wire", wire); bad++; }
	if (dotted > L) { viol("C08:name-over-L", "question name has %d characters, limit is %d", dotted, L); bad++; }
	if (nlab <= dom_nlab) {
		viol("C08:domain-suffix", "question name has %d labels, the domain alone has %d", nlab, dom_nlab); return bad + 1;
	}
	for (i = 0; i < dom_nlab; i++) {
		j = nlab - dom_nlab + i;
		if (lablen[j] != dom_lablen[i] || memcmp(p + laboff[j], dom_lab[i], dom_lablen[i]) != 0) {
			viol("C08:domain-suffix", "label %d from the end differs from the tunnel domain's", dom_nlab - i); return bad + 1;
		}
	}
	if (bad) return bad;
	if (pos + 4 > len || ((p[pos] << 8) | p[pos + 1]) != QT_NULL || ((p[pos + 2] << 8) | p[pos + 3]) != 1) {
		viol("C08:malformed-query", "question type/class is not NULL/IN or is cut off"); return 1;
	}
	pos += 4;
	if (cx.edns) {
		static const unsigned char opt[11] = { 0x00, 0x00, 0x29, 0x10, 0x00, 0x00, 0x00, 0x80, 0x00, 0x00, 0x00 };
		if (pos + 11 > len || memcmp(p + pos, opt, 11) != 0) { viol("C08:malformed-query", "EDNS0 OPT record missing or different"); return 1; }
		pos += 11;
	}
	if (pos != len) { viol("C08:malformed-query", "%d stray bytes after the query", len - pos); return 1; }
	last_dotted = dotted;

	/* (3) the wire labels spell the built name */
	if (name_txt_len >= 0) {
		int o = 0;
		for (i = 0; i < nlab; i++) {
			if (i) rebuilt[o++] = '.';
			memcpy(rebuilt + o, p + laboff[i], lablen[i]);
			o += lablen[i];
		}
		if (o != name_txt_len || memcmp(rebuilt, name_txt, o) != 0) {
			viol("C08:malformed-query", "the labels on the wire do not spell the built name"); return 1;
		}
	}
	return 0;
}

/* ------------------------------------------------------------------------------------------
 * client / server steps
 * ---------------------------------------------------------------------------------------- */
static void cli_begin(const char *kind)
{
	cx.kind = kind;
	cli_len = -1;
	name_txt_len = -1;
	bh_calls = 0; bh_ret = -1; bh_datalen = 0;
	in_cli = 1;
}
static void cli_end(void) { in_cli = 0; }

/* A resolver on the way may change the letter case of the query name (upper-casing forwarders, 0x20 randomisation); the
   client stays on Base32 for exactly that situation, and the server reads command letter, user id digit, header
   characters and Base32 data case-insensitively.  Chosen per triple for Base32 sessions. */
static int relay_case;		/* 0 keep, 1 upper, 2 random */
static unsigned long long n_case_changed;

static void srv_feed(void)
{
	srv_nans = 0;
	up_calls = 0; up_ret = -1;
	if (relay_case && cli_len > 12) {
		int pos = 12, i;
		while (pos < cli_len && cli_dgram[pos]) {
			int l = cli_dgram[pos];
			if (l & 0xC0) break;
			for (i = 1; i <= l && pos + i < cli_len; i++) {
				unsigned char ch = cli_dgram[pos + i];
				if (((ch | 0x20) >= 'a') && ((ch | 0x20) <= 'z') && (relay_case == 1 || (drv_rand() >> 16 & 1)))
					cli_dgram[pos + i] = (relay_case == 1) ? (ch & 0xDF) : (ch ^ 0x20);
			}
			pos += l + 1;
		}
		n_case_changed++;
	}
	feed_buf = cli_dgram;
	feed_len = cli_len;
	in_srv = 1;
	drv_srv_feed();
	in_srv = 0;
	feed_len = 0;
}

/* independent walk over an answer; returns 1 and the first answer's RDATA */
static int parse_answer(const unsigned char *p, int len, unsigned *id, const unsigned char **rd, int *rdlen)
{
	int pos = 12, c;
	if (len < 12) return 0;
	*id = (p[0] << 8) | p[1];
	if (!(p[2] & 0x80)) return 0;
	if (((p[4] << 8) | p[5]) != 1 || ((p[6] << 8) | p[7]) < 1) return 0;
	for (;;) {                                   /* question name */
		if (pos >= len) return 0;
		c = p[pos];
		if (c == 0) { pos++; break; }
		if (c >= 0xC0) { pos += 2; break; }
		pos += 1 + c;
	}
	pos += 4;
	for (;;) {                                   /* owner name of the answer */
		if (pos >= len) return 0;
		c = p[pos];
		if (c == 0) { pos++; break; }
		if (c >= 0xC0) { pos += 2; break; }
		pos += 1 + c;
	}
	pos += 8;
	if (pos + 2 > len) return 0;
	*rdlen = (p[pos] << 8) | p[pos + 1];
	pos += 2;
	if (pos + *rdlen > len) return 0;
	*rd = p + pos;
	return 1;
}

static int find_answer(unsigned want_id, const unsigned char **rd, int *rdlen)
{
	int i;
	unsigned id;
	for (i = 0; i < srv_nans && i < MAXANS; i++)
		if (parse_answer(srv_ans[i], srv_ans_len[i], &id, rd, rdlen) && id == want_id)
			return 1;
	return 0;
}

/* For the message kinds built by send_packet(): the reported prefix length and the server's
 * extraction.  Returns the number of payload bytes the name carries (or -1 if not observable). */
static int check_reported_prefix(void)
{
	if (bh_calls != 1) return -1;
	cx.paylen = bh_datalen;
	cx.sentlen = bh_ret;
	if (bh_ret < 1 || bh_ret > bh_datalen) {
		viol("C08:sentlen-range", "builder reports %d bytes carried of a %d-byte message", bh_ret, bh_datalen);
		return -2;
	}
	if (up_calls >= 1) {
		if (up_ret != bh_ret) {
			viol("C08:server-extraction-mismatch", "builder reports %d bytes carried, server extracted %d", bh_ret, up_ret);
			return -2;
		}
		if (memcmp(up_data, bh_data, bh_ret) != 0) {
			viol("C08:server-extraction-mismatch", "server extracted %d bytes that differ from the message prefix", up_ret);
			return -2;
		}
	}
	return bh_ret;
}

static void reset_cx_payload(void) { cx.paylen = 0; cx.off = 0; cx.sentlen = 0; cx.chunk = 0; cx.style = "-"; }

/* returns 1 and the login seed on success */
static int do_version(int *seed)
{
	const unsigned char *rd; int rdlen, r;
	reset_cx_payload();
	cli_begin("version"); drv_cli_send_version(); cli_end();
	if (check_name()) return 0;
	srv_feed();
	r = check_reported_prefix();
	if (r == -2) return 0;
	if (!find_answer(drv_cli_last_id(), &rd, &rdlen) || rdlen < 9 || memcmp(rd, "VACK", 4) != 0) {
		viol("C08:version-not-understood", "no VACK answer to the version message (%d answers)", srv_nans);
		return 0;
	}
	*seed = (int)(((unsigned)rd[4] << 24) | (rd[5] << 16) | (rd[6] << 8) | rd[7]);
	if (rd[8] >= 16 || !users[rd[8]].active || users[rd[8]].seed != *seed) {
		viol("C08:version-not-understood", "VACK names slot %d seed %d, which is not what the server holds", rd[8], *seed);
		return 0;
	}
	cx.uid = rd[8];                      /* like the real client: the slot is whatever the server says */
	drv_cli_set_user(rd[8]);
	seen_kind[0] = 1;
	return 1;
}

static int do_login(int seed)
{
	const unsigned char *rd; int rdlen, r;
	char txt[80], want_tail[40];
	reset_cx_payload();
	cli_begin("login"); drv_cli_send_login(seed); cli_end();
	if (check_name()) return 0;
	srv_feed();
	r = check_reported_prefix();
	if (r == -2) return 0;
	if (r >= 0 && r < 18) {
		/* The 19-byte message does not fit this name (the property only promises a non-empty,
		 * correctly reported prefix); the server saw exactly those bytes and cannot accept them.
		 * The session is opened administratively so that the data checks still run. */
		if (up_calls < 1) { viol("C08:login-not-understood", "server did not extract anything from the login name"); return 0; }
		n_login_prefix_only++;
		seen_kind[5] = 1;
		drv_srv_force_auth(cx.uid);
		return 1;
	}
	if (!find_answer(drv_cli_last_id(), &rd, &rdlen)) {
		viol("C08:login-not-understood", "no answer to the login message"); return 0;
	}
	snprintf(want_tail, sizeof(want_tail), "-1130-24");
	memset(txt, 0, sizeof(txt));
	memcpy(txt, rd, rdlen < 79 ? rdlen : 79);
	if (rdlen < 20 || strncmp(txt, "10.9.0.1-10.9.0.", 16) != 0 || strcmp(txt + strlen(txt) - strlen(want_tail), want_tail) != 0 ||
	    !users[cx.uid].authenticated) {
		char e[200];
		esc(e, sizeof(e), rd, rdlen > 40 ? 40 : rdlen);
		viol("C08:login-not-understood", "login answer is '%s' (authenticated=%d)", e, users[cx.uid].authenticated);
		return 0;
	}
	seen_kind[1] = 1;
	return 1;
}

static void do_ping(void)
{
	const unsigned char *rd; int rdlen, r;
	reset_cx_payload();
	cli_begin("ping"); drv_cli_send_ping(); cli_end();
	if (check_name()) return;
	srv_feed();
	r = check_reported_prefix();
	if (r == -2) return;
	if (!find_answer(drv_cli_last_id(), &rd, &rdlen) || rdlen != 2) {
		viol("C08:ping-not-understood", "no 2-byte data-header answer carrying the ping's id (%d answers)", srv_nans);
		return;
	}
	seen_kind[2] = 1;
}

static void do_probe(int size)
{
	const unsigned char *rd; int rdlen;
	reset_cx_payload();
	cli_begin("probe"); drv_cli_send_probe(size); cli_end();
	if (check_name()) return;
	cx.paylen = bh_datalen; cx.sentlen = bh_ret;
	if (bh_calls == 1 && (bh_ret < 1 || bh_ret > bh_datalen)) {
		viol("C08:sentlen-range", "builder reports %d filler bytes carried of %d", bh_ret, bh_datalen);
		return;
	}
	srv_feed();
	if (!find_answer(drv_cli_last_id(), &rd, &rdlen) || rdlen != size || rd[0] != (size >> 8) || rd[1] != (size & 255)) {
		viol("C08:probe-not-understood", "probe for %d bytes: answer has %d bytes", size, srv_nans ? rdlen : -1);
		return;
	}
	seen_kind[3] = 1;
}

static void do_setfrag(int size)
{
	const unsigned char *rd; int rdlen, r;
	reset_cx_payload();
	cli_begin("setfrag"); drv_cli_send_setfrag(size); cli_end();
	if (check_name()) return;
	srv_feed();
	r = check_reported_prefix();
	if (r == -2) return;
	if (users[cx.uid].fragsize != size || !find_answer(drv_cli_last_id(), &rd, &rdlen) || rdlen != 2 ||
	    rd[0] != (size >> 8) || rd[1] != (size & 255)) {
		viol("C08:setfrag-not-understood", "asked for fragment size %d, server holds %d", size, users[cx.uid].fragsize);
		return;
	}
	seen_kind[4] = 1;
}

/* One payload sent as a sequence of chunks.  Returns bytes carried by the first chunk (0 on violation). */
static int do_payload(const unsigned char *pay, int plen, const char *style)
{
	struct tun_user *u = &users[cx.uid];
	int k, first_sent = 0, first_name = 0, ok = 1;

	cx.paylen = plen; cx.style = style;
	drv_cli_set_downpos((int)drv_below(8), (int)drv_below(16));
	drv_cli_new_packet(pay, plen);
	n_cases++;
	for (k = 0; k < 15; k++) {
		int off = drv_cli_offset(), remaining = plen - off, sent, last, i, n_app, delta, changed, guard_ok;
		unsigned char *sd = (unsigned char *)u->inpacket.data;

		cx.off = off; cx.chunk = k; cx.sentlen = -1;
		/* mark the part of the server's reassembly buffer this chunk is going to land in */
		for (i = 0; i < remaining; i++) sd[off + i] = (unsigned char)~pay[off + i];
		for (i = 0; i < 8; i++) sd[off + remaining + i] = 0xA5;

		cli_begin("data"); drv_cli_send_chunk(); cli_end();
		sent = drv_cli_sentlen();
		cx.sentlen = sent;
		n_chunks++;
		if (check_name()) { ok = 0; break; }
		if (sent < 1 || sent > remaining) {
			viol("C08:sentlen-range", "builder reports %d bytes carried with %d remaining", sent, remaining);
			ok = 0; break;
		}
		last = (sent == remaining);
		srv_feed();

		delta = u->inpacket.offset - off;
		changed = 0;
		while (changed < remaining && sd[off + changed] != (unsigned char)~pay[off + changed]) changed++;
		guard_ok = last ? (sd[off + sent] == 0xA5) : 1;
		if (up_calls == 0 && changed == 0 && (last ? 1 : delta == 0)) {
			viol("C08:server-rejected", "server appended nothing for this data name (answers sent: %d)", srv_nans);
			ok = 0; break;
		}
		n_app = up_calls ? up_ret : (last ? changed : delta);
		if (n_app != sent || !guard_ok || (!last && delta != sent) || (last && (u->inpacket.offset != 0 || u->inpacket.len != 0))) {
			viol("C08:server-extraction-mismatch", "builder reports %d bytes, server extracted %d (reassembly offset %d -> %d, last=%d)",
			     sent, n_app, off, u->inpacket.offset, last);
			ok = 0; break;
		}
		if (memcmp(sd + off, pay + off, sent) != 0) {
			for (i = 0; i < sent && sd[off + i] == pay[off + i]; i++) ;
			viol("C08:server-extraction-mismatch", "server's bytes differ from payload[%d..%d) first at +%d (got %02x want %02x)",
			     off, off + sent, i, sd[off + i], pay[off + i]);
			ok = 0; break;
		}
		if (k == 0) { first_sent = sent; first_name = last_dotted; }
		if (last) { k++; break; }
		if (drv_below(4) == 0) {
			/* The answer is slow: the client's timeout fires and it transmits the same chunk again, but this
			   time sendto() fails.  Then the (late) acknowledgement of the first transmission arrives.  What the
			   client accounts for must still be what the server has: the next chunk continues at off + sent. */
			unsigned long long before = cli_send_failed;
			cli_send_fail = 1;
			cli_begin("data"); drv_cli_send_chunk(); cli_end();
			cli_send_fail = 0;
			if (cli_send_failed != before) n_failed_retransmissions++;
		}
		drv_cli_ack_advance();
	}
	drv_cli_packet_done();
	if (!ok) return 0;
	if (k > 15) k = 15;
	seen_cls[cx.codec][cx.L & 7][cx.dlen & 7][k] = 1;
	if (samples_left > 0 && plen == 200 && n_triples >= sample_at && style[0] == 'r') {
		samples_left--;
		DRV_S("L=%d domlen=%d codec=%s edns0=%d srvdom=%s uid=%d: 200-byte %s payload went up in %d chunks, first name %d chars carrying %d bytes",
		      cx.L, cx.dlen, CODEC_NAME[cx.codec], cx.edns, SRVMODE[cx.srvmode], cx.uid, style, k, first_name, first_sent);
	}
	return first_sent;
}

static void run_triple(unsigned long long seed, int L, int d, int codec)
{
	static unsigned char pay[2048 + 16];
	uint64_t h = mix(seed, L, d, 77);
	int lens[16], nl = 0, i, j, s, cap, seed_login = 0, br = CODEC_BLOCKRAW[codec];
	char tmp[140];

	/* domain pair: depends on (seed, L, d) only, so all four codecs meet the same domain */
	gen_domain(cli_domain, d, h);
	cx.srvmode = (int)((h >> 40) % 6);
	cx.srvmode = cx.srvmode < 2 ? 1 : (cx.srvmode == 2 ? 2 : 0);
	if (cx.srvmode == 1) {
		snprintf(srv_domain, sizeof(srv_domain), "*%s", strchr(cli_domain, '.'));
	} else if (cx.srvmode == 2) {
		for (i = 0; cli_domain[i]; i++) {
			char c = cli_domain[i];
			if (c >= 'a' && c <= 'z') c = (char)(c - 32); else if (c >= 'A' && c <= 'Z') c = (char)(c + 32);
			srv_domain[i] = c;
		}
		srv_domain[i] = 0;
	} else {
		strcpy(srv_domain, cli_domain);
	}
	strcpy(tmp, cli_domain);
	if ((int)strlen(cli_domain) != d || !drv_srv_domain_ok(tmp, srv_domain)) {
		fprintf(stderr, "upname: generated an invalid domain pair '%s' / '%s' for d=%d\n", cli_domain, srv_domain, d);
		exit(3);
	}
	split_domain();

	drv_seed(mix(seed, L, d, codec));
	srand((unsigned)mix(seed, L, d, 1000 + codec));   /* the tree's rand(): client CMC/ids, server login seed */
	cx.seed = seed; cx.L = L; cx.dlen = d; cx.codec = codec;
	cx.edns = (int)drv_below(2);
	cx.uid = (int)drv_below(16);
	n_triples++;
	triple_failed = 0;

	relay_case = (codec == 0) ? (int)drv_below(4) % 3 : 0;		/* Base32 sessions: keep (2 in 4), upper, random */
	if (relay_case == 0 && codec == 0 && drv_below(2)) relay_case = 0;
	drv_srv_config(srv_domain, cx.uid);
	drv_cli_start(cli_domain, L, codec, cx.edns, PASSWORD);
	if (drv_cli_get_maxlen() != L) { fprintf(stderr, "upname: client refused hostname limit %d\n", L); exit(3); }

	if (!do_version(&seed_login)) return;
	if (!do_login(seed_login)) return;
	/* like the real client, which sends 'S' only when it found something better than the protocol default:
	   a Base32 session relies on the slot starting out as Base32, whatever its previous owner negotiated */
	if (codec != 0)
		drv_srv_switch_codec(cx.uid, codec);
	do_ping();
	if (triple_failed) return;
	do_probe(2 + (int)drv_below(2046));
	if (triple_failed) return;

	/* capacity of one name = what the first chunk of a long payload carries */
	for (i = 0; i < 2048; i++) pay[i] = (unsigned char)(drv_rand() >> 24);
	cap = do_payload(pay, 2048, "random");
	if (triple_failed) return;
	memset(pay, 0x00, 2048); do_payload(pay, 2048, "zeros");
	if (triple_failed) return;
	memset(pay, 0xFF, 2048); do_payload(pay, 2048, "ones");
	if (triple_failed) return;

	lens[nl++] = 1; lens[nl++] = 2; lens[nl++] = 3;
	lens[nl++] = br - 1; lens[nl++] = br; lens[nl++] = br + 1;
	if (cap > 0) { lens[nl++] = cap - 1; lens[nl++] = cap; lens[nl++] = cap + 1; }
	lens[nl++] = 200;
	for (i = 0; i < nl; i++) {
		int dup = 0;
		if (lens[i] < 1 || lens[i] > 2047) continue;
		for (j = 0; j < i; j++) if (lens[j] == lens[i]) dup = 1;
		if (dup) continue;
		for (s = 0; s < 3; s++) {
			if (s == 0) memset(pay, 0x00, lens[i]);
			else if (s == 1) memset(pay, 0xFF, lens[i]);
			else for (j = 0; j < lens[i]; j++) pay[j] = (unsigned char)(drv_rand() >> 24);
			do_payload(pay, lens[i], s == 0 ? "zeros" : s == 1 ? "ones" : "random");
			if (triple_failed) return;
		}
	}
	do_setfrag(2 + (int)drv_below(2046));
	seen_srvmode[cx.srvmode][cx.edns] = 1;
}

static int quick_pick(unsigned long long seed, int L, int d)
{
	static const int fixed[] = { 3, 4, 5, 10, 57, 58, 63, 64, 65, 100, 127, 128 };
	unsigned i;
	for (i = 0; i < sizeof(fixed) / sizeof(fixed[0]); i++) if (d == fixed[i]) return 1;
	if (d == L - 24 || d == L - 25) return 1;
	return mix(seed, L, d, 4242) % 3 == 0;
}

int main(int argc, char **argv)
{
	int L, d, c, a, b, k;
	unsigned long long seed, pairs_all = 0, pairs_run = 0;

	setvbuf(stdout, NULL, _IOFBF, 1 << 16);
	if (argc >= 6 && !strcmp(argv[1], "one")) {
		L = atoi(argv[2]); d = atoi(argv[3]); c = atoi(argv[4]) & 3;
		seed = strtoull(argv[5], NULL, 10);
		if (L < 100 || L > 255 || d < 3 || d > 128 || d > L - 24) { fprintf(stderr, "upname: configuration outside the property's domain\n"); return 3; }
		srand((unsigned)seed);
		drv_srv_boot(PASSWORD);
		run_triple(seed, L, d, c);
	} else if (argc >= 6 && !strcmp(argv[1], "run")) {
		int shard = atoi(argv[2]), nshards = atoi(argv[3]);
		int thorough = !strcmp(argv[5], "thorough");
		unsigned long long idx = 0;
		seed = strtoull(argv[4], NULL, 10);
		srand((unsigned)(seed * 31 + shard));
		sample_at = 220ULL * (shard + 1) + (shard & 3);
		drv_srv_boot(PASSWORD);
		for (L = 100; L <= 255; L++) {
			int dmax = L - 24 < 128 ? L - 24 : 128;
			for (d = 3; d <= dmax; d++) {
				pairs_all++;
				if (!thorough && !quick_pick(seed, L, d)) continue;
				if ((int)(idx++ % (unsigned)nshards) != shard) continue;
				pairs_run++;
				for (c = 0; c < 4; c++) run_triple(seed, L, d, c);
				if (drv_viol_count > 200) goto out;
			}
		}
	} else {
		fprintf(stderr, "usage: upname run <shard> <nshards> <seed> <quick|thorough> | upname one <L> <domlen> <codec> <seed>\n");
		return 3;
	}
out:
	DRV_E(evals);
	for (c = 0; c < 4; c++) for (a = 0; a < 8; a++) for (b = 0; b < 8; b++) for (k = 1; k < 16; k++)
		if (seen_cls[c][a][b][k]) DRV_N("codec=%s L%%8=%d domlen%%8=%d chunks=%d", CODEC_NAME[c], a, b, k);
	for (k = 0; k < 6; k++) if (seen_kind[k]) DRV_N("kind=%s ok", KIND_NAME[k]);
	for (a = 0; a < 3; a++) for (b = 0; b < 2; b++)
		if (seen_srvmode[a][b]) DRV_N("served domain=%s edns0=%d: whole session ok", SRVMODE[a], b);
	DRV_X("triples", n_triples);
	DRV_X("domain_pairs_run", pairs_run);
	DRV_X("payload_cases", n_cases);
	DRV_X("data_chunks", n_chunks);
	DRV_X("names_with_case_changed_by_relay", n_case_changed);
	DRV_X("failed_retransmissions_before_late_ack", n_failed_retransmissions);
	DRV_X("login_prefix_only", n_login_prefix_only);
	DRV_X("built_name_text_seen", n_txt_seen);
	DRV_X("builder_reports_seen", n_bh_seen);
	DRV_X("server_extractions_seen", n_up_seen);
	DRV_X("tun_writes", tun_writes);
	(void)pairs_all;
	fflush(stdout);
	return 0;
}
