/* C07: codecs are lossless, alphabet-pure, capacity-exact.
 * Links the tree's base32.o base64.o base64u.o base128.o and drives base*_ops through
 * exact-size heap buffers (ASan = guard bytes).
 *
 * usage: codec <mode> <shard> <nshards> <seed> <maxlen>
 *   mode small   : every input of length 0,1,2 x every capacity 0..needed+2 (exhaustive)
 *   mode pairs   : every adjacent byte pair at every block position, random surroundings
 *   mode lengths : every length 0..maxlen, random/structured contents, capacity sweep
 */
#include "drv.h"
#include "encoding.h"

struct cdc {
	const char *name;
	const struct encoder *ops;
	int bits;
	unsigned char member[256];
};

static struct cdc C[4];

static void set_range(unsigned char *m, int lo, int hi) { int i; for (i = lo; i <= hi; i++) m[i] = 1; }

static void init_codecs(void)
{
	/* alphabets from doc/proto_00000502.txt (membership only; order is not part of C07) */
	C[0].name = "b32";  C[0].ops = &base32_ops;  C[0].bits = 5;
	set_range(C[0].member, 'a', 'z'); set_range(C[0].member, '0', '5');
	C[1].name = "b64";  C[1].ops = &base64_ops;  C[1].bits = 6;
	set_range(C[1].member, 'a', 'z'); set_range(C[1].member, 'A', 'Z'); set_range(C[1].member, '0', '9');
	C[1].member['-'] = 1; C[1].member['+'] = 1;
	C[2].name = "b64u"; C[2].ops = &base64u_ops; C[2].bits = 6;
	set_range(C[2].member, 'a', 'z'); set_range(C[2].member, 'A', 'Z'); set_range(C[2].member, '0', '9');
	C[2].member['-'] = 1; C[2].member['_'] = 1;
	C[3].name = "b128"; C[3].ops = &base128_ops; C[3].bits = 7;
	set_range(C[3].member, 'a', 'z'); set_range(C[3].member, 'A', 'Z'); set_range(C[3].member, '0', '9');
	set_range(C[3].member, 0xBC, 0xFD);
}

static size_t enc_len(int bits, size_t n) { return (8 * n + bits - 1) / bits; }

static unsigned long long evals, surplus_chars;
static unsigned char seen_class[4][8][8][2];

static void fail(const struct cdc *c, const char *kind, const unsigned char *x, size_t n, size_t cap, const char *detail)
{
	char hx[200], key[96];
	drv_hex(hx, sizeof(hx), x, n > 64 ? 64 : n);
	snprintf(key, sizeof(key), "C07:%s:%s", c->name, kind);
	DRV_VIOL(key, "%s %s: len=%zu cap=%zu %s\tinput=%s", c->name, kind, n, cap, detail, hx);
}

/* One full check of input x[0..n) at output capacity cap. Returns 0 on success. */
static int check_one(const struct cdc *c, const unsigned char *x, size_t n, size_t cap)
{
	size_t need = enc_len(c->bits, n);
	/* input buffer of exactly n bytes: reads past it trap */
	unsigned char *in = malloc(n ? n : 1);
	char *out = malloc(cap + 1);       /* capacity + terminator, nothing more */
	size_t consumed = cap;
	int ret, i;
	char detail[160];
	int bad = 0;

	memcpy(in, x, n);
	memset(out, 0x5A, cap + 1);
	ret = c->ops->encode(out, &consumed, in, n);
	evals++;

	if (ret < 0 || (size_t)ret > cap) {
		snprintf(detail, sizeof(detail), "returned length %d exceeds capacity", ret);
		fail(c, "overlong", x, n, cap, detail); bad = 1; goto done;
	}
	if (out[ret] != 0) {
		fail(c, "unterminated", x, n, cap, "no NUL at out[ret]"); bad = 1; goto done;
	}
	for (i = 0; i < ret; i++) {
		if (!c->member[(unsigned char)out[i]]) {
			snprintf(detail, sizeof(detail), "char 0x%02x at %d not in alphabet", (unsigned char)out[i], i);
			fail(c, "alphabet", x, n, cap, detail); bad = 1; goto done;
		}
	}
	if (consumed > n) {
		snprintf(detail, sizeof(detail), "consumed %zu > input length", consumed);
		fail(c, "consumed", x, n, cap, detail); bad = 1; goto done;
	}
	if (cap >= need) {
		if (consumed != n || (size_t)ret != need) {
			snprintf(detail, sizeof(detail), "capacity sufficient but consumed=%zu ret=%d (need %zu)", consumed, ret, need);
			fail(c, "ratio", x, n, cap, detail); bad = 1; goto done;
		}
	} else {
		/* progress: if the capacity can hold one byte, at least one byte must be taken */
		if (n > 0 && cap >= enc_len(c->bits, 1) && consumed == 0) {
			fail(c, "noprogress", x, n, cap, "capacity allows a byte but consumed==0"); bad = 1; goto done;
		}
		/* the emitted text must not be longer than the consumed bytes need */
		/* statistic only: the property does not forbid a useless trailing char */
		if ((size_t)ret > enc_len(c->bits, consumed))
			surplus_chars++;
	}
	/* decode what was emitted: must be exactly x[0..consumed) */
	{
		size_t dcap = consumed + 8;
		unsigned char *dec = malloc(dcap + 1);
		char *txt = malloc(ret ? ret : 1);  /* exactly ret bytes, no NUL: over-read traps */
		size_t dl = dcap;
		int dret;
		memcpy(txt, out, ret);
		dret = c->ops->decode(dec, &dl, txt, ret);
		if (dret < 0 || (size_t)dret != consumed || memcmp(dec, x, consumed) != 0) {
			snprintf(detail, sizeof(detail), "decode(out) gave %d bytes, consumed=%zu, match=%d", dret, consumed,
				 dret >= 0 && (size_t)dret <= n ? !memcmp(dec, x, dret) : -1);
			fail(c, "roundtrip", x, n, cap, detail); bad = 1;
		}
		/* decoder output capacity: a smaller buffer yields a prefix and no overflow */
		if (!bad && consumed > 0) {
			size_t m = drv_below((unsigned)consumed);
			unsigned char *d2 = malloc(m + 1);
			size_t dl2 = m;
			int r2 = c->ops->decode(d2, &dl2, txt, ret);
			if (r2 < 0 || (size_t)r2 > m || memcmp(d2, x, r2) != 0) {
				snprintf(detail, sizeof(detail), "decode into %zu-byte buffer returned %d", m, r2);
				fail(c, "decode-cap", x, n, cap, detail); bad = 1;
			}
			free(d2);
		}
		/* Base32 decodes case-insensitively */
		if (!bad && c->bits == 5 && ret > 0) {
			size_t dl3 = dcap;
			int r3;
			for (i = 0; i < ret; i++)
				if (txt[i] >= 'a' && txt[i] <= 'z') txt[i] -= 32;
			r3 = c->ops->decode(dec, &dl3, txt, ret);
			if (r3 < 0 || (size_t)r3 != consumed || memcmp(dec, x, consumed) != 0) {
				fail(c, "case", x, n, cap, "upper-cased text decodes differently"); bad = 1;
			}
		}
		free(dec); free(txt);
	}
	if (!bad) {
		int a = (int)(n % c->ops->blocksize_raw), b = (int)(cap % c->ops->blocksize_encoded);
		seen_class[c - C][a][b][cap < need] = 1;
	}
done:
	free(in); free(out);
	return bad;
}

/* chunking: encode x by repeatedly taking what fits in cap; reassembly must equal x */
static int check_chunks(const struct cdc *c, const unsigned char *x, size_t n, size_t cap)
{
	unsigned char *re = malloc(n + 16);
	size_t off = 0, got = 0;
	char *out = malloc(cap + 1);
	int guard = 0;
	while (off < n && guard++ < 100000) {
		size_t consumed = cap, dl = n + 8 - got;
		int ret = c->ops->encode(out, &consumed, x + off, n - off);
		int d;
		evals++;
		if (consumed == 0) { fail(c, "chunk-stall", x, n, cap, "chunking made no progress"); free(re); free(out); return 1; }
		d = c->ops->decode(re + got, &dl, out, ret);
		if (d < 0) d = 0;
		got += d;
		off += consumed;
	}
	if (got != n || memcmp(re, x, n) != 0) {
		char detail[96];
		snprintf(detail, sizeof(detail), "reassembled %zu of %zu bytes, equal=%d", got, n, got == n ? !memcmp(re, x, n) : 0);
		fail(c, "chunk-reassembly", x, n, cap, detail);
		free(re); free(out); return 1;
	}
	free(re); free(out);
	return 0;
}

static void fill(unsigned char *x, size_t n, int style)
{
	size_t i;
	switch (style) {
	case 0: memset(x, 0x00, n); break;
	case 1: memset(x, 0xFF, n); break;
	case 2: for (i = 0; i < n; i++) x[i] = (unsigned char)(i * 107 + 3); break;
	case 3: for (i = 0; i < n; i++) x[i] = (i & 1) ? 0xAA : 0x55; break;
	default: for (i = 0; i < n; i++) x[i] = (unsigned char)drv_rand(); break;
	}
}

static int first_call;

int main(int argc, char **argv)
{
	const char *mode = argc > 1 ? argv[1] : "small";
	int shard = argc > 2 ? atoi(argv[2]) : 0;
	int nsh = argc > 3 ? atoi(argv[3]) : 1;
	unsigned seed = argc > 4 ? (unsigned)atoi(argv[4]) : 1;
	int maxlen = argc > 5 ? atoi(argv[5]) : 512;
	int ci, work = 0;
	static unsigned char x[8192];

	/* Which Base32 entry point a process uses first is the caller's business (iodined's first tunnel query may be a command
	   that only reads header characters): every shard is its own process and starts with a different first call. */
	{
		const struct encoder *e32 = &base32_ops;
		char t[16]; size_t tl = sizeof(t) - 1; unsigned char r[8];
		switch (shard % 7) {
		case 1: (void)b32_8to5('b'); break;
		case 2: (void)b32_5to8(7); break;
		case 3: e32->encode(t, &tl, "ab", 2); break;
		case 4: e32->decode(r, &tl, "mfrgg", 5); break;
		case 5: e32->decode(r, &tl, "MFRGG", 5); break;
		case 6: (void)b32_8to5('B'); break;
		default: break;
		}
		first_call = shard % 7;
	}
	init_codecs();
	drv_seed(seed * 7919u + (unsigned)shard * 104729u + 17);
	{
		/* the single-character helpers agree with the codec, in either letter case */
		int v;
		for (v = 0; v < 32; v++) {
			int ch = b32_5to8(v);
			int up = (ch >= 'a' && ch <= 'z') ? ch - 32 : ch;
			evals++;
			if (b32_8to5(ch) != v || b32_8to5(up) != v) {
				DRV_VIOL("C07:b32:single-char-helpers", "b32_5to8(%d)='%c'; b32_8to5('%c')=%d, b32_8to5('%c')=%d (first call of the process: variant %d)\t-",
					 v, ch, ch, b32_8to5(ch), up, b32_8to5(up), first_call);
				break;
			}
		}
	}

	for (ci = 0; ci < 4; ci++) {
		const struct cdc *c = &C[ci];
		if (c->ops->blocksize_encoded * c->bits != c->ops->blocksize_raw * 8) {
			char key[64]; snprintf(key, sizeof(key), "C07:%s:blocksize", c->name);
			DRV_VIOL(key, "blocksize_raw=%d blocksize_encoded=%d inconsistent with %d bits/char\t-",
				 c->ops->blocksize_raw, c->ops->blocksize_encoded, c->bits);
		}
	}

	/* Wire values: the documented alphabets are lists ("a-z0-5", "a-zA-Z0-9\\274-\\375"); the i-th character stands for the
	   value i.  A permuted table is still lossless inside one tree but no longer talks to any other build.  Asserted in full
	   for Base32 and Base128; for Base64/Base64u the document and the code disagree on where '-' and the digits go, so only
	   the undisputed part (a-z = 0..25, A-Z = 26..51) is asserted. */
	if (shard == 0) {
		for (ci = 0; ci < 4; ci++) {
			const struct cdc *c = &C[ci];
			int v, nvals = 1 << c->bits, upto = (ci == 1 || ci == 2) ? 52 : nvals;
			for (v = 0; v < upto; v++) {
				unsigned char in1[1];
				char out1[8];
				size_t cap = sizeof(out1) - 1;
				int want;
				if (ci == 0) want = v < 26 ? 'a' + v : '0' + (v - 26);
				else if (ci == 3) want = v < 26 ? 'a' + v : v < 52 ? 'A' + (v - 26) : v < 62 ? '0' + (v - 52) : 0xBC + (v - 62);
				else want = v < 26 ? 'a' + v : 'A' + (v - 26);
				in1[0] = (unsigned char)(v << (8 - c->bits));
				memset(out1, 0, sizeof(out1));
				c->ops->encode(out1, &cap, in1, 1);
				evals++;
				if ((unsigned char)out1[0] != (unsigned char)want) {
					char key[64], detail[96];
					snprintf(key, sizeof(key), "C07:%s:wire-value", c->name);
					snprintf(detail, sizeof(detail), "value %d is written as 0x%02x, the documented alphabet has 0x%02x there", v, (unsigned char)out1[0], (unsigned char)want);
					fail(c, "wire-value", in1, 1, cap, detail);
					break;
				}
			}
		}
		DRV_N("wire values of every codec match the documented alphabet order");
	}

	if (!strcmp(mode, "small")) {
		for (ci = 0; ci < 4; ci++) {
			int a, b;
			size_t cap;
			if (work++ % nsh == shard) for (cap = 0; cap <= 3; cap++) check_one(&C[ci], x, 0, cap);
			for (a = 0; a < 256; a++) {
				if (work++ % nsh != shard) continue;
				x[0] = a;
				for (cap = 0; cap <= enc_len(C[ci].bits, 1) + 2; cap++) check_one(&C[ci], x, 1, cap);
				for (b = 0; b < 256; b++) {
					x[1] = b;
					for (cap = 0; cap <= enc_len(C[ci].bits, 2) + 2; cap++) check_one(&C[ci], x, 2, cap);
				}
			}
		}
		DRV_X("exhaustive_small_inputs", 1);
	} else if (!strcmp(mode, "pairs")) {
		for (ci = 0; ci < 4; ci++) {
			int br = C[ci].ops->blocksize_raw, pos, a, b;
			for (pos = 0; pos < br; pos++) {
				for (a = 0; a < 256; a++) {
					size_t n, cap, need;
					if (work++ % nsh != shard) continue;
					for (b = 0; b < 256; b++) {
						n = br + pos + 2 + drv_below(br);
						fill(x, n, 4);
						x[br + pos - 1 + 0] = a;   /* pair straddles or sits inside a block */
						x[br + pos - 1 + 1] = b;
						need = enc_len(C[ci].bits, n);
						check_one(&C[ci], x, n, need);
						cap = drv_below((unsigned)need + 1);
						check_one(&C[ci], x, n, cap);
					}
				}
			}
		}
	} else { /* lengths */
		int n;
		for (n = 0; n <= maxlen; n++) {
			if (work++ % nsh != shard) continue;
			for (ci = 0; ci < 4; ci++) {
				int style;
				size_t need = enc_len(C[ci].bits, n), cap;
				for (style = 0; style < 6; style++) {
					fill(x, n, style);
					check_one(&C[ci], x, n, need);
					check_one(&C[ci], x, n, need + 1);
					if (need > 0) check_one(&C[ci], x, n, need - 1);
					check_one(&C[ci], x, n, 2 * (size_t)n);
					for (cap = 0; cap <= need && cap <= 64; cap++) check_one(&C[ci], x, n, cap);
					check_one(&C[ci], x, n, drv_below(2 * n + 1));
					check_one(&C[ci], x, n, drv_below((unsigned)need + 1));
					if (n > 0) {
						check_chunks(&C[ci], x, n, 2 + drv_below(70));
						check_chunks(&C[ci], x, n, 2 + drv_below(255));
					}
				}
			}
		}
	}
	DRV_E(evals);
	DRV_X("emissions_with_useless_trailing_char", surplus_chars);
	{
		int a, b, t;
		for (ci = 0; ci < 4; ci++) for (a = 0; a < 8; a++) for (b = 0; b < 8; b++) for (t = 0; t < 2; t++)
			if (seen_class[ci][a][b][t]) DRV_N("%s len%%blk=%d cap%%blk=%d trunc=%d", C[ci].name, a, b, t);
	}
	{
		/* one worked sample */
		size_t consumed = 7; char o[16]; char hx[64];
		unsigned char s[6] = {0xde, 0xad, 0xbe, 0xef, 0x01, 0x02};
		int r = base32_ops.encode(o, &consumed, s, 6);
		drv_hex(hx, sizeof(hx), s, 6);
		if (shard == 0) DRV_S("b32 input=%s cap=7 -> text=%.*s consumed=%zu", hx, r, o, consumed);
	}
	return 0;
}
