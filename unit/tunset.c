/* C13 (Engine B): the tree's tun.c compiled as text for one operating-system configuration
 * (-DLINUX / -DFREEBSD / -DOPENBSD / -DNETBSD ...), with system() replaced by a recorder.
 *
 * stdin:  "I <hex ip> <hex other_ip> <netbits>"  -> tun_setip(ip, other_ip, netbits)
 *         "M <mtu>"                              -> tun_setmtu(mtu)
 * stdout: "CMD <hex of the command line>" for every system() call, then "RET <rc>" per input line.
 * The command grammar is judged by the caller (checks/c13.py), not here.
 */
#include <stdio.h>
#include <stdlib.h>
#include <string.h>
#include <errno.h>
#include <unistd.h>

static int drv_system(const char *cmd);
static int drv_access(const char *path, int mode);
#define system drv_system
#define access drv_access
#include "tun.c"
#undef system
#undef access

/* TUNSET_NO_IFCONFIG=1: this host has no ifconfig (only iproute2), should tun.c care */
static int drv_access(const char *path, int mode)
{
	if (getenv("TUNSET_NO_IFCONFIG") && strstr(path, "ifconfig")) { errno = ENOENT; return -1; }
	return (access)(path, mode);
}

/* open_tun() is never called here; its helper lives in common.c */
void fd_set_close_on_exec(int fd) { (void)fd; }

static int drv_system(const char *cmd)
{
	const unsigned char *p = (const unsigned char *)cmd;
	fputs("CMD ", stdout);
	for (; *p; p++) printf("%02x", *p);
	fputs("\n", stdout);
	return 0;
}

static int unhex(const char *h, char *out, size_t cap)
{
	size_t n = 0;
	if (!strcmp(h, "-")) { out[0] = 0; return 0; }
	while (h[0] && h[1] && n + 1 < cap) {
		unsigned v;
		if (sscanf(h, "%2x", &v) != 1) return -1;
		out[n++] = (char)v;
		h += 2;
	}
	out[n] = 0;
	return (int)n;
}

int main(void)
{
	static char line[4096], a[1024], b[1024], ha[2100], hb[2100];
	strcpy(if_name, "dns0");
	while (fgets(line, sizeof(line), stdin)) {
		int n, rc;
		unsigned long m;
		if (line[0] == 'I' && sscanf(line + 1, "%2090s %2090s %d", ha, hb, &n) == 3) {
			if (unhex(ha, a, sizeof(a)) < 0 || unhex(hb, b, sizeof(b)) < 0) { puts("ERR"); continue; }
			rc = tun_setip(a, b, n);
			printf("RET %d\n", rc);
		} else if (line[0] == 'M' && sscanf(line + 1, "%lu", &m) == 1) {
			rc = tun_setmtu((unsigned)m);
			printf("RET %d\n", rc);
		} else {
			puts("ERR");
		}
	}
	fflush(stdout);
	return 0;
}
