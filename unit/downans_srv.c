/* C09, server half: the tree's iodined.c is compiled as text (no source edit), so that the static
 * reply writer write_dns() can be called.  Everything else in iodined.c is dead weight here.
 * The datagram write_dns() produces leaves through sendto(), which the driver redirects
 * (-Wl,--wrap=sendto, see downans_main.c).
 */
#define main iodined_main
#include "iodined.c"
#undef main

#define DRV_FAKE_FD 4242   /* same value in downans_cli.c and downans_main.c */

void drv_srv_write(unsigned short qtype, unsigned short id, const char *qname,
		   const char *data, int datalen, char downenc)
{
	struct query q;
	struct sockaddr_in *sin;

	memset(&q, 0, sizeof(q));
	strncpy(q.name, qname, sizeof(q.name) - 1);
	q.type = qtype;
	q.id = id;
	sin = (struct sockaddr_in *) &q.from;
	sin->sin_family = AF_INET;
	sin->sin_port = htons(40053);
	sin->sin_addr.s_addr = htonl(0xC0000207u);   /* 192.0.2.7 */
	q.fromlen = sizeof(struct sockaddr_in);

	write_dns(DRV_FAKE_FD, &q, data, datalen, downenc);
}
