/* C08 (server half): the tree's iodined.c compiled as text (main renamed), plus thin accessors.
 *
 * drv_srv_feed() runs the server's own datagram path once:
 *   tunnel_dns() -> read_dns() -> recvmsg() [wrapped: hands over the client's datagram]
 *                -> dns_decode(QR_QUERY) -> query_datalen(name, topdomain) -> handle_null_request()
 * Sessions are created by real 'V' and 'L' messages; the only state written from here is what
 * main() would have set from the command line (domain, password, addresses, mtu, -c) and which
 * slots are free before a 'V' arrives.
 */
#define main iodined_main
#include "iodined.c"
#undef main

#define DRV_SRV_DNS_FD 1002
#define DRV_SRV_TUN_FD 1003

static const struct encoder *drv_srv_codecs[4] = { &base32_ops, &base64_ops, &base64u_ops, &base128_ops };

/* once per process: what main() does before entering tunnel() */
int drv_srv_boot(const char *pw)
{
	my_ip = inet_addr("10.9.0.1");
	netmask = 24;
	my_mtu = 1130;
	check_ip = 0;
	ns_ip = INADDR_ANY;
	debug = 0;
	bind_port = 0;
	memset(password, 0, sizeof(password));
	strncpy(password, pw, sizeof(password) - 1);
	created_users = init_users(my_ip, netmask);
	return created_users;
}

/* per configuration: the served domain, and which slot the next 'V' will get
 * (slots below `uid` look like live sessions of other clients, the rest are free) */
void drv_srv_config(const char *domain, int uid)
{
	int i;
	free(topdomain);
	topdomain = strdup(domain);
	for (i = 0; i < created_users; i++) {
		users[i].active = (i < uid);
		users[i].authenticated = 0;
		users[i].disabled = 0;
		users[i].last_pkt = time(NULL);
		users[i].q.id = 0;
		users[i].q_sendrealsoon.id = 0;
	}
}

const char *drv_srv_domain(void) { return topdomain; }

int drv_srv_feed(void)
{
	struct dnsfd fds;
	fds.v4fd = DRV_SRV_DNS_FD;
	fds.v6fd = -1;
	return tunnel_dns(DRV_SRV_TUN_FD, DRV_SRV_DNS_FD, &fds, 0);
}

/* what the 'S' (switch codec) handler does once the option request is accepted */
void drv_srv_switch_codec(int uid, int codec)
{
	user_switch_codec(uid, drv_srv_codecs[codec & 3]);
}

/* used only when the login message could not be carried whole (see upname_main.c) */
void drv_srv_force_auth(int uid)
{
	if (uid >= 0 && uid < created_users)
		users[uid].authenticated = 1;
}

int drv_srv_domain_ok(char *client_domain, char *server_domain)
{
	char *err = NULL;
	if (check_topdomain(client_domain, 0, &err)) return 0;
	if (check_topdomain(server_domain, 1, &err)) return 0;
	return 1;
}
