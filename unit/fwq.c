/* C20 (Engine B): the forwarded-query table.
 *
 * The tree's fw_query.c is compiled into this driver by #include, so the real text runs; only its three
 * public functions are used (every history is replayed from fw_query_init()).
 *
 * Reference (written from the property text, not from fw_query.c): keep the last 16 forwarded queries
 * (requester, id).  get(id) must yield
 *     - the requester of that id if it occurs exactly once among them,
 *     - one of its requesters if it occurs several times,
 *     - nobody (NULL, or an entry without an address) if it does not occur.
 *
 * usage: fwq <shard> <nshards> <depth> <phase_depth> <seed> <nrandom>
 *        fwq long <nputs> <seed>
 *   long: one history of <nputs> forwarded queries (the table has no notion of time: a server that has been up for months has
 *         made this many calls), lookups of recent / older-than-16 / never-used ids after every put inside windows around each
 *         power of two of the put count (2^8, 2^15, 2^16, 2^31, 2^32 are where 8/16/32-bit counters wrap) and every 2^16 puts
 *         elsewhere
 *   part 1: every history of length <= depth over {put(id in 0..2, asker in A..B)} u {get(id in 0..3)}      (exhaustive)
 *   part 2: for every ring phase k = 0..47 (k puts with fresh ids first), every history of length <= phase_depth (exhaustive)
 *   part 3: nrandom random histories of length 60..400 with ids from a domain of 3..20 values
 */
#include "drv.h"
#include <netinet/in.h>
#include <arpa/inet.h>
#include "fw_query.c"

#define RING 16

struct ref_ent { int asker; unsigned short id; };
static struct ref_ent ref[4096];
static int nref;

static unsigned long long n_gets, n_puts, n_hist, n_multi, n_single, n_none, n_idzero_empty;
static int shard, nshards;

static void mk(struct fw_query *f, int asker, unsigned short id)
{
	struct sockaddr_in *a = (struct sockaddr_in *)&f->addr;
	memset(f, 0, sizeof(*f));
	a->sin_family = AF_INET;
	a->sin_port = htons(1000 + asker);
	a->sin_addr.s_addr = htonl(0x0A4D0000u + asker);
	f->addrlen = sizeof(*a);
	f->id = id;
}

static int asker_of(struct fw_query *f)
{
	struct sockaddr_in *a = (struct sockaddr_in *)&f->addr;
	if (f->addrlen != (int)sizeof(*a) || a->sin_family != AF_INET)
		return -1;
	if ((ntohl(a->sin_addr.s_addr) & 0xFFFF0000u) != 0x0A4D0000u)
		return -2;
	if (ntohs(a->sin_port) != 1000 + (ntohl(a->sin_addr.s_addr) & 0xFFFF))
		return -2;
	return ntohl(a->sin_addr.s_addr) & 0xFFFF;
}

static void do_put(int asker, unsigned short id)
{
	struct fw_query f;
	mk(&f, asker, id);
	fw_query_put(&f);
	ref[nref].asker = asker;
	ref[nref].id = id;
	nref++;
	n_puts++;
}

static char hist[512];
static int histn;

static void check_get(unsigned short id)
{
	struct fw_query *r = NULL;
	int i, cnt = 0, ok = 0, got;
	int lo = nref > RING ? nref - RING : 0;
	fw_query_get(id, &r);
	n_gets++;
	for (i = lo; i < nref; i++)
		if (ref[i].id == id) cnt++;
	got = r ? asker_of(r) : -1;
	if (cnt == 0) {
		if (r == NULL) ok = 1;
		else if (got == -1) { ok = 1; n_idzero_empty++; }	/* an entry that names nobody: the reply cannot be sent */
		n_none++;
		if (!ok)
			DRV_VIOL("C20:table:reply-to-wrong-requester", "a reply with id %u, which none of the 16 most recent forwarded queries has, would be sent to requester %d\thistory=%s", id, got, hist);
		return;
	}
	if (cnt == 1) n_single++; else n_multi++;
	if (r == NULL || got < 0) {
		DRV_VIOL("C20:table:requester-lost", "id %u is among the 16 most recent forwarded queries (%d times) but no requester is found\thistory=%s", id, cnt, hist);
		return;
	}
	for (i = lo; i < nref; i++)
		if (ref[i].id == id && ref[i].asker == got) ok = 1;
	if (!ok)
		DRV_VIOL("C20:table:reply-to-wrong-requester", "reply with id %u would go to requester %d, who did not ask with that id among the 16 most recent forwarded queries\thistory=%s", id, got, hist);
}

#define NOPS 10	/* 0..5 put(id = op/2, asker = op%2) ; 6..9 get(id = op-6) */

static void apply(int op)
{
	if (op < 6) {
		do_put(op % 2, (unsigned short)(op / 2));
		hist[histn++] = "aAbBcC"[op];
	} else {
		hist[histn++] = "0123"[op - 6];
		hist[histn] = 0;
		check_get((unsigned short)(op - 6));
	}
	hist[histn] = 0;
}

/* Enumeration without touching fw_query.c's internals (they may be refactored): every history is replayed
 * from fw_query_init().  ops[] holds the current history; prefix_puts fresh puts come first. */
static int ops[64];

static void replay(int nops, int prefix_puts)
{
	int i;
	fw_query_init();
	nref = 0;
	histn = prefix_puts ? snprintf(hist, sizeof(hist), "[%d fresh]", prefix_puts) : 0;
	hist[histn] = 0;
	for (i = 0; i < prefix_puts; i++) do_put(2 + i % 5, (unsigned short)(100 + i));
	for (i = 0; i < nops; i++) {
		if (i < nops - 1 && ops[i] >= 6) {
			/* a get in the middle of a history was already judged when it was the last operation */
			struct fw_query *r = NULL;
			fw_query_get((unsigned short)(ops[i] - 6), &r);
			hist[histn++] = "0123"[ops[i] - 6];
			hist[histn] = 0;
		} else {
			apply(ops[i]);
		}
	}
}

static void enumerate(int depth, int maxdepth, int prefix_puts, int sharded)
{
	int op;
	if (depth > 0) {
		if (ops[depth - 1] >= 6) replay(depth, prefix_puts);	/* judge histories that end in a lookup */
		n_hist++;
	}
	if (depth == maxdepth) return;
	for (op = 0; op < NOPS; op++) {
		if (sharded && depth == 0 && (op % nshards) != shard) continue;
		ops[depth] = op;
		enumerate(depth + 1, maxdepth, prefix_puts, 0);
	}
}

/* the last 16 (asker, id) pairs of the long history, kept without the 4096-entry reference array */
static void long_history(unsigned long long nputs)
{
	unsigned long long n, next_sparse = 0, wlo = 0, whi = 0, pw = 256, checked = 0, windows = 0;
	int i;
	fw_query_init();
	nref = 0;
	for (n = 0; n < nputs; n++) {
		/* ids walk through the whole 16-bit space with an odd stride: 16 consecutive ones are distinct */
		unsigned short id = (unsigned short)(n * 40503u + 7u);
		int asker = (int)(n % 29);
		static struct fw_query tmpl[29];
		if (n < 29) mk(&tmpl[asker], asker, 0);
		tmpl[asker].id = id;
		fw_query_put(&tmpl[asker]);
		n_puts++;
		if (nref >= 4000) { memmove(ref, ref + nref - 15, 15 * sizeof(ref[0])); nref = 15; }
		ref[nref].asker = asker; ref[nref].id = id; nref++;
		if (n + 1 + 40 >= pw && wlo != pw) { wlo = pw; whi = pw + 40; windows++; }
		if (n + 1 > whi && wlo == pw && pw < (1ULL << 62)) pw <<= 1;
		if ((wlo && n + 1 + 40 >= wlo && n + 1 <= whi) || n >= next_sparse) {
			if (n >= next_sparse) next_sparse = n + 65536;
			snprintf(hist, sizeof(hist), "[long history: after %llu forwarded queries with ids n*40503+7, askers n%%29]", n + 1);
			for (i = 0; i < 16 && i < nref; i++)
				check_get(ref[nref - 1 - i].id);		/* each of the 16 most recent */
			check_get((unsigned short)((n - 16) * 40503u + 7u));	/* the 17th most recent: forgotten (n >= 16) */
			check_get((unsigned short)((n + 1) * 40503u + 7u));	/* not asked yet */
			checked++;
		}
	}
	DRV_X("long_history_puts", nputs);
	DRV_X("long_history_points_checked", checked);
	DRV_X("long_history_windows_around_powers_of_two", windows);
	DRV_N("long-history-2^%d", nputs >= (1ULL << 31) ? 31 : nputs >= (1ULL << 24) ? 24 : 16);
}

int main(int argc, char **argv)
{
	int depth, pdepth, k, i;
	unsigned long long nrandom, h;
	if (argc >= 4 && strcmp(argv[1], "long") == 0) {
		drv_seed(strtoull(argv[3], NULL, 10));
		long_history(strtoull(argv[2], NULL, 10));
		DRV_E(n_gets);
		DRV_X("gets_id_once_in_window", n_single);
		DRV_X("gets_id_not_in_window", n_none);
		return 0;
	}
	if (argc < 7) { fprintf(stderr, "usage\n"); return 2; }
	shard = atoi(argv[1]); nshards = atoi(argv[2]); depth = atoi(argv[3]); pdepth = atoi(argv[4]);
	drv_seed(strtoull(argv[5], NULL, 10) * 977 + shard);
	nrandom = strtoull(argv[6], NULL, 10);

	/* part 1 */
	enumerate(0, depth, 0, 1);
	DRV_N("exhaustive-depth-%d", depth);

	/* part 2: every ring phase */
	for (k = 0; k < 48; k++) {
		if (k % nshards != shard) continue;
		enumerate(0, pdepth, k, 0);
		DRV_N("phase-%d", k);
	}

	/* part 3: long random histories, ids from a small domain, many more than 16 outstanding */
	for (h = 0; h < nrandom; h++) {
		int len = 60 + drv_below(340), dom = 3 + drv_below(18), askers = 2 + drv_below(30);
		fw_query_init(); nref = 0;
		histn = snprintf(hist, sizeof(hist), "[random len=%d ids=%d askers=%d seed-pos=%llu]", len, dom, askers, h);
		for (i = 0; i < len; i++) {
			if (drv_below(3))
				do_put(drv_below(askers), (unsigned short)drv_below(dom));
			else
				check_get((unsigned short)drv_below(dom + 2));
		}
		n_hist++;
		if (h < 3) DRV_N("random-ids%d", dom);
	}
	DRV_E(n_gets);
	DRV_X("histories", n_hist);
	DRV_X("puts", n_puts);
	DRV_X("gets_id_once_in_window", n_single);
	DRV_X("gets_id_several_times_in_window", n_multi);
	DRV_X("gets_id_not_in_window", n_none);
	DRV_X("gets_matching_an_empty_slot", n_idzero_empty);
	if (n_single) DRV_N("single");
	if (n_multi) DRV_N("multi");
	if (n_none) DRV_N("none");
	if (shard == 0) DRV_S("ops: a/A = put id0 by asker0/1, b/B id1, c/C id2; 0-3 = get(id); e.g. history 'aBc1' = put(0,A0) put(1,A1) put(2,A0) get(1)");
	return 0;
}
