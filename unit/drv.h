/* Common output protocol for unit drivers (parsed by vflib/unitrun.py):
 *   E <n>                       add n evaluations
 *   N <sig>                     a non-trivial case signature (distinct ones are counted)
 *   S <text>                    a sample case
 *   X <key> <n>                 extra coverage counter
 *   V <key>\t<what>\t<witness>  violation
 */
#ifndef DRV_H
#define DRV_H
#include <stdio.h>
#include <stdint.h>
#include <stdlib.h>
#include <string.h>

static uint64_t drv_rng_state = 88172645463325252ULL;
static inline void drv_seed(uint64_t s) { drv_rng_state = s * 6364136223846793005ULL + 1442695040888963407ULL; if (!drv_rng_state) drv_rng_state = 1; }
static inline uint64_t drv_rand(void) {
	uint64_t x = drv_rng_state;
	x ^= x << 13; x ^= x >> 7; x ^= x << 17;
	drv_rng_state = x;
	return x * 2685821657736338717ULL;
}
static inline unsigned drv_below(unsigned n) { return n ? (unsigned)(drv_rand() >> 11) % n : 0; }

static int drv_viol_count = 0;
static inline void drv_hex(char *dst, size_t dstlen, const void *p, size_t n) {
	static const char h[] = "0123456789abcdef";
	const unsigned char *u = p;
	size_t i, o = 0;
	for (i = 0; i < n && o + 3 < dstlen; i++) { dst[o++] = h[u[i] >> 4]; dst[o++] = h[u[i] & 15]; }
	dst[o] = 0;
}
#define DRV_VIOL(key, ...) do { \
	if (drv_viol_count++ < 40) { printf("V %s\t", key); printf(__VA_ARGS__); printf("\n"); fflush(stdout);} } while (0)
#define DRV_E(n) printf("E %llu\n", (unsigned long long)(n))
#define DRV_N(...) do { printf("N "); printf(__VA_ARGS__); printf("\n"); } while (0)
#define DRV_S(...) do { printf("S "); printf(__VA_ARGS__); printf("\n"); } while (0)
#define DRV_X(key, n) printf("X %s %llu\n", key, (unsigned long long)(n))
#endif
