/* C09: downstream answers decode exactly (or to a prefix, or to nothing), monotonically in size.
 *
 * The real reply writer of the server (write_dns, iodined.c, reached through downans_srv.c) is run on
 * a payload; the datagram it hands to sendto() is captured here (-Wl,--wrap=sendto) and handed
 * unchanged to the real reply reader of the client (read_dns_withq, client.c, reached through
 * downans_cli.c) through recvfrom() (-Wl,--wrap=recvfrom).  What the client extracts is compared
 * with what the server was given.  The oracle is written from the property text only:
 *
 *   rl <= 0                          "nothing"          allowed
 *   rl <= n and r == p[0:rl]         exact (rl == n) or proper prefix (rl < n), both allowed
 *   rl > n                           VIOLATION C09:<QTYPE>:<codec>:longer-than-sent
 *   r != p[0:rl]                     VIOLATION C09:<QTYPE>:<codec>:different-bytes
 *
 * Monotonicity and the 2..102 floor are judged by checks/c09.py over all shards from the "G" lines
 * (one per (qtype, codec, name kind, buffer size, content style) group: tested exact prefix nothing
 * wrong exact_max exact_min nonexact_min rl_at_nonexact_min tested_in_2..102).  Every (qtype, codec)
 * pair runs in a child process of its own; when a child is stopped by a sanitizer the parent prints an
 * "A" line naming the case that was in flight and exits with the child's status.
 *
 * usage: downans run <shard> <nshards> <seed> <dense_hi> <step> <maxlen> [<pair> [<only_len>]]
 *          lengths: every n in 2..dense_hi, then dense_hi+1+(seed%step), +step, ... < maxlen-1, and
 *          maxlen-1, maxlen.  Work item (pair, index of n) belongs to shard (pair*5 + index) % nshards.
 *          <pair> = qtype_index*5 + codec_index restricts the run to one pair (-1 = all);
 *          <only_len> restricts it to one length (replay).
 */
#include "drv.h"
#include <sys/types.h>
#include <sys/socket.h>
#include <sys/mman.h>
#include <sys/wait.h>
#include <unistd.h>
#include <errno.h>
#include <netinet/in.h>
#include <arpa/inet.h>
#include <arpa/nameser.h>
#include "common.h"

#define DRV_FAKE_FD 4242   /* same value in downans_srv.c and downans_cli.c */

void drv_srv_write(unsigned short qtype, unsigned short id, const char *qname,
		   const char *data, int datalen, char downenc);
int drv_cli_read(char *buf, int buflen, struct query *q);

/* ---- the wire between the two halves ----------------------------------------------------- */
static unsigned char wire[64 * 1024 + 64];
static int order_passes, in_order_pass;
static unsigned long long evals_order;
static unsigned char asc_cls[4][4][8][4097];
static int wire_len = -1;                 /* -1: the server sent nothing */
static unsigned long long n_sendto, n_recvfrom, n_foreign_fd;
static int sends_this_case;

ssize_t __real_sendto(int fd, const void *buf, size_t len, int flags, const struct sockaddr *to, socklen_t tolen);
ssize_t __real_recvfrom(int fd, void *buf, size_t len, int flags, struct sockaddr *from, socklen_t *fromlen);

ssize_t __wrap_sendto(int fd, const void *buf, size_t len, int flags, const struct sockaddr *to, socklen_t tolen)
{
	if (fd != DRV_FAKE_FD) { n_foreign_fd++; return __real_sendto(fd, buf, len, flags, to, tolen); }
	n_sendto++;
	sends_this_case++;
	if (len > sizeof(wire)) {
		fprintf(stderr, "downans: server datagram of %zu bytes exceeds the wire buffer\n", len);
		exit(3);
	}
	memcpy(wire, buf, len);
	wire_len = (int) len;
	return (ssize_t) len;
}

ssize_t __wrap_recvfrom(int fd, void *buf, size_t len, int flags, struct sockaddr *from, socklen_t *fromlen)
{
	struct sockaddr_in sin;
	size_t n;

	if (fd != DRV_FAKE_FD) { n_foreign_fd++; return __real_recvfrom(fd, buf, len, flags, from, fromlen); }
	n_recvfrom++;
	if (wire_len < 0) {
		fprintf(stderr, "downans: recvfrom without a datagram on the wire\n");
		exit(3);
	}
	n = (size_t) wire_len;
	if (n > len) n = len;               /* UDP semantics: excess is discarded */
	memcpy(buf, wire, n);
	if (from && fromlen) {
		memset(&sin, 0, sizeof(sin));
		sin.sin_family = AF_INET;
		sin.sin_port = htons(53);
		sin.sin_addr.s_addr = htonl(0xC6336401u);   /* 198.51.100.1 */
		if (*fromlen >= sizeof(sin)) memcpy(from, &sin, sizeof(sin));
		*fromlen = sizeof(sin);
	}
	return (ssize_t) n;
}

/* ---- the case space ------------------------------------------------------------------------ */
#define NQT 7
#define NCODEC 5
#define NNAME 2
#define NBUF 2
#define NSTYLE 5
static const unsigned short QT[NQT] = { T_NULL, T_PRIVATE, T_TXT, T_SRV, T_MX, T_CNAME, T_A };
static const char *QTN[NQT] = { "NULL", "PRIVATE", "TXT", "SRV", "MX", "CNAME", "A" };
static const char CODEC[NCODEC] = { 'T', 'S', 'U', 'V', 'R' };
static const char *NAMEKIND[NNAME] = { "short", "long253" };
static const int BUFSZ[NBUF] = { 65536, 4096 };     /* tunnel_dns: char buf[64*1024]; every handshake function: char in[4096] */
static const char *STYLE[NSTYLE] = { "ff", "00", "probe", "alt55aa", "random" };
static char qname[NNAME][QUERY_NAME_SIZE];

struct grp {
	unsigned long long tested, exact, prefix, nothing, bad, floor_tested;
	int exact_max, exact_min;            /* 0 = none */
	int nonexact_min, nonexact_min_rl;   /* 0 = none; "bad" cases are not counted here */
};
static struct grp G[NQT][NCODEC][NNAME][NBUF][NSTYLE];
static unsigned long long evals, n_exact, n_prefix, n_nothing, n_bad, n_srv_silent, n_cli_negative, n_payloads;
static unsigned seed;
static int samples_left = 1;
/* the case in flight, visible to the parent process after a sanitizer abort */
static struct progress { int n, style, nk, bk, stage; } *progress;

static void make_names(void)
{
	/* (a) two characters of data under the three-character domain "a.b" */
	int i, o = 0, l;
	static const int lab[4] = { 63, 63, 63, 61 };
	strcpy(qname[0], "pa.a.b");
	/* (b) 253 characters: 63+63+63+61 plus three dots, first character 'p' */
	for (l = 0; l < 4; l++) {
		for (i = 0; i < lab[l]; i++)
			qname[1][o++] = "abcdefghijklmnopqrstuvwxyz012345"[(i * 7 + l * 3) & 31];
		if (l < 3) qname[1][o++] = '.';
	}
	qname[1][o] = 0;
	qname[1][0] = 'p';
	if (o != 253) { fprintf(stderr, "downans: long name has %d characters\n", o); exit(3); }
}

static uint64_t mix(uint64_t a, uint64_t b, uint64_t c, uint64_t d)
{
	uint64_t x = a * 0x9E3779B97F4A7C15ULL + b;
	x ^= x >> 31; x *= 0xBF58476D1CE4E5B9ULL; x += c;
	x ^= x >> 29; x *= 0x94D049BB133111EBULL; x += d;
	x ^= x >> 32;
	return x ? x : 1;
}

static void fill(unsigned char *p, int n, int style)
{
	int i;
	unsigned v;
	switch (style) {
	case 0: memset(p, 0xFF, n); break;
	case 1: memset(p, 0x00, n); break;
	case 2: /* the server's fragment-size probe answer (handle_null_request, 'R') */
		v = (unsigned) (drv_rand() >> 20) & 0xff;
		for (i = 0; i < n; i++) {
			if (i == 0) p[i] = (n >> 8) & 0xff;
			else if (i == 1) p[i] = n & 0xff;
			else if (i == 2) p[i] = 107;
			else { p[i] = (unsigned char) v; v = (v + 107) & 0xff; }
		}
		break;
	case 3: for (i = 0; i < n; i++) p[i] = (i & 1) ? 0xAA : 0x55; break;
	default: for (i = 0; i < n; i++) p[i] = (unsigned char) (drv_rand() >> 24); break;
	}
}

static void window(char *dst, size_t dstlen, const unsigned char *p, int len, int at)
{
	int lo = at - 8 < 0 ? 0 : at - 8, hi = at + 8 > len ? len : at + 8;
	if (hi < lo) hi = lo;
	drv_hex(dst, dstlen, p + lo, (size_t) (hi - lo));
}

static void judge(int qi, int ci, int nk, int bk, int style, const unsigned char *p, int n,
		  const unsigned char *r, int rl, int srv_len)
{
	static struct grp scratch;
	struct grp *g = in_order_pass ? &scratch : &G[qi][ci][nk][bk][style];
	int cmp, d, cls;   /* cls: 0 exact, 1 prefix, 2 nothing, 3 bad */
	char key[64], e[40], a[40];

	if (in_order_pass) {
		evals_order++;
	} else {
		evals++;
		g->tested++;
		if (n <= 102) g->floor_tested++;
	}
	if (rl <= 0) {
		cls = 2;
	} else {
		cmp = rl < n ? rl : n;
		if (cmp > BUFSZ[bk]) cmp = BUFSZ[bk];
		for (d = 0; d < cmp && r[d] == p[d]; d++) ;
		if (d < cmp) {
			cls = 3;
			snprintf(key, sizeof(key), "C09:%s:%c:different-bytes", QTN[qi], CODEC[ci]);
			window(e, sizeof(e), p, n, d);
			window(a, sizeof(a), r, rl < BUFSZ[bk] ? rl : BUFSZ[bk], d);
			DRV_VIOL(key, "%s answer, codec %c: client extracted %d bytes from a %d-byte payload and byte %d differs (sent %02x, got %02x)"
				 "\tqtype=%s codec=%c n=%d style=%s name=%s buf=%d rl=%d first_diff=%d expected[%d..]=%s actual[%d..]=%s datagram=%d seed=%u",
				 QTN[qi], CODEC[ci], rl, n, d, p[d], r[d],
				 QTN[qi], CODEC[ci], n, STYLE[style], NAMEKIND[nk], BUFSZ[bk], rl, d,
				 d - 8 < 0 ? 0 : d - 8, e, d - 8 < 0 ? 0 : d - 8, a, srv_len, seed);
		} else if (rl > n) {
			cls = 3;
			snprintf(key, sizeof(key), "C09:%s:%c:longer-than-sent", QTN[qi], CODEC[ci]);
			window(e, sizeof(e), p, n, n);
			window(a, sizeof(a), r, rl < BUFSZ[bk] ? rl : BUFSZ[bk], n);
			DRV_VIOL(key, "%s answer, codec %c: client extracted %d bytes from a %d-byte payload (the first %d agree)"
				 "\tqtype=%s codec=%c n=%d style=%s name=%s buf=%d rl=%d first_diff=%d expected[%d..]=%s(end) actual[%d..]=%s datagram=%d seed=%u",
				 QTN[qi], CODEC[ci], rl, n, n,
				 QTN[qi], CODEC[ci], n, STYLE[style], NAMEKIND[nk], BUFSZ[bk], rl, n,
				 n - 8 < 0 ? 0 : n - 8, e, n - 8 < 0 ? 0 : n - 8, a, srv_len, seed);
		} else {
			cls = rl == n ? 0 : 1;
		}
	}
	if (!in_order_pass) {
		asc_cls[nk][bk][style][n] = (unsigned char) (cls + 1);
	} else {
		if (asc_cls[nk][bk][style][n] == 1 && cls != 0 && cls != 3) {
			snprintf(key, sizeof(key), "C09:%s:%c:order-dependent", QTN[qi], CODEC[ci]);
			DRV_VIOL(key, "%s answer, codec %c: a %d-byte payload that is delivered exactly on its own came out as %s (rl=%d) after other answers had been decoded"
				 "	qtype=%s codec=%c n=%d style=%s name=%s buf=%d seed=%u",
				 QTN[qi], CODEC[ci], n, cls == 1 ? "a proper prefix" : "nothing", rl,
				 QTN[qi], CODEC[ci], n, STYLE[style], NAMEKIND[nk], BUFSZ[bk], seed);
		}
		if (cls == 3) n_bad++;
		return;
	}
	switch (cls) {
	case 0:
		g->exact++; n_exact++;
		if (n > g->exact_max) g->exact_max = n;
		if (!g->exact_min || n < g->exact_min) g->exact_min = n;
		break;
	case 1: g->prefix++; n_prefix++; break;
	case 2: g->nothing++; n_nothing++; break;
	default: g->bad++; n_bad++; break;
	}
	if ((cls == 1 || cls == 2) && (!g->nonexact_min || n < g->nonexact_min)) {
		g->nonexact_min = n;
		g->nonexact_min_rl = rl;
	}
	if (samples_left > 0 && style == 2 && nk == 1 && bk == 1 && cls != 3 && n > 600) {
		samples_left--;
		DRV_S("%s codec %c, 253-char name, 4096-byte buffer, probe payload n=%d: datagram %d bytes, client extracted rl=%d (%s)",
		      QTN[qi], CODEC[ci], n, srv_len, rl, cls == 0 ? "exact" : cls == 1 ? "proper prefix" : "nothing");
	}
}

/* "Some DNS relays will shuffle the answer records in the response" (doc/proto): the records of an MX/SRV answer carry
   priorities 10, 20, 30.. precisely so that the client can put them back in order.  The same datagram with its answer
   records rotated by one and reversed must yield exactly what the straight one yielded. */
static unsigned long long n_reordered_reads, n_reordered_multi;

static int reorder_wire(int mode)
{
	static unsigned char tmp[sizeof(wire)];
	int off[260], len[260], nrec, i, pos, o;
	if (wire_len < 12) return 0;
	nrec = (wire[6] << 8) | wire[7];
	if (nrec < 2 || nrec > 250) return 0;
	pos = 12;
	while (pos < wire_len && wire[pos]) pos += wire[pos] + 1;
	pos += 1 + 4;
	for (i = 0; i < nrec; i++) {
		int rdl;
		if (pos + 12 > wire_len || (wire[pos] & 0xC0) != 0xC0) return 0;
		rdl = (wire[pos + 10] << 8) | wire[pos + 11];
		if (pos + 12 + rdl > wire_len) return 0;
		off[i] = pos; len[i] = 12 + rdl;
		pos += 12 + rdl;
	}
	memcpy(tmp, wire, (size_t) wire_len);
	o = off[0];
	for (i = 0; i < nrec; i++) {
		int j = mode == 0 ? (i + 1) % nrec : nrec - 1 - i;
		memcpy(wire + o, tmp + off[j], (size_t) len[j]);
		o += len[j];
	}
	return 1;
}

static void reordered_reads(int qi, int ci, int nk, int bk, int style, int n, const unsigned char *straight, int rl)
{
	static unsigned char save[sizeof(wire)];
	int mode, save_len = wire_len;
	memcpy(save, wire, (size_t) wire_len);
	for (mode = 0; mode < 2; mode++) {
		unsigned char *buf2;
		struct query q;
		int rl2;
		memcpy(wire, save, (size_t) save_len);
		wire_len = save_len;
		if (!reorder_wire(mode)) break;
		n_reordered_multi += (mode == 0);
		buf2 = malloc((size_t) BUFSZ[bk]);
		if (!buf2) exit(3);
		memset(buf2, 0xEE, (size_t) BUFSZ[bk]);
		memset(&q, 0, sizeof(q));
		rl2 = drv_cli_read((char *) buf2, BUFSZ[bk], &q);
		n_reordered_reads++;
		if (rl2 != rl || (rl > 0 && memcmp(buf2, straight, (size_t) (rl < BUFSZ[bk] ? rl : BUFSZ[bk])))) {
			char key[64];
			snprintf(key, sizeof(key), "C09:%s:%c:record-order-dependent", QTN[qi], CODEC[ci]);
			DRV_VIOL(key, "%s answer, codec %c: with its answer records %s the client extracted %d bytes%s, in the order sent %d"
				 "\tqtype=%s codec=%c n=%d style=%s name=%s buf=%d seed=%u",
				 QTN[qi], CODEC[ci], mode == 0 ? "rotated by one" : "reversed", rl2, rl2 == rl ? " (different ones)" : "", rl,
				 QTN[qi], CODEC[ci], n, STYLE[style], NAMEKIND[nk], BUFSZ[bk], seed);
		}
		free(buf2);
	}
	memcpy(wire, save, (size_t) save_len);
	wire_len = save_len;
}

/* Forwarders that parse and re-serialise messages need not compress names: the same answer with every record's owner name
   written out in full (instead of the pointer to the question) carries the same payload.  And a relay that loses one record
   from the middle of an MX/SRV set leaves a gap in the preference sequence: "decoding stops at the first gap" - what the client
   extracts then is a prefix of what it extracted from the complete set (or nothing), never other bytes. */
static unsigned long long n_uncompressed_reads, n_gap_reads;

static int rewrite_wire(int mode, int drop)
{
	/* mode 0: owner names uncompressed; mode 1: record `drop` removed */
	static unsigned char tmp[sizeof(wire)];
	int nrec, i, pos, o, qend, qnamelen;
	if (wire_len < 12) return 0;
	nrec = (wire[6] << 8) | wire[7];
	if (nrec < 1 || nrec > 250) return 0;
	pos = 12;
	while (pos < wire_len && wire[pos]) pos += wire[pos] + 1;
	qnamelen = pos + 1 - 12;
	pos += 1 + 4;
	qend = pos;
	memcpy(tmp, wire, (size_t) qend);
	o = qend;
	for (i = 0; i < nrec; i++) {
		int rdl;
		if (pos + 12 > wire_len || wire[pos] != 0xC0 || wire[pos + 1] != 0x0C) return 0;
		rdl = (wire[pos + 10] << 8) | wire[pos + 11];
		if (pos + 12 + rdl > wire_len) return 0;
		if (mode == 1 && i == drop) { pos += 12 + rdl; continue; }
		if (mode == 0) {
			if (o + qnamelen + 10 + rdl > (int) sizeof(tmp)) return 0;
			memcpy(tmp + o, wire + 12, (size_t) qnamelen); o += qnamelen;
			memcpy(tmp + o, wire + pos + 2, (size_t) (10 + rdl)); o += 10 + rdl;
		} else {
			memcpy(tmp + o, wire + pos, (size_t) (12 + rdl)); o += 12 + rdl;
		}
		pos += 12 + rdl;
	}
	if (pos != wire_len) {
		/* (an additional section, e.g. OPT: kept as it is) */
		if (o + (wire_len - pos) > (int) sizeof(tmp)) return 0;
		memcpy(tmp + o, wire + pos, (size_t) (wire_len - pos)); o += wire_len - pos;
	}
	if (mode == 1) { tmp[6] = (unsigned char) ((nrec - 1) >> 8); tmp[7] = (unsigned char) ((nrec - 1) & 0xFF); }
	memcpy(wire, tmp, (size_t) o);
	wire_len = o;
	return 1;
}

static void rewritten_reads(int qi, int ci, int nk, int bk, int style, int n, const unsigned char *straight, int rl)
{
	static unsigned char save[sizeof(wire)];
	int save_len = wire_len, variant, nrec = wire_len >= 12 ? ((wire[6] << 8) | wire[7]) : 0;
	memcpy(save, wire, (size_t) wire_len);
	for (variant = 0; variant < 3; variant++) {
		unsigned char *buf2;
		struct query q;
		int rl2, ok, drop = -1;
		memcpy(wire, save, (size_t) save_len);
		wire_len = save_len;
		if (variant == 0) {
			if (!rewrite_wire(0, 0)) continue;
		} else {
			if (!(QT[qi] == 15 || QT[qi] == 33) || nrec < 3) continue;
			drop = variant == 1 ? 1 : nrec - 2;
			if (variant == 2 && drop == 1) continue;
			if (!rewrite_wire(1, drop)) continue;
		}
		buf2 = malloc((size_t) BUFSZ[bk]);
		if (!buf2) exit(3);
		memset(buf2, 0xEE, (size_t) BUFSZ[bk]);
		memset(&q, 0, sizeof(q));
		rl2 = drv_cli_read((char *) buf2, BUFSZ[bk], &q);
		if (variant == 0) {
			n_uncompressed_reads++;
			ok = rl2 == rl && (rl <= 0 || !memcmp(buf2, straight, (size_t) (rl < BUFSZ[bk] ? rl : BUFSZ[bk])));
		} else {
			n_gap_reads++;
			ok = rl2 <= 0 || (rl2 <= rl && !memcmp(buf2, straight, (size_t) (rl2 < BUFSZ[bk] ? rl2 : BUFSZ[bk])));
		}
		if (!ok) {
			char key[80];
			snprintf(key, sizeof(key), "C09:%s:%c:%s", QTN[qi], CODEC[ci], variant == 0 ? "uncompressed-owner-names" : "record-missing-from-the-middle");
			if (variant == 0)
				DRV_VIOL(key, "%s answer, codec %c: with the records' owner names written out instead of compressed the client extracted %d bytes%s, from the datagram as sent %d"
					 "\tqtype=%s codec=%c n=%d style=%s name=%s buf=%d seed=%u",
					 QTN[qi], CODEC[ci], rl2, rl2 == rl ? " (different ones)" : "", rl, QTN[qi], CODEC[ci], n, STYLE[style], NAMEKIND[nk], BUFSZ[bk], seed);
			else
				DRV_VIOL(key, "%s answer, codec %c: with record %d of %d lost on the way the client extracted %d bytes that are not a prefix of the %d it extracts from the complete answer"
					 "\tqtype=%s codec=%c n=%d style=%s name=%s buf=%d seed=%u",
					 QTN[qi], CODEC[ci], drop + 1, nrec, rl2, rl, QTN[qi], CODEC[ci], n, STYLE[style], NAMEKIND[nk], BUFSZ[bk], seed);
		}
		free(buf2);
	}
	memcpy(wire, save, (size_t) save_len);
	wire_len = save_len;
}

/* "A (returning CNAME) queries may/will cause additional lookups by smart caching nameservers" (README): a recursive resolver
   chases the CNAME it gets for an A question, finds that the target does not exist, and hands the record on unchanged under
   RCODE NXDOMAIN with AA cleared and RA set (RFC 2308 2.1).  The payload is all there: the client extracts what it extracted
   from the datagram as sent. */
static unsigned long long n_chased_reads;

static void chased_read(int qi, int ci, int nk, int bk, int style, int n, const unsigned char *straight, int rl)
{
	unsigned char f2 = wire[2], f3 = wire[3];
	unsigned char *buf2;
	struct query q;
	int rl2;
	if (wire_len < 12) return;
	wire[2] = (unsigned char) ((f2 & ~0x04) | 0x80);	/* QR set, AA cleared */
	wire[3] = (unsigned char) ((f3 & 0x70) | 0x80 | 3);	/* RA set, RCODE 3 */
	buf2 = malloc((size_t) BUFSZ[bk]);
	if (!buf2) exit(3);
	memset(buf2, 0xEE, (size_t) BUFSZ[bk]);
	memset(&q, 0, sizeof(q));
	rl2 = drv_cli_read((char *) buf2, BUFSZ[bk], &q);
	n_chased_reads++;
	if (rl2 != rl || (rl > 0 && memcmp(buf2, straight, (size_t) (rl < BUFSZ[bk] ? rl : BUFSZ[bk])))) {
		char key[64];
		snprintf(key, sizeof(key), "C09:%s:%c:lost-behind-a-resolver-that-chases-the-cname", QTN[qi], CODEC[ci]);
		DRV_VIOL(key, "%s answer, codec %c: handed on by a resolver under NXDOMAIN (AA clear, RA set) the client extracted %d bytes, from the datagram as sent %d"
			 "\tqtype=%s codec=%c n=%d style=%s name=%s buf=%d seed=%u",
			 QTN[qi], CODEC[ci], rl2, rl, QTN[qi], CODEC[ci], n, STYLE[style], NAMEKIND[nk], BUFSZ[bk], seed);
	}
	free(buf2);
	wire[2] = f2; wire[3] = f3;
}

static void one_length(int qi, int ci, int n)
{
	int style, nk, bk, rl;
	struct query q;

	for (style = 0; style < NSTYLE; style++) {
		/* exactly n bytes on the heap: a server-side read past the payload traps */
		unsigned char *p = malloc((size_t) n);
		if (!p) exit(3);
		drv_seed(mix(seed, (uint64_t) (qi * NCODEC + ci), (uint64_t) n, (uint64_t) style));
		fill(p, n, style);
		n_payloads++;
		for (nk = 0; nk < NNAME; nk++) {
			unsigned short id = (unsigned short) (1 + (drv_rand() >> 30) % 65535u);
			wire_len = -1;
			sends_this_case = 0;
			progress->n = n; progress->style = style; progress->nk = nk; progress->bk = 0; progress->stage = 1;
			drv_srv_write(QT[qi], id, qname[nk], (const char *) p, n, CODEC[ci]);
			if (sends_this_case > 1) {
				fprintf(stderr, "downans: write_dns called sendto %d times\n", sends_this_case);
				exit(3);
			}
			if (wire_len < 0) n_srv_silent++;
			for (bk = 0; bk < NBUF; bk++) {
				/* exactly buflen bytes on the heap: a client-side write past the buffer traps */
				unsigned char *buf = malloc((size_t) BUFSZ[bk]);
				if (!buf) exit(3);
				memset(buf, 0xEE, (size_t) BUFSZ[bk]);
				if (wire_len < 0) {
					rl = 0;        /* "doesn't fit": nothing was sent, nothing arrives */
				} else {
					memset(&q, 0, sizeof(q));
					progress->bk = bk; progress->stage = 2;
					rl = drv_cli_read((char *) buf, BUFSZ[bk], &q);
					if (rl < 0) n_cli_negative++;
				}
				progress->stage = 0;
				judge(qi, ci, nk, bk, style, p, n, buf, rl, wire_len);
				if (wire_len >= 0 && (QT[qi] == 15 || QT[qi] == 33) && rl > 0)
					reordered_reads(qi, ci, nk, bk, style, n, buf, rl);
				if (wire_len >= 0 && QT[qi] == 1 && rl > 0)
					chased_read(qi, ci, nk, bk, style, n, buf, rl);
				if (wire_len >= 0 && rl > 0 && (n % 7 == 2 || n > 150 && n % 3 == 0))
					rewritten_reads(qi, ci, nk, bk, style, n, buf, rl);
				free(buf);
			}
		}
		free(p);
	}
}

static void report(int qi, int ci)
{
	int nk, bk, st;

	DRV_E(evals);
	DRV_X("delivered_exact", n_exact);
	DRV_X("delivered_prefix", n_prefix);
	DRV_X("delivered_nothing", n_nothing);
	DRV_X("delivered_wrong", n_bad);
	DRV_X("payloads", n_payloads);
	DRV_X("server_datagrams", n_sendto);
	DRV_X("client_receives", n_recvfrom);
	DRV_X("server_sent_nothing", n_srv_silent);
	DRV_X("client_returned_negative", n_cli_negative);
	DRV_X("calls_on_foreign_fd", n_foreign_fd);
	DRV_X("order_passes_descending_and_interleaved", order_passes);
	DRV_X("order_pass_cases", evals_order);
	DRV_X("reads_with_reordered_records", n_reordered_reads);
	DRV_X("reads_behind_a_cname_chasing_resolver", n_chased_reads);
	DRV_X("reads_with_uncompressed_owner_names", n_uncompressed_reads);
	DRV_X("reads_with_a_record_missing_from_the_middle", n_gap_reads);
	DRV_X("multi_record_answers_reordered", n_reordered_multi);
	for (nk = 0; nk < NNAME; nk++) for (bk = 0; bk < NBUF; bk++) for (st = 0; st < NSTYLE; st++) {
		struct grp *g = &G[qi][ci][nk][bk][st];
		if (!g->tested) continue;
		printf("G %s %c %s %d %s %llu %llu %llu %llu %llu %d %d %d %d %llu\n", QTN[qi], CODEC[ci], NAMEKIND[nk],
		       BUFSZ[bk], STYLE[st], g->tested, g->exact, g->prefix, g->nothing, g->bad,
		       g->exact_max, g->exact_min, g->nonexact_min, g->nonexact_min_rl, g->floor_tested);
	}
}

static int lens[4200], nlens;

static void make_lengths(int dense_hi, int step, int maxlen)
{
	int n;
	for (n = 2; n <= dense_hi; n++) lens[nlens++] = n;
	for (n = dense_hi + 1 + (int) (seed % (unsigned) step); n < maxlen - 1; n += step) lens[nlens++] = n;
	if (maxlen - 1 > dense_hi) lens[nlens++] = maxlen - 1;
	if (maxlen > dense_hi) lens[nlens++] = maxlen;
}

int main(int argc, char **argv)
{
	int shard, nsh, dense_hi, step, maxlen, only_pair = -1, only_len = -1;
	int pair, j, qi, ci, worst = 0;

	if (argc < 8 || strcmp(argv[1], "run")) {
		fprintf(stderr, "usage: downans run <shard> <nshards> <seed> <dense_hi> <step> <maxlen> [<pair> [<len>]]\n");
		return 2;
	}
	shard = atoi(argv[2]); nsh = atoi(argv[3]); seed = (unsigned) atoi(argv[4]);
	dense_hi = atoi(argv[5]); step = atoi(argv[6]); maxlen = atoi(argv[7]);
	if (argc > 8) only_pair = atoi(argv[8]);
	if (argc > 9) only_len = atoi(argv[9]);
	if (nsh < 1 || shard < 0 || shard >= nsh || dense_hi < 102 || step < 1 || maxlen < dense_hi || maxlen > 4096 ||
	    only_pair >= NQT * NCODEC) return 2;
	make_names();
	make_lengths(dense_hi, step, maxlen);

	/* One child process per (qtype, codec) pair: a sanitizer abort (which is a violation of C09, see
	 * vflib/unitrun.py) then costs this shard the rest of that pair only, and the parent can say which
	 * case was running (the child keeps it in a shared page). */
	progress = mmap(NULL, sizeof(*progress), PROT_READ | PROT_WRITE, MAP_SHARED | MAP_ANONYMOUS, -1, 0);
	if (progress == MAP_FAILED) { perror("mmap"); return 3; }
	for (pair = 0; pair < NQT * NCODEC; pair++) {
		pid_t pid;
		int status = 0, rc;
		if (only_pair >= 0 && pair != only_pair) continue;
		qi = pair / NCODEC; ci = pair % NCODEC;
		memset(progress, 0, sizeof(*progress));
		fflush(stdout);
		fflush(stderr);
		pid = fork();
		if (pid < 0) { perror("fork"); return 3; }
		if (pid == 0) {
			samples_left = (pair % nsh == shard) ? 1 : 0;
			for (j = 0; j < nlens; j++)
				if ((pair * 5 + j) % nsh == shard && (only_len < 0 || lens[j] == only_len))
					one_length(qi, ci, lens[j]);
			if (only_len < 0) {
				/* Order of answers: the client decodes a stream of answers in one process, so whatever a
				 * large (many-record) answer leaves behind must not leak into a later, smaller one.  Same
				 * oracle, descending and interleaved big/small order. */
				uint64_t r = mix(seed, (uint64_t) pair, 77, (uint64_t) shard) | 1;
				int k;
				in_order_pass = 1;
				for (j = nlens - 1; j >= 0; j -= 2)
					if ((pair * 5 + j) % nsh == shard)
						one_length(qi, ci, lens[j]);
				for (k = 0; k < 24; k++) {
					int a, b;
					r = r * 6364136223846793005ULL + 1442695040888963407ULL;
					a = (int) ((r >> 33) % (uint64_t) nlens);
					r = r * 6364136223846793005ULL + 1442695040888963407ULL;
					b = (int) ((r >> 33) % (uint64_t) (nlens < 120 ? nlens : 120));
					one_length(qi, ci, lens[a]);
					one_length(qi, ci, lens[b]);
				}
				order_passes = 1;
			}
			report(qi, ci);
			fflush(stdout);
			_exit(0);
		}
		while (waitpid(pid, &status, 0) < 0 && errno == EINTR) ;
		rc = WIFEXITED(status) ? WEXITSTATUS(status) : 128 + (WIFSIGNALED(status) ? WTERMSIG(status) : 0);
		if (rc != 0) {
			printf("A %s %c rc=%d qtype=%s codec=%c n=%d style=%s name=%s buf=%d stage=%s seed=%u pid=%d\n", QTN[qi], CODEC[ci], rc,
			       QTN[qi], CODEC[ci], progress->n, STYLE[progress->style % NSTYLE], NAMEKIND[progress->nk % NNAME],
			       progress->stage == 2 ? BUFSZ[progress->bk % NBUF] : 0,
			       progress->stage == 1 ? "server-write_dns" : progress->stage == 2 ? "client-read_dns_withq" : "driver", seed, (int) pid);
			if (!worst) worst = rc;
		}
	}
	return worst;
}
