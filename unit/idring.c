/* C06: replies that do not match the client's recent queries are ignored - over a whole cycle of the 16-bit id counter.
 *
 * The tree's client.c compiled as text.  The client sends pings through its own send_ping()/send_query(); sendto() is
 * redirected and records the id of every query that really left (the history).  After every ping, answers built with the
 * tree's own dns_encode(QR_ANSWER) for the client's own question - a data header announcing a new downstream packet plus one
 * complete compressed packet - are put on the client's socket and the client's own tunnel_dns() is called:
 *   unmatched   an id that is none of the three ids most recently sent (0, the id four queries back, a neighbour of the
 *               current id, a random one): nothing may be written to the tun device, and the reassembly state is unchanged;
 *   matched     (now and then) the id of the last query: the packet is written to the tun device (positive control).
 * Monitors: (1) the ids the client remembers as recent (chunkid, chunkid_prev, chunkid_prev2) are the ids of the last three
 * queries that left; (2) the client never sends id 0; (3) the two verdicts above.
 *
 * usage: idring <shard> <nshards> <seed> <steps>
 */
#include "client.c"
#include "drv.h"
#include <sys/socket.h>
#include <zlib.h>

#define TUNFD 1003

static unsigned short hist[8];
static unsigned long long nsent, evals;
static unsigned char lastq[4096];
static size_t lastqlen;
static int tunw;
static unsigned char tunbuf[70000];
static size_t tunlen;

ssize_t __real_write(int, const void *, size_t);

ssize_t __wrap_sendto(int fd, const void *buf, size_t len, int flags, const struct sockaddr *to, socklen_t tolen)
{
	(void)fd; (void)flags; (void)to; (void)tolen;
	if (len >= 2 && len <= sizeof(lastq)) {
		memcpy(lastq, buf, len);
		lastqlen = len;
		memmove(hist + 1, hist, sizeof(hist) - sizeof(hist[0]));
		hist[0] = (unsigned short)((((const unsigned char *)buf)[0] << 8) | ((const unsigned char *)buf)[1]);
		nsent++;
	}
	return (ssize_t)len;
}

ssize_t __wrap_write(int fd, const void *buf, size_t n)
{
	if (fd == TUNFD) {
		tunw++;
		tunlen = n > sizeof(tunbuf) ? sizeof(tunbuf) : n;
		memcpy(tunbuf, buf, tunlen);
		return (ssize_t)n;
	}
	return __real_write(fd, buf, n);
}

static int peer_fd, dns_fd_;

/* an answer to the client's last question carrying one complete packet under the given id */
static int inject(unsigned short id, int newseq, const unsigned char *frame, size_t flen)
{
	struct query q;
	unsigned char body[2048];
	char pkt[4096];
	uLongf zl = sizeof(body) - 2;
	int len;
	memset(&q, 0, sizeof(q));
	if (dns_decode(NULL, 0, &q, QR_QUERY, (char *)lastq, lastqlen) < 0) return -1;
	q.id = id;
	body[0] = 0x80;
	body[1] = (unsigned char)(((newseq & 7) << 5) | 1);
	if (compress2(body + 2, &zl, frame, flen, 9) != Z_OK) return -1;
	len = dns_encode(pkt, sizeof(pkt), &q, QR_ANSWER, (char *)body, zl + 2);
	if (len <= 0) return -1;
	if (send(peer_fd, pkt, len, 0) != len) return -1;
	return 0;
}

int main(int argc, char **argv)
{
	int shard = argc > 1 ? atoi(argv[1]) : 0;
	int nsh = argc > 2 ? atoi(argv[2]) : 1;
	unsigned seed = argc > 3 ? (unsigned)atoi(argv[3]) : 1;
	long steps = argc > 4 ? atol(argv[4]) : 70000;
	int sv[2];
	long i;
	unsigned long long unmatched = 0, matched = 0, wraps_seen = 0;
	struct sockaddr_storage ss;
	struct sockaddr_in *sin = (struct sockaddr_in *)&ss;
	unsigned char frame[64];
	(void)nsh;

	if (socketpair(AF_UNIX, SOCK_DGRAM, 0, sv) < 0) { perror("socketpair"); return 2; }
	dns_fd_ = sv[0]; peer_fd = sv[1];
	drv_seed(seed * 1000003u + (unsigned)shard * 7919u + 5);
	srand((unsigned)drv_rand());		/* client_init() draws the first id from rand() */
	memset(&ss, 0, sizeof(ss));
	sin->sin_family = AF_INET; sin->sin_port = htons(53); sin->sin_addr.s_addr = htonl(0x7f000001);
	client_set_nameserver(&ss, sizeof(*sin));
	client_init();
	client_set_topdomain("t.example.com");
	client_set_password("x");
	client_set_lazymode(shard & 1);
	client_set_selecttimeout(4);
	client_set_qtype("NULL");
	dataenc = &base32_ops;
	send_query_sendcnt = -1;
	userid = shard & 15;
	userid_char = "0123456789abcdef"[userid];
	userid_char2 = "0123456789ABCDEF"[userid];
	downenc = ' ';

	for (i = 0; i < steps; i++) {
		unsigned short before = hist[0];
		int k;
		send_ping(dns_fd_);
		evals++;
		if (hist[0] == 0) {
			DRV_VIOL("C06:idring:query-with-id-0", "the client sent a query with DNS id 0 (after id %u)\t-", before);
			break;
		}
		if (hist[0] < before) wraps_seen++;
		/* unmatched answers: around the wrap of the counter every step, elsewhere every 16th */
		if (nsent >= 5 && (hist[0] < 40000 && before > 40000 ? 1 : (hist[0] <= 3 * 7727 || i % 16 == 0))) {
			unsigned short cand[5];
			cand[0] = 0;
			cand[1] = hist[3];
			cand[2] = (unsigned short)(hist[0] + 1);
			cand[3] = (unsigned short)drv_rand();
			cand[4] = (unsigned short)(hist[0] + 7727);	/* the id of the next query */
			for (k = 0; k < 5; k++) {
				int w0 = tunw, s0 = inpkt.seqno, f0 = inpkt.fragment, l0 = inpkt.len;
				unsigned long long n0 = nsent;
				size_t j;
				if (cand[k] == hist[0] || cand[k] == hist[1] || cand[k] == hist[2]) continue;
				for (j = 0; j < sizeof(frame); j++) frame[j] = (unsigned char)drv_rand();
				frame[0] = 0; frame[1] = 0; frame[2] = 8; frame[3] = 0;
				if (inject(cand[k], inpkt.seqno + 1 + k, frame, sizeof(frame)) < 0) { fprintf(stderr, "inject failed\n"); return 2; }
				tunnel_dns(TUNFD, dns_fd_);
				unmatched++; evals++;
				if (tunw != w0 || inpkt.seqno != s0 || inpkt.fragment != f0 || inpkt.len != l0) {
					DRV_VIOL("C06:idring:unmatched-reply-taken",
						 "an answer with id %u - the last three queries that left had ids (%u, %u, %u), %llu queries sent - %s (downstream position %d/%d -> %d/%d)\t-",
						 cand[k], hist[0], hist[1], hist[2], n0, tunw != w0 ? "was written to the tun device" : "changed the reassembly state",
						 s0, f0, inpkt.seqno, inpkt.fragment);
					goto out;
				}
			}
		}
		if (i % 61 == 7) {
			int w0 = tunw;
			size_t j;
			for (j = 0; j < sizeof(frame); j++) frame[j] = (unsigned char)drv_rand();
			frame[0] = 0; frame[1] = 0; frame[2] = 8; frame[3] = 0;
			if (inject(hist[0], inpkt.seqno + 1, frame, sizeof(frame)) < 0) { fprintf(stderr, "inject failed\n"); return 2; }
			tunnel_dns(TUNFD, dns_fd_);
			evals++;
			if (tunw == w0 + 1 && tunlen == sizeof(frame) && !memcmp(tunbuf + 4, frame + 4, sizeof(frame) - 4)) matched++;
		}
		if (nsent >= 3 && (chunkid != hist[0] || chunkid_prev != hist[1] || chunkid_prev2 != hist[2])) {
			DRV_VIOL("C06:idring:remembered-ids-are-not-the-ids-sent",
				 "after %llu queries the client remembers (%u, %u, %u) as its recent ids; the last three queries that left had (%u, %u, %u)\t-",
				 nsent, chunkid, chunkid_prev, chunkid_prev2, hist[0], hist[1], hist[2]);
			break;
		}
	}
out:
	DRV_E(evals);
	DRV_X("idring_queries_sent", nsent);
	DRV_X("idring_unmatched_answers_ignored", unmatched);
	DRV_X("idring_matched_answers_delivered", matched);
	DRV_X("idring_counter_wraps", wraps_seen);
	if (matched >= 100 && unmatched >= 1000 && wraps_seen >= 7000)
		DRV_N("idring lazy=%d", shard & 1);
	return 0;
}
