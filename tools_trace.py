#!/usr/bin/env python3
"""Debug helper: re-run the scenario of a replay file (C01/C02-style params) and print a decoded trace.
usage: tools_trace.py <replay.json> [from_s] [to_s]"""
import importlib
import json
import sys
import os

sys.path.insert(0, os.path.dirname(os.path.abspath(__file__)))
from vflib import core, simrun
from simnet import proto


def describe(data, domain_labels=3):
    if data[:3] == proto.RAW_MAGIC:
        return "RAW cmd=%02x len=%d" % (data[3] if len(data) > 3 else 0, len(data))
    try:
        m = proto.parse_msg(data)
    except proto.ParseError as e:
        return "UNPARSABLE(%s) %s" % (e, data[:24].hex())
    if not m.qd:
        return "noq id=%d" % m.id
    labels, t, _c = m.qd[0]
    first = labels[0] if labels else b""
    tn = proto.QTYPE_NAMES.get(t, str(t))
    s = "%s id=%5d %s '%s'" % ("A" if m.qr else "Q", m.id, tn, first[:12].decode("latin1"))
    c = first[:1].lower()
    if c in b"0123456789abcdef" and len(first) >= 5:
        try:
            h = proto.parse_up_data_header(first)
            s += " DATA up=%d/%d ack=%d/%d last=%d" % (h["up_seq"], h["up_frag"], h["dn_seq"], h["dn_frag"], h["last"])
        except Exception:
            pass
    elif c == b"p":
        try:
            raw = proto.BASE32.decode(b"".join(labels[:-domain_labels])[1:])
            s += " PING ack=%d/%d" % (raw[1] >> 4, raw[1] & 15)
        except Exception:
            pass
    if m.qr:
        try:
            pl = proto.extract_payload(m)
            if c in b"0123456789abcdefp" and len(pl) >= 2:
                h = proto.parse_down_header(pl)
                s += " -> upack=%d/%d dn=%d/%d last=%d len=%d" % (h["up_seq"], h["up_frag"], h["dn_seq"], h["dn_frag"], h["last"], len(pl) - 2)
            else:
                s += " -> %r" % pl[:24]
        except Exception as e:
            s += " -> (undecodable: %s) rcode=%d an=%d" % (e, m.rcode, len(m.an))
    return s


def main():
    w = json.load(open(sys.argv[1]))
    t0 = float(sys.argv[2]) if len(sys.argv) > 2 else 0
    t1 = float(sys.argv[3]) if len(sys.argv) > 3 else 1e9
    prop = w["property"]
    mod = importlib.import_module("checks." + prop.lower())
    if not hasattr(mod, "scn"):
        mod = importlib.import_module("checks._sess")
    params = w["witness"]["params"]
    with core.Build() as b:
        srv, cli = b.sim_binaries()
        simrun._init(srv, cli, b.run)
        # monkeypatch Sim.close to dump the trace first
        from simnet import scen
        orig = scen.Sim.close

        def close(self):
            for ev in self.k.log:
                ts = ev[0] / 1e6
                if not (t0 <= ts <= t1):
                    continue
                kind, who, kw = ev[1], ev[2], ev[3]
                if kind in ("send", "asend", "relay_up", "relay_down"):
                    print("%10.4f %-10s %-8s %s" % (ts, kind, who, describe(kw["data"])))
                elif kind in ("tun_read", "tun_write", "tun_offer"):
                    print("%10.4f %-10s %-8s len=%d id=%s" % (ts, kind, who, len(kw["data"]),
                                                             (proto.frame_ident(kw["data"]) or 0) & 0xFFFFF))
                elif kind in ("wait",):
                    print("%10.4f %-10s %-8s fds=%s to=%s" % (ts, kind, who, kw["fds"], kw["timeout"]))
                elif kind == "recv":
                    print("%10.4f %-10s %-8s %s" % (ts, kind, who, describe(kw["data"])))
                elif kind == "deliver":
                    pass
                else:
                    print("%10.4f %-10s %-8s %s" % (ts, kind, who, str(kw)[:150]))
            orig(self)
        scen.Sim.close = close
        r = mod.scn(params)
        print(json.dumps({k: v for k, v in r.items() if k != "sets"}, default=repr, indent=1)[:3000])


if __name__ == "__main__":
    main()
